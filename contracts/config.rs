// Contract unit for configuration pass-through (C17): src/policy.rs, src/unsync/builder.rs, src/sync/builder.rs.
// The caches themselves appear as an assumed `with_everything` whose contract "fields == arguments" is the one PROVED on
// the real text in the unsync unit (unsync) / stated for the concurrent cache (its constructor chain
// BaseCache::new -> Inner::new needs DashMap/crossbeam types: not under contract, named in the evidence).
// The `weigher(..)` setters box a `dyn Fn`: rejected by Verus, not under contract.
use vstd::prelude::*;
verus! {
pub mod env {
use vstd::prelude::*;
use std::time::Duration;
pub uninterp spec fn dur_ns(d: Duration) -> int;
pub open spec fn max_dur_ns() -> int { 1000int * 365 * 24 * 3600 * 1_000_000_000 }
#[verifier::external_body]
pub struct RandomState { x: u64 }
impl Default for RandomState {
    #[verifier::external_body]
    fn default() -> (r: Self) { unimplemented!() }
}
impl Clone for RandomState { #[verifier::external_body] fn clone(&self) -> (r: Self) { unimplemented!() } }
#[verifier::external_body]
pub struct DefaultHasherStub { x: u64 }
impl std::hash::Hasher for DefaultHasherStub {
    #[verifier::external_body] fn finish(&self) -> u64 { unimplemented!() }
    #[verifier::external_body] fn write(&mut self, bytes: &[u8]) { unimplemented!() }
}
impl std::hash::BuildHasher for RandomState {
    type Hasher = DefaultHasherStub;
    #[verifier::external_body] fn build_hasher(&self) -> DefaultHasherStub { unimplemented!() }
}
#[verifier::external_body]
#[verifier::reject_recursive_types(K)]
#[verifier::reject_recursive_types(V)]
pub struct Weigher<K, V> { k: std::marker::PhantomData<(K, V)> }
pub mod builder_utils {
    use vstd::prelude::*;
    use std::time::Duration;
    use super::*;
    /// returns normally iff both durations are <= 1000 years: Kani harnesses ensure_returns_when_within_1000_years /
    /// ensure_panics_when_beyond_1000_years (complete over all Durations). Partial-correctness reading used here: IF the call
    /// returns, both durations are within the limit. The builders below have no precondition on the durations, and the cache
    /// constructor requires the limit (its `checked_add`s rely on it), so a `build*` that forgets this guard fails to verify.
//@@ SIG file=src/common/builder_utils.rs owner=- name=ensure_expirations_or_panic
    #[verifier::external_body]
    pub fn ensure_expirations_or_panic(time_to_live: Option<Duration>, time_to_idle: Option<Duration>)
        ensures
            time_to_live.is_some() ==> dur_ns(time_to_live.unwrap()) <= max_dur_ns(), //@ [C17,C08]
            time_to_idle.is_some() ==> dur_ns(time_to_idle.unwrap()) <= max_dur_ns(), //@ [C17,C08]
    { unimplemented!() }
//@@ END
}
} // mod env

pub mod policy {
use vstd::prelude::*;
use std::time::Duration;
//@@ STRUCT file=src/policy.rs name=Policy
pub struct Policy {
    pub max_capacity: Option<u64>,
    pub time_to_live: Option<Duration>,
    pub time_to_idle: Option<Duration>,
}
//@@ END
impl Policy {
//@@ FN file=src/policy.rs owner=Policy name=new tags=C17
    pub(crate) fn new(
        max_capacity: Option<u64>,
        time_to_live: Option<Duration>,
        time_to_idle: Option<Duration>,
    ) -> /*@+*/(r:/*@-*/ Self/*@+*/)/*@-*/
        ensures r.max_capacity == max_capacity, r.time_to_live == time_to_live, r.time_to_idle == time_to_idle //@ [C17]
    {
        Self {
            max_capacity,
            time_to_live,
            time_to_idle,
        }
    }
//@@ END

//@@ FN file=src/policy.rs owner=Policy name=max_capacity tags=C17
    pub fn max_capacity(&self) -> /*@+*/(r:/*@-*/ Option<u64>/*@+*/)/*@-*/
        ensures r == self.max_capacity //@ [C17]
    {
        self.max_capacity
    }
//@@ END

//@@ FN file=src/policy.rs owner=Policy name=time_to_live tags=C17
    pub fn time_to_live(&self) -> /*@+*/(r:/*@-*/ Option<Duration>/*@+*/)/*@-*/
        ensures r == self.time_to_live //@ [C17]
    {
        self.time_to_live
    }
//@@ END

//@@ FN file=src/policy.rs owner=Policy name=time_to_idle tags=C17
    pub fn time_to_idle(&self) -> /*@+*/(r:/*@-*/ Option<Duration>/*@+*/)/*@-*/
        ensures r == self.time_to_idle //@ [C17]
    {
        self.time_to_idle
    }
//@@ END
}
} // mod policy

pub mod ub {
use vstd::prelude::*;
use std::time::Duration;
use std::hash::{BuildHasher, Hash};
use std::marker::PhantomData;
use super::env::*;

//@@ STRUCT file=src/unsync/builder.rs name=CacheBuilder
#[verifier::reject_recursive_types(K)]
#[verifier::reject_recursive_types(V)]
#[verifier::reject_recursive_types(C)]
pub struct CacheBuilder<K, V, C> {
    pub max_capacity: Option<u64>,
    pub initial_capacity: Option<usize>,
    pub weigher: Option<Weigher<K, V>>,
    pub time_to_live: Option<Duration>,
    pub time_to_idle: Option<Duration>,
    pub cache_type: PhantomData<C>,
}
//@@ END

/// the single-threaded cache: the contract of with_everything is PROVED in the unsync unit
#[verifier::external_body]
#[verifier::reject_recursive_types(K)]
#[verifier::reject_recursive_types(V)]
#[verifier::reject_recursive_types(S)]
pub struct Cache<K, V, S> { p: PhantomData<(K, V, S)> }
impl<K, V, S> Cache<K, V, S> {
    pub uninterp spec fn sp_max_capacity(&self) -> Option<u64>;
    pub uninterp spec fn sp_initial_capacity_observable(&self) -> bool;
    pub uninterp spec fn sp_hasher(&self) -> S;
    pub uninterp spec fn sp_weigher(&self) -> Option<Weigher<K, V>>;
    pub uninterp spec fn sp_ttl(&self) -> Option<Duration>;
    pub uninterp spec fn sp_tti(&self) -> Option<Duration>;
//@@ SIG file=src/unsync/cache.rs owner=Cache name=with_everything
    #[verifier::external_body]
    pub fn with_everything(
        max_capacity: Option<u64>,
        initial_capacity: Option<usize>,
        build_hasher: S,
        weigher: Option<Weigher<K, V>>,
        time_to_live: Option<Duration>,
        time_to_idle: Option<Duration>,
    ) -> (r: Self)
        requires
            time_to_live.is_some() ==> dur_ns(time_to_live.unwrap()) <= max_dur_ns(), //@ [C17,C08]
            time_to_idle.is_some() ==> dur_ns(time_to_idle.unwrap()) <= max_dur_ns(), //@ [C17,C08]
        ensures r.sp_max_capacity() == max_capacity, r.sp_hasher() == build_hasher, r.sp_weigher() == weigher,
            r.sp_ttl() == time_to_live, r.sp_tti() == time_to_idle,
    { unimplemented!() }
//@@ END
}

impl<K, V> Default for CacheBuilder<K, V, Cache<K, V, RandomState>>
where
    K: Eq + Hash,
{
//@@ FN file=src/unsync/builder.rs owner=Default for CacheBuilder name=default tags=C17
    fn default() -> /*@+*/(r:/*@-*/ Self/*@+*/)/*@-*/
        ensures r.max_capacity.is_none(), r.initial_capacity.is_none(), r.weigher.is_none(), r.time_to_live.is_none(), r.time_to_idle.is_none() //@ [C17]
    {
        Self {
            max_capacity: None,
            initial_capacity: None,
            weigher: None,
            time_to_live: None,
            time_to_idle: None,
            cache_type: Default::default(),
        }
    }
//@@ END
}

impl<K, V> CacheBuilder<K, V, Cache<K, V, RandomState>>
where
    K: Eq + Hash,
{
//@@ FN file=src/unsync/builder.rs owner=CacheBuilder name=new tags=C17
    pub fn new(max_capacity: u64) -> /*@+*/(r:/*@-*/ Self/*@+*/)/*@-*/
        ensures r.max_capacity == Some(max_capacity), r.initial_capacity.is_none(), r.weigher.is_none(), r.time_to_live.is_none(), r.time_to_idle.is_none() //@ [C17]
    {
        Self {
            max_capacity: Some(max_capacity),
            ..Default::default()
        }
    }
//@@ END

//@@ FN file=src/unsync/builder.rs owner=CacheBuilder name=build tags=C17
    pub fn build(self) -> /*@+*/(r:/*@-*/ Cache<K, V, RandomState>/*@+*/)/*@-*/
        ensures // C17: the five knobs reach the cache unchanged //@
            r.sp_max_capacity() == self.max_capacity, r.sp_weigher() == self.weigher, //@ [C17]
            r.sp_ttl() == self.time_to_live, r.sp_tti() == self.time_to_idle, //@ [C17]
    {
        let build_hasher = RandomState::default();
        builder_utils::ensure_expirations_or_panic(self.time_to_live, self.time_to_idle);
        Cache::with_everything(
            self.max_capacity,
            self.initial_capacity,
            build_hasher,
            self.weigher,
            self.time_to_live,
            self.time_to_idle,
        )
    }
//@@ END

//@@ FN file=src/unsync/builder.rs owner=CacheBuilder name=build_with_hasher tags=C17
    pub fn build_with_hasher<S>(self, hasher: S) -> /*@+*/(r:/*@-*/ Cache<K, V, S>/*@+*/)/*@-*/
    where
        S: BuildHasher + Clone,
        ensures //@
            r.sp_max_capacity() == self.max_capacity, r.sp_weigher() == self.weigher, r.sp_hasher() == hasher, //@ [C17]
            r.sp_ttl() == self.time_to_live, r.sp_tti() == self.time_to_idle, //@ [C17]
    {
        builder_utils::ensure_expirations_or_panic(self.time_to_live, self.time_to_idle);
        Cache::with_everything(
            self.max_capacity,
            self.initial_capacity,
            hasher,
            self.weigher,
            self.time_to_live,
            self.time_to_idle,
        )
    }
//@@ END
}

impl<K, V, C> CacheBuilder<K, V, C> {
    /// everything but the named knob is carried over
    pub open spec fn same_but(&self, o: &Self, cap: bool, init: bool, ttl: bool, tti: bool) -> bool {
        &&& (cap || self.max_capacity == o.max_capacity) && (init || self.initial_capacity == o.initial_capacity)
        &&& (ttl || self.time_to_live == o.time_to_live) && (tti || self.time_to_idle == o.time_to_idle)
        &&& self.weigher == o.weigher
    }
//@@ FN file=src/unsync/builder.rs owner=CacheBuilder name=max_capacity tags=C17
    pub fn max_capacity(self, max_capacity: u64) -> /*@+*/(r:/*@-*/ Self/*@+*/)/*@-*/
        ensures r.max_capacity == Some(max_capacity), r.same_but(&self, true, false, false, false) //@ [C17]
    {
        Self {
            max_capacity: Some(max_capacity),
            ..self
        }
    }
//@@ END

//@@ FN file=src/unsync/builder.rs owner=CacheBuilder name=initial_capacity tags=C17
    pub fn initial_capacity(self, number_of_entries: usize) -> /*@+*/(r:/*@-*/ Self/*@+*/)/*@-*/
        ensures r.initial_capacity == Some(number_of_entries), r.same_but(&self, false, true, false, false) //@ [C17]
    {
        Self {
            initial_capacity: Some(number_of_entries),
            ..self
        }
    }
//@@ END

//@@ FN file=src/unsync/builder.rs owner=CacheBuilder name=time_to_live tags=C17
    pub fn time_to_live(self, duration: Duration) -> /*@+*/(r:/*@-*/ Self/*@+*/)/*@-*/
        ensures r.time_to_live == Some(duration), r.same_but(&self, false, false, true, false) //@ [C17,C05]
    {
        Self {
            time_to_live: Some(duration),
            ..self
        }
    }
//@@ END

//@@ FN file=src/unsync/builder.rs owner=CacheBuilder name=time_to_idle tags=C17
    pub fn time_to_idle(self, duration: Duration) -> /*@+*/(r:/*@-*/ Self/*@+*/)/*@-*/
        ensures r.time_to_idle == Some(duration), r.same_but(&self, false, false, false, true) //@ [C17,C06]
    {
        Self {
            time_to_idle: Some(duration),
            ..self
        }
    }
//@@ END
}
} // mod ub

pub mod sb {
use vstd::prelude::*;
use std::time::Duration;
use std::hash::{BuildHasher, Hash};
use std::marker::PhantomData;
use super::env::*;

//@@ STRUCT file=src/sync/builder.rs name=CacheBuilder
#[verifier::reject_recursive_types(K)]
#[verifier::reject_recursive_types(V)]
#[verifier::reject_recursive_types(C)]
pub struct CacheBuilder<K, V, C> {
    pub max_capacity: Option<u64>,
    pub initial_capacity: Option<usize>,
    pub weigher: Option<Weigher<K, V>>,
    pub time_to_live: Option<Duration>,
    pub time_to_idle: Option<Duration>,
    pub cache_type: PhantomData<C>,
}
//@@ END

/// the concurrent cache: the contract of with_everything (-> BaseCache::new -> Inner::new) is PROVED on the real text in unit `sync`
/// (there as `built_with` over the stored fields); here it is the assumed stub the builders are verified against
#[verifier::external_body]
#[verifier::reject_recursive_types(K)]
#[verifier::reject_recursive_types(V)]
#[verifier::reject_recursive_types(S)]
pub struct Cache<K, V, S> { p: PhantomData<(K, V, S)> }
impl<K, V, S> Cache<K, V, S> {
    pub uninterp spec fn sp_max_capacity(&self) -> Option<u64>;
    pub uninterp spec fn sp_initial_capacity_observable(&self) -> bool;
    pub uninterp spec fn sp_hasher(&self) -> S;
    pub uninterp spec fn sp_weigher(&self) -> Option<Weigher<K, V>>;
    pub uninterp spec fn sp_ttl(&self) -> Option<Duration>;
    pub uninterp spec fn sp_tti(&self) -> Option<Duration>;
//@@ SIG file=src/sync/cache.rs owner=Cache name=with_everything
    #[verifier::external_body]
    pub fn with_everything(
        max_capacity: Option<u64>,
        initial_capacity: Option<usize>,
        build_hasher: S,
        weigher: Option<Weigher<K, V>>,
        time_to_live: Option<Duration>,
        time_to_idle: Option<Duration>,
    ) -> (r: Self)
        requires
            time_to_live.is_some() ==> dur_ns(time_to_live.unwrap()) <= max_dur_ns(), //@ [C17,C08]
            time_to_idle.is_some() ==> dur_ns(time_to_idle.unwrap()) <= max_dur_ns(), //@ [C17,C08]
            // ASSUMPTION on the configuration (see unit `sync`, Inner::new): initial capacity + write-log size (384) fits in usize
            initial_capacity.is_some() ==> initial_capacity.unwrap() + 384 <= usize::MAX, //@ [C08]
        ensures r.sp_max_capacity() == max_capacity, r.sp_hasher() == build_hasher, r.sp_weigher() == weigher,
            r.sp_ttl() == time_to_live, r.sp_tti() == time_to_idle,
    { unimplemented!() }
//@@ END
}

impl<K, V> Default for CacheBuilder<K, V, Cache<K, V, RandomState>>
where
    K: Eq + Hash + Send + Sync + 'static,
    V: Clone + Send + Sync + 'static,
{
//@@ FN file=src/sync/builder.rs owner=Default for CacheBuilder name=default tags=C17
    fn default() -> /*@+*/(r:/*@-*/ Self/*@+*/)/*@-*/
        ensures r.max_capacity.is_none(), r.initial_capacity.is_none(), r.weigher.is_none(), r.time_to_live.is_none(), r.time_to_idle.is_none() //@ [C17]
    {
        Self {
            max_capacity: None,
            initial_capacity: None,
            weigher: None,
            time_to_live: None,
            time_to_idle: None,
            cache_type: Default::default(),
        }
    }
//@@ END
}

impl<K, V> CacheBuilder<K, V, Cache<K, V, RandomState>>
where
    K: Eq + Hash + Send + Sync + 'static,
    V: Clone + Send + Sync + 'static,
{
//@@ FN file=src/sync/builder.rs owner=CacheBuilder name=new tags=C17
    pub fn new(max_capacity: u64) -> /*@+*/(r:/*@-*/ Self/*@+*/)/*@-*/
        ensures r.max_capacity == Some(max_capacity), r.initial_capacity.is_none(), r.weigher.is_none(), r.time_to_live.is_none(), r.time_to_idle.is_none() //@ [C17]
    {
        Self {
            max_capacity: Some(max_capacity),
            ..Default::default()
        }
    }
//@@ END

//@@ FN file=src/sync/builder.rs owner=CacheBuilder name=build tags=C17
    pub fn build(self) -> /*@+*/(r:/*@-*/ Cache<K, V, RandomState>/*@+*/)/*@-*/
        // ASSUMPTION on the configuration: the initial capacity plus the write-log size fits in usize (beyond that the map
        // constructor of the dependency panics on the same input in any case)
        requires self.initial_capacity.is_some() ==> self.initial_capacity.unwrap() + 384 <= usize::MAX, //@ [C08]
        ensures // C17: the five knobs reach the cache unchanged //@
            r.sp_max_capacity() == self.max_capacity, r.sp_weigher() == self.weigher, //@ [C17]
            r.sp_ttl() == self.time_to_live, r.sp_tti() == self.time_to_idle, //@ [C17]
    {
        let build_hasher = RandomState::default();
        builder_utils::ensure_expirations_or_panic(self.time_to_live, self.time_to_idle);
        Cache::with_everything(
            self.max_capacity,
            self.initial_capacity,
            build_hasher,
            self.weigher,
            self.time_to_live,
            self.time_to_idle,
        )
    }
//@@ END

//@@ FN file=src/sync/builder.rs owner=CacheBuilder name=build_with_hasher tags=C17
    pub fn build_with_hasher<S>(self, hasher: S) -> /*@+*/(r:/*@-*/ Cache<K, V, S>/*@+*/)/*@-*/
    where
        S: BuildHasher + Clone + Send + Sync + 'static,
        requires self.initial_capacity.is_some() ==> self.initial_capacity.unwrap() + 384 <= usize::MAX, //@ [C08]
        ensures //@
            r.sp_max_capacity() == self.max_capacity, r.sp_weigher() == self.weigher, r.sp_hasher() == hasher, //@ [C17]
            r.sp_ttl() == self.time_to_live, r.sp_tti() == self.time_to_idle, //@ [C17]
    {
        builder_utils::ensure_expirations_or_panic(self.time_to_live, self.time_to_idle);
        Cache::with_everything(
            self.max_capacity,
            self.initial_capacity,
            hasher,
            self.weigher,
            self.time_to_live,
            self.time_to_idle,
        )
    }
//@@ END
}

impl<K, V, C> CacheBuilder<K, V, C> {
    /// everything but the named knob is carried over
    pub open spec fn same_but(&self, o: &Self, cap: bool, init: bool, ttl: bool, tti: bool) -> bool {
        &&& (cap || self.max_capacity == o.max_capacity) && (init || self.initial_capacity == o.initial_capacity)
        &&& (ttl || self.time_to_live == o.time_to_live) && (tti || self.time_to_idle == o.time_to_idle)
        &&& self.weigher == o.weigher
    }
//@@ FN file=src/sync/builder.rs owner=CacheBuilder name=max_capacity tags=C17
    pub fn max_capacity(self, max_capacity: u64) -> /*@+*/(r:/*@-*/ Self/*@+*/)/*@-*/
        ensures r.max_capacity == Some(max_capacity), r.same_but(&self, true, false, false, false) //@ [C17]
    {
        Self {
            max_capacity: Some(max_capacity),
            ..self
        }
    }
//@@ END

//@@ FN file=src/sync/builder.rs owner=CacheBuilder name=initial_capacity tags=C17
    pub fn initial_capacity(self, number_of_entries: usize) -> /*@+*/(r:/*@-*/ Self/*@+*/)/*@-*/
        ensures r.initial_capacity == Some(number_of_entries), r.same_but(&self, false, true, false, false) //@ [C17]
    {
        Self {
            initial_capacity: Some(number_of_entries),
            ..self
        }
    }
//@@ END

//@@ FN file=src/sync/builder.rs owner=CacheBuilder name=time_to_live tags=C17
    pub fn time_to_live(self, duration: Duration) -> /*@+*/(r:/*@-*/ Self/*@+*/)/*@-*/
        ensures r.time_to_live == Some(duration), r.same_but(&self, false, false, true, false) //@ [C17,C05]
    {
        Self {
            time_to_live: Some(duration),
            ..self
        }
    }
//@@ END

//@@ FN file=src/sync/builder.rs owner=CacheBuilder name=time_to_idle tags=C17
    pub fn time_to_idle(self, duration: Duration) -> /*@+*/(r:/*@-*/ Self/*@+*/)/*@-*/
        ensures r.time_to_idle == Some(duration), r.same_but(&self, false, false, false, true) //@ [C17,C06]
    {
        Self {
            time_to_idle: Some(duration),
            ..self
        }
    }
//@@ END
}
} // mod sb

pub mod canary {
use vstd::prelude::*;
pub proof fn verif_canary_config() ensures false {}
}
}
fn main() {}
