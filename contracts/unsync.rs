#![feature(sized_hierarchy)]
#![feature(allocator_api)]
use vstd::prelude::*;
verus! {
// =====================================================================
// ENV: assumed contracts (trusted) for the dependencies of unsync/cache.rs
// =====================================================================
pub mod env {
use vstd::prelude::*;
use std::time::Duration;
use std::rc::Rc;
use std::borrow::Borrow;
use std::hash::{BuildHasher, Hash};
use std::ptr::NonNull;
use vstd::std_specs::iter::IteratorSpec;
use vstd::std_specs::ops::*;
use vstd::std_specs::cmp::*;

pub type KeyId = int;
pub uninterp spec fn kid<Q: ?Sized>(q: &Q) -> KeyId;
pub open spec fn kid_rc<K>(k: Rc<K>) -> KeyId { kid::<K>(&*k) }
pub broadcast axiom fn axiom_kid_rc<K>(k: Rc<K>)
    ensures #[trigger] kid::<Rc<K>>(&k) == kid::<K>(&*k);

// ---- time ----
#[derive(Clone, Copy)]
#[verifier::external_body]
pub struct Instant { x: u64 }
impl Instant { pub uninterp spec fn t(&self) -> int; }
pub uninterp spec fn dur_ns(d: Duration) -> int;
pub open spec fn max_dur_ns() -> int { 1000int * 365 * 24 * 3600 * 1_000_000_000 }
pub broadcast axiom fn axiom_dur_nonneg(d: Duration) ensures #[trigger] dur_ns(d) >= 0;
pub assume_specification [Duration::is_zero] (d: &Duration) -> (r: bool) ensures r == (dur_ns(*d) == 0);
// std::cmp::min / max (assumed: the standard library's definition over the type's own total order)
pub assume_specification<T: Ord>[core::cmp::min::<T>](a: T, b: T) -> (r: T)
    ensures r == a || r == b,
        T::obeys_cmp_spec() ==> r == (if a.cmp_spec(&b) == core::cmp::Ordering::Greater { b } else { a });
pub assume_specification<T: Ord>[core::cmp::max::<T>](a: T, b: T) -> (r: T)
    ensures r == a || r == b,
        T::obeys_cmp_spec() ==> r == (if a.cmp_spec(&b) == core::cmp::Ordering::Greater { a } else { b });
impl PartialEq for Instant {
    #[verifier::external_body]
    fn eq(&self, o: &Instant) -> (r: bool) ensures r == (self.t() == o.t()) { unimplemented!() }
}
impl PartialOrd for Instant {
    #[verifier::external_body]
    fn partial_cmp(&self, o: &Instant) -> (r: Option<std::cmp::Ordering>) { unimplemented!() }
    #[verifier::external_body]
    fn le(&self, o: &Instant) -> (r: bool) ensures r == (self.t() <= o.t()) { unimplemented!() }
}
impl Instant {
    #[verifier::external_body]
    pub fn checked_add(&self, d: Duration) -> (r: Option<Instant>)
        ensures dur_ns(d) <= max_dur_ns() ==> r.is_some() && r.unwrap().t() == self.t() + dur_ns(d)
    { unimplemented!() }
}

pub trait AccessTime {
    spec fn sp_last_accessed(&self) -> Option<Instant>;
    spec fn sp_last_modified(&self) -> Option<Instant>;
    /// `false` for the node kind whose setter is `unreachable!()` (src/unsync.rs)
    spec fn sp_may_set_accessed(&self) -> bool;
    spec fn sp_may_set_modified(&self) -> bool;
    fn last_accessed(&self) -> (r: Option<Instant>) ensures r == self.sp_last_accessed();
    fn set_last_accessed(&mut self, timestamp: Instant) requires old(self).sp_may_set_accessed();
    fn last_modified(&self) -> (r: Option<Instant>) ensures r == self.sp_last_modified();
    fn set_last_modified(&mut self, timestamp: Instant) requires old(self).sp_may_set_modified();
}

pub struct N { pub id: int, pub key: KeyId, pub hash: u64 }

#[verifier::external_body]
#[verifier::reject_recursive_types(K)]
pub struct EntryInfo<K> { k: std::marker::PhantomData<K> }

#[verifier::reject_recursive_types(K)]
pub struct ValueEntry<K, V> { pub value: V, pub info: EntryInfo<K> }

impl<K, V> ValueEntry<K, V> {
    pub uninterp spec fn ao(&self) -> Option<int>;
    pub uninterp spec fn wo(&self) -> Option<int>;
    pub uninterp spec fn w(&self) -> u32;
    pub uninterp spec fn ta(&self) -> Option<Instant>;
    pub uninterp spec fn tm(&self) -> Option<Instant>;
    /// everything except the value is the same
    pub open spec fn same_info(&self, o: &Self) -> bool {
        self.ao() == o.ao() && self.wo() == o.wo() && self.w() == o.w() && self.ta() == o.ta() && self.tm() == o.tm()
    }

//@@ SIG file=src/unsync.rs owner=ValueEntry name=new
    #[verifier::external_body]
    pub fn new(value: V, policy_weight: u32) -> (r: Self)
        ensures r.value == value, r.w() == policy_weight, r.ao().is_none(), r.wo().is_none()
    { unimplemented!() }
//@@ END
//@@ SIG file=src/unsync.rs owner=ValueEntry name=policy_weight
    #[verifier::external_body]
    pub fn policy_weight(&self) -> (r: u32) ensures r == self.w() { unimplemented!() }
//@@ END
//@@ SIG file=src/unsync.rs owner=ValueEntry name=set_policy_weight
    #[verifier::external_body]
    pub fn set_policy_weight(&mut self, policy_weight: u32)
        ensures final(self).w() == policy_weight, final(self).value == old(self).value, final(self).ao() == old(self).ao(),
            final(self).wo() == old(self).wo(), final(self).ta() == old(self).ta(), final(self).tm() == old(self).tm()
    { unimplemented!() }
//@@ END
//@@ SIG file=src/unsync.rs owner=ValueEntry name=replace_deq_nodes_with
    #[verifier::external_body]
    pub fn replace_deq_nodes_with(&mut self, other: Self)
        ensures final(self).ao() == other.ao(), final(self).wo() == other.wo(), final(self).ta() == other.ta(), final(self).tm() == other.tm(),
            final(self).w() == old(self).w(), final(self).value == old(self).value
    { unimplemented!() }
//@@ END
//@@ SIG file=src/unsync.rs owner=AccessTime for ValueEntry name=set_last_accessed
    #[verifier::external_body]
    pub fn set_last_accessed(&mut self, timestamp: Instant)
        ensures final(self).ta() == (if old(self).ao().is_some() { Some(timestamp) } else { old(self).ta() }),
            final(self).value == old(self).value, final(self).ao() == old(self).ao(), final(self).wo() == old(self).wo(),
            final(self).w() == old(self).w(), final(self).tm() == old(self).tm()
    { unimplemented!() }
//@@ END
//@@ SIG file=src/unsync.rs owner=AccessTime for ValueEntry name=set_last_modified
    #[verifier::external_body]
    pub fn set_last_modified(&mut self, timestamp: Instant)
        ensures final(self).tm() == (if old(self).wo().is_some() { Some(timestamp) } else { old(self).tm() }),
            final(self).value == old(self).value, final(self).ao() == old(self).ao(), final(self).wo() == old(self).wo(),
            final(self).w() == old(self).w(), final(self).ta() == old(self).ta()
    { unimplemented!() }
//@@ END
}
impl<K, V> AccessTime for ValueEntry<K, V> {
    open spec fn sp_last_accessed(&self) -> Option<Instant> { if self.ao().is_some() { self.ta() } else { None } }
    open spec fn sp_last_modified(&self) -> Option<Instant> { if self.wo().is_some() { self.tm() } else { None } }
    open spec fn sp_may_set_accessed(&self) -> bool { true }
    open spec fn sp_may_set_modified(&self) -> bool { true }
    #[verifier::external_body]
    fn last_accessed(&self) -> (r: Option<Instant>) { unimplemented!() }
    #[verifier::external_body]
    fn set_last_accessed(&mut self, timestamp: Instant) { unimplemented!() }
    #[verifier::external_body]
    fn last_modified(&self) -> (r: Option<Instant>) { unimplemented!() }
    #[verifier::external_body]
    fn set_last_modified(&mut self, timestamp: Instant) { unimplemented!() }
}

//@@ STRUCT file=src/unsync.rs name=KeyDate
pub struct KeyDate<K> {
    pub key: Rc<K>,
    pub timestamp: Option<Instant>,
}
//@@ END
impl<K> KeyDate<K> {
//@@ FN file=src/unsync.rs owner=KeyDate name=new tags=C05,C11
    pub(crate) fn new(key: Rc<K>, timestamp: Option<Instant>) -> /*@+*/(r:/*@-*/ Self/*@+*/)/*@-*/
        ensures r.key == key, r.timestamp == timestamp //@ [C05,C11]
    {
        Self { key, timestamp }
    }
//@@ END
}
//@@ STRUCT file=src/unsync.rs name=KeyHashDate
pub struct KeyHashDate<K> {
    pub key: Rc<K>,
    pub hash: u64,
    pub timestamp: Option<Instant>,
}
//@@ END
impl<K> KeyHashDate<K> {
//@@ FN file=src/unsync.rs owner=KeyHashDate name=new tags=C06,C11,C13
    pub(crate) fn new(key: Rc<K>, hash: u64, timestamp: Option<Instant>) -> /*@+*/(r:/*@-*/ Self/*@+*/)/*@-*/
        ensures r.key == key, r.hash == hash, r.timestamp == timestamp //@ [C06,C11,C13]
    {
        Self {
            key,
            hash,
            timestamp,
        }
    }
//@@ END
}
#[verifier::reject_recursive_types(T)]
pub struct DeqNode<T> { pub element: T, pub ident: Ghost<int> }
impl<T> DeqNode<T> { pub open spec fn node_id(&self) -> int { self.ident@ } }
/// src/unsync.rs, real text: a list node's stamp is the `timestamp` field of its element; it is tied to the owning ENTRY's
/// stamp by the two coupling axioms `axiom_stamp_ao` / `axiom_stamp_wo` below. The `unreachable!()` setters are proved
/// unreachable (`sp_may_set_* == false` for that node kind: no caller under contract may call them).
impl<K> AccessTime for DeqNode<KeyDate<K>> {
    open spec fn sp_last_accessed(&self) -> Option<Instant> { None }
    open spec fn sp_last_modified(&self) -> Option<Instant> { self.element.timestamp }
    open spec fn sp_may_set_accessed(&self) -> bool { false }
    open spec fn sp_may_set_modified(&self) -> bool { true }
//@@ FN file=src/unsync.rs owner=AccessTime for DeqNode<KeyDate<K>> name=last_accessed tags=C06,C08
    fn last_accessed(&self) -> /*@+*/(r:/*@-*/ Option<Instant>/*@+*/)/*@-*/
    {
        None
    }
//@@ END
//@@ FN file=src/unsync.rs owner=AccessTime for DeqNode<KeyDate<K>> name=set_last_accessed tags=C08 never_called=1
    fn set_last_accessed(&mut self, _timestamp: Instant)
    {
        unreachable!();
    }
//@@ END
//@@ FN file=src/unsync.rs owner=AccessTime for DeqNode<KeyDate<K>> name=last_modified tags=C05
    fn last_modified(&self) -> /*@+*/(r:/*@-*/ Option<Instant>/*@+*/)/*@-*/
    {
        self.element.timestamp
    }
//@@ END
//@@ FN file=src/unsync.rs owner=AccessTime for DeqNode<KeyDate<K>> name=set_last_modified tags=C05
    fn set_last_modified(&mut self, timestamp: Instant)
        ensures final(self).element.timestamp == Some(timestamp), final(self).element.key == old(self).element.key, final(self).ident == old(self).ident //@ [C05]
    {
        self.element.timestamp = Some(timestamp);
    }
//@@ END
}
impl<K> AccessTime for DeqNode<KeyHashDate<K>> {
    open spec fn sp_last_accessed(&self) -> Option<Instant> { self.element.timestamp }
    open spec fn sp_last_modified(&self) -> Option<Instant> { None }
    open spec fn sp_may_set_accessed(&self) -> bool { true }
    open spec fn sp_may_set_modified(&self) -> bool { false }
//@@ FN file=src/unsync.rs owner=AccessTime for DeqNode<KeyHashDate<K>> name=last_accessed tags=C06
    fn last_accessed(&self) -> /*@+*/(r:/*@-*/ Option<Instant>/*@+*/)/*@-*/
    {
        self.element.timestamp
    }
//@@ END
//@@ FN file=src/unsync.rs owner=AccessTime for DeqNode<KeyHashDate<K>> name=set_last_accessed tags=C06
    fn set_last_accessed(&mut self, timestamp: Instant)
        ensures final(self).element.timestamp == Some(timestamp), final(self).element.key == old(self).element.key, final(self).element.hash == old(self).element.hash, final(self).ident == old(self).ident //@ [C06]
    {
        self.element.timestamp = Some(timestamp);
    }
//@@ END
//@@ FN file=src/unsync.rs owner=AccessTime for DeqNode<KeyHashDate<K>> name=last_modified tags=C05,C08
    fn last_modified(&self) -> /*@+*/(r:/*@-*/ Option<Instant>/*@+*/)/*@-*/
    {
        None
    }
//@@ END
//@@ FN file=src/unsync.rs owner=AccessTime for DeqNode<KeyHashDate<K>> name=set_last_modified tags=C08 never_called=1
    fn set_last_modified(&mut self, _timestamp: Instant)
    {
        unreachable!();
    }
//@@ END
}

#[verifier::external_body]
#[verifier::reject_recursive_types(T)]
pub struct Deque<T> { k: std::marker::PhantomData<T> }
impl<T> Deque<T> { pub uninterp spec fn view(&self) -> Seq<N>; }

pub open spec fn has_id(s: Seq<N>, id: int) -> bool { exists|i: int| 0 <= i < s.len() && (#[trigger] s[i]).id == id }
pub open spec fn index_of_id(s: Seq<N>, id: int) -> int { choose|i: int| 0 <= i < s.len() && (#[trigger] s[i]).id == id }
pub open spec fn moved_to_back(s: Seq<N>, i: int) -> Seq<N> { s.remove(i).push(s[i]) }
/// id of the front node; opaque so that the heavy list proofs that peek at the front do not see one more `.id` term
#[verifier::opaque]
pub open spec fn front_id(s: Seq<N>) -> int { s[0].id }

impl<K> Deque<KeyHashDate<K>> {
//@@ SIG file=src/common/deque.rs owner=Deque name=peek_front types=loose
    #[verifier::external_body]
    pub fn peek_front(&self) -> (r: Option<&DeqNode<KeyHashDate<K>>>)
        ensures match r {
            Some(n) => self@.len() > 0 && kid_rc(n.element.key) == self@[0].key && n.element.hash == self@[0].hash && n.node_id() == front_id(self@),
            None => self@.len() == 0,
        }
    { unimplemented!() }
//@@ END
//@@ SIG file=src/common/deque.rs owner=Deque name=pop_front types=loose
    #[verifier::external_body]
    pub fn pop_front(&mut self) -> (r: Option<Box<DeqNode<KeyHashDate<K>>>>)
        ensures old(self)@.len() > 0 ==> final(self)@ == old(self)@.skip(1),
                old(self)@.len() == 0 ==> final(self)@ == old(self)@ && r.is_none(),
    { unimplemented!() }
//@@ END
}
impl<K> Deque<KeyDate<K>> {
//@@ SIG file=src/common/deque.rs owner=Deque name=peek_front types=loose
    #[verifier::external_body]
    pub fn peek_front(&self) -> (r: Option<&DeqNode<KeyDate<K>>>)
        ensures match r {
            Some(n) => self@.len() > 0 && kid_rc(n.element.key) == self@[0].key && n.node_id() == front_id(self@),
            None => self@.len() == 0,
        }
    { unimplemented!() }
//@@ END
//@@ SIG file=src/common/deque.rs owner=Deque name=pop_front types=loose
    #[verifier::external_body]
    pub fn pop_front(&mut self) -> (r: Option<Box<DeqNode<KeyDate<K>>>>)
        ensures old(self)@.len() > 0 ==> final(self)@ == old(self)@.skip(1),
                old(self)@.len() == 0 ==> final(self)@ == old(self)@ && r.is_none(),
    { unimplemented!() }
//@@ END
}

#[derive(Clone, Copy)]
pub enum CacheRegion { Window = 0, MainProbation = 1, MainProtected = 2, Other = 3 }

/// THE ENTRY <-> NODE TIMESTAMP COUPLING (trusted; raw pointers). In `src/unsync.rs` an entry's stamps physically live in
/// its list nodes: `ValueEntry::last_accessed()` dereferences `access_order_q_node` and reads `element.timestamp` of that
/// node, `last_modified()` the same through `write_order_q_node`; the setters write there. The model attributes the stamps
/// to the entry (`ta()`, `tm()`: they are only ever *written* through the entry), so a *read through the list*
/// (`peek_front` in the two expiry scans) needs this statement: the node a list has just handed out carries the stamp of the
/// entry whose slot points to it. Usage discipline (checked by reading the two call sites, not by Verus): `e` is the map's
/// current entry for the key of the list's front node, and the axiom is invoked immediately before the `peek_front` whose
/// result it describes (one instance per loop iteration, i.e. per verification condition).
pub axiom fn axiom_stamp_ao<K, V>(e: &ValueEntry<K, V>)
    requires e.ao().is_some()
    ensures forall|n: &DeqNode<KeyHashDate<K>>| #[trigger] n.node_id() == e.ao().unwrap() ==> n.sp_last_accessed() == e.ta();
pub axiom fn axiom_stamp_wo<K, V>(e: &ValueEntry<K, V>)
    requires e.wo().is_some()
    ensures forall|n: &DeqNode<KeyDate<K>>| #[trigger] n.node_id() == e.wo().unwrap() ==> n.sp_last_modified() == e.tm();

#[verifier::reject_recursive_types(K)]
pub struct Deques<K> {
    pub window: Deque<KeyHashDate<K>>,
    pub probation: Deque<KeyHashDate<K>>,
    pub protected: Deque<KeyHashDate<K>>,
    pub write_order: Deque<KeyDate<K>>,
}

impl<K> Default for Deques<K> {
    #[verifier::external_body]
    fn default() -> (r: Self)
        ensures r.window@.len() == 0, r.probation@.len() == 0, r.protected@.len() == 0, r.write_order@.len() == 0
    { unimplemented!() }
}
impl<K> Deques<K> {
    pub open spec fn others_same(&self, o: &Self) -> bool { self.window@ == o.window@ && self.protected@ == o.protected@ }

//@@ SIG file=src/unsync/deques.rs owner=Deques name=clear
    #[verifier::external_body]
    pub fn clear(&mut self)
        ensures final(self).window@.len() == 0, final(self).probation@.len() == 0, final(self).protected@.len() == 0, final(self).write_order@.len() == 0
    { unimplemented!() }
//@@ END

//@@ SIG file=src/unsync/deques.rs owner=Deques name=push_back_ao
    #[verifier::external_body]
    pub fn push_back_ao<V>(&mut self, region: CacheRegion, kh: KeyHashDate<K>, entry: &mut ValueEntry<K, V>)
        requires region is MainProbation, //@ [C08,C11]
        ensures
            final(self).others_same(old(self)), final(self).write_order@ == old(self).write_order@,
            final(entry).ao().is_some(), !has_id(old(self).probation@, final(entry).ao().unwrap()),
            final(self).probation@ == old(self).probation@.push(N { id: final(entry).ao().unwrap(), key: kid_rc(kh.key), hash: kh.hash }),
            final(entry).ta() == kh.timestamp,
            final(entry).value == old(entry).value, final(entry).wo() == old(entry).wo(), final(entry).w() == old(entry).w(), final(entry).tm() == old(entry).tm(),
    { unimplemented!() }
//@@ END

//@@ SIG file=src/unsync/deques.rs owner=Deques name=push_back_wo
    #[verifier::external_body]
    pub fn push_back_wo<V>(&mut self, kh: KeyDate<K>, entry: &mut ValueEntry<K, V>)
        ensures
            final(self).others_same(old(self)), final(self).probation@ == old(self).probation@,
            final(entry).wo().is_some(), !has_id(old(self).write_order@, final(entry).wo().unwrap()),
            final(self).write_order@ == old(self).write_order@.push(N { id: final(entry).wo().unwrap(), key: kid_rc(kh.key), hash: 0 }),
            final(entry).tm() == kh.timestamp,
            final(entry).value == old(entry).value, final(entry).ao() == old(entry).ao(), final(entry).w() == old(entry).w(), final(entry).ta() == old(entry).ta(),
    { unimplemented!() }
//@@ END

    /// panics (`unreachable!`) unless the entry's node is a member of the probation list
//@@ SIG file=src/unsync/deques.rs owner=Deques name=move_to_back_ao
    #[verifier::external_body]
    pub fn move_to_back_ao<V>(&mut self, entry: &ValueEntry<K, V>)
        requires entry.ao().is_some() ==> has_id(old(self).probation@, entry.ao().unwrap()), //@ [C08,C11]
        ensures
            final(self).others_same(old(self)), final(self).write_order@ == old(self).write_order@,
            entry.ao().is_none() ==> final(self).probation@ == old(self).probation@,
            entry.ao().is_some() ==> final(self).probation@ == moved_to_back(old(self).probation@, index_of_id(old(self).probation@, entry.ao().unwrap())),
    { unimplemented!() }
//@@ END

    /// `entry.write_order_q_node().unwrap()`: panics if the entry has no write-order node
//@@ SIG file=src/unsync/deques.rs owner=Deques name=move_to_back_wo
    #[verifier::external_body]
    pub fn move_to_back_wo<V>(&mut self, entry: &ValueEntry<K, V>)
        requires entry.wo().is_some(), //@ [C08,C11]
        ensures
            final(self).others_same(old(self)), final(self).probation@ == old(self).probation@,
            !has_id(old(self).write_order@, entry.wo().unwrap()) ==> final(self).write_order@ == old(self).write_order@,
            has_id(old(self).write_order@, entry.wo().unwrap()) ==> final(self).write_order@ == moved_to_back(old(self).write_order@, index_of_id(old(self).write_order@, entry.wo().unwrap())),
    { unimplemented!() }
//@@ END

//@@ SIG file=src/unsync/deques.rs owner=Deques name=unlink_ao
    #[verifier::external_body]
    pub fn unlink_ao<V>(&mut self, entry: &mut ValueEntry<K, V>)
        requires old(entry).ao().is_some() ==> has_id(old(self).probation@, old(entry).ao().unwrap()), //@ [C08,C11]
        ensures
            final(self).others_same(old(self)), final(self).write_order@ == old(self).write_order@,
            final(entry).ao().is_none(), final(entry).wo() == old(entry).wo(), final(entry).w() == old(entry).w(),
            final(entry).value == old(entry).value, final(entry).tm() == old(entry).tm(),
            old(entry).ao().is_none() ==> final(self).probation@ == old(self).probation@,
            old(entry).ao().is_some() ==> final(self).probation@ == old(self).probation@.remove(index_of_id(old(self).probation@, old(entry).ao().unwrap())),
    { unimplemented!() }
//@@ END

//@@ SIG file=src/unsync/deques.rs owner=Deques name=unlink_ao_from_deque
    #[verifier::external_body]
    pub fn unlink_ao_from_deque<V>(deq_name: &str, deq: &mut Deque<KeyHashDate<K>>, entry: &mut ValueEntry<K, V>)
        requires old(entry).ao().is_some() ==> has_id(old(deq)@, old(entry).ao().unwrap()), //@ [C08,C11]
        ensures
            final(entry).ao().is_none(), final(entry).wo() == old(entry).wo(), final(entry).w() == old(entry).w(),
            final(entry).value == old(entry).value, final(entry).tm() == old(entry).tm(),
            old(entry).ao().is_none() ==> final(deq)@ == old(deq)@,
            old(entry).ao().is_some() ==> final(deq)@ == old(deq)@.remove(index_of_id(old(deq)@, old(entry).ao().unwrap())),
    { unimplemented!() }
//@@ END

//@@ SIG file=src/unsync/deques.rs owner=Deques name=unlink_wo
    #[verifier::external_body]
    pub fn unlink_wo<V>(deq: &mut Deque<KeyDate<K>>, entry: &mut ValueEntry<K, V>)
        requires old(entry).wo().is_some() ==> has_id(old(deq)@, old(entry).wo().unwrap()), //@ [C08,C11]
        ensures
            final(entry).wo().is_none(), final(entry).ao() == old(entry).ao(), final(entry).w() == old(entry).w(),
            final(entry).value == old(entry).value, final(entry).ta() == old(entry).ta(),
            old(entry).wo().is_none() ==> final(deq)@ == old(deq)@,
            old(entry).wo().is_some() ==> final(deq)@ == old(deq)@.remove(index_of_id(old(deq)@, old(entry).wo().unwrap())),
    { unimplemented!() }
//@@ END
}


#[verifier::external_type_specification]
#[verifier::external_body]
#[verifier::accept_recursive_types(T)]
pub struct ExNonNull<T: std::marker::PointeeSized>(NonNull<T>);

pub uninterp spec fn nid<T>(p: NonNull<T>) -> int;
/// FROZEN HEAP: sound only for immutable node fields (key, hash) of nodes that are still linked, and for
/// `next` while the list is not mutated. Instantiated once per function body, on the entry state.
pub uninterp spec fn heap_deref<T>(p: NonNull<T>) -> T;
pub uninterp spec fn heap_next(id: int) -> Option<int>;
pub uninterp spec fn ptr_reads<T: std::marker::PointeeSized>(p: &NonNull<T>, r: &T) -> bool;
pub assume_specification<T, 'a> [std::ptr::NonNull::<T>::as_ref] (p: &std::ptr::NonNull<T>) -> (r: &'a T)
    where T: std::marker::PointeeSized
    ensures ptr_reads(p, r);
pub broadcast axiom fn axiom_ptr_reads<T>(p: &NonNull<T>, r: &T)
    ensures #[trigger] ptr_reads(p, r) ==> *r == heap_deref(*p);
pub uninterp spec fn rc_reads<T: std::marker::MetaSized + ?Sized, A: std::alloc::Allocator>(rc: &std::rc::Rc<T, A>, r: &T) -> bool;
pub assume_specification<T, A> [<std::rc::Rc<T, A> as std::convert::AsRef<T>>::as_ref] (rc: &std::rc::Rc<T, A>) -> (r: &T)
    where A: std::alloc::Allocator, T: std::marker::MetaSized + ?Sized
    ensures rc_reads(rc, r);
pub broadcast axiom fn axiom_rc_reads<T>(rc: &Rc<T>, r: &T)
    ensures #[trigger] rc_reads(rc, r) ==> *r == **rc;

impl<T> Deque<T> {
//@@ SIG file=src/common/deque.rs owner=Deque name=peek_front_ptr
    #[verifier::external_body]
    pub fn peek_front_ptr(&self) -> (r: Option<NonNull<DeqNode<T>>>)
        ensures match r { Some(p) => self@.len() > 0 && nid(p) == self@[0].id, None => self@.len() == 0 }
    { unimplemented!() }
//@@ END
}
impl<T> DeqNode<T> {
//@@ SIG file=src/common/deque.rs owner=DeqNode name=next_node_ptr
    #[verifier::external_body]
    pub fn next_node_ptr(this: NonNull<Self>) -> (r: Option<NonNull<DeqNode<T>>>)
        ensures match r { Some(p) => heap_next(nid(this)) == Some(nid(p)), None => heap_next(nid(this)).is_none() }
    { unimplemented!() }
//@@ END
}
pub open spec fn frozen<K>(s: Seq<N>) -> bool {
    forall|p: NonNull<DeqNode<KeyHashDate<K>>>, i: int| 0 <= i < s.len() && nid(p) == (#[trigger] s[i]).id ==> {
        &&& kid_rc(#[trigger] heap_deref(p).element.key) == s[i].key
        &&& heap_deref(p).element.hash == s[i].hash
        &&& heap_next(nid(p)) == (if i + 1 < s.len() { Some(s[i + 1].id) } else { None::<int> })
    }
}
pub axiom fn axiom_frozen<K>(d: &Deque<KeyHashDate<K>>) ensures frozen::<K>(d@);

#[verifier::external_body]
#[verifier::reject_recursive_types(K)]
#[verifier::reject_recursive_types(V)]
pub struct Weigher<K, V> { k: std::marker::PhantomData<(K,V)> }
pub uninterp spec fn wspec<K, V>(w: Option<Weigher<K, V>>, key: KeyId, value: V) -> u32;
#[verifier::external_body]
pub fn weigh<K, V>(weigher: &mut Option<Weigher<K, V>>, key: &K, value: &V) -> (r: u32)
    ensures r == wspec(*old(weigher), kid(key), *value), *final(weigher) == *old(weigher),
{ unimplemented!() }

pub trait Array { type Item; }
impl<T, const N: usize> Array for [T; N] { type Item = T; }
#[verifier::reject_recursive_types(A)]
pub struct SmallVec<A: Array> { pub v: Vec<A::Item> }
impl<A: Array> Default for SmallVec<A> {
    fn default() -> (r: Self) ensures r.v@.len() == 0 { SmallVec { v: Vec::new() } }
}
impl<A: Array> SmallVec<A> {
    pub fn push(&mut self, x: A::Item) ensures final(self).v@ == old(self).v@.push(x) { self.v.push(x) }
}
impl<A: Array> IntoIterator for SmallVec<A> {
    type Item = A::Item;
    type IntoIter = std::vec::IntoIter<A::Item>;
    fn into_iter(self) -> (r: Self::IntoIter)
        ensures r.remaining() == self.v@, r.decrease() is Some, r.obeys_prophetic_iter_laws(),
    { self.v.into_iter() }
}

#[verifier::external_body]
#[verifier::reject_recursive_types(K)]
#[verifier::reject_recursive_types(V)]
#[verifier::reject_recursive_types(S)]
pub struct CacheStore<K, V, S> { k: std::marker::PhantomData<(K,V,S)> }
impl<K, V, S> CacheStore<K, V, S> {
    pub uninterp spec fn view(&self) -> Map<KeyId, ValueEntry<K, V>>;

    #[verifier::external_body]
    pub fn get<Q>(&self, key: &Q) -> (r: Option<&ValueEntry<K, V>>)
    where Rc<K>: Borrow<Q>, Q: Hash + Eq + ?Sized
        ensures match r { Some(e) => self@.contains_key(kid(key)) && *e == self@[kid(key)], None => !self@.contains_key(kid(key)) }
    { unimplemented!() }
    #[verifier::external_body]
    pub fn get_mut<Q>(&mut self, key: &Q) -> (r: Option<&mut ValueEntry<K, V>>)
    where Rc<K>: Borrow<Q>, Q: Hash + Eq + ?Sized
        ensures match r {
            Some(e) => old(self)@.contains_key(kid(key)) && *e == old(self)@[kid(key)] && final(self)@ == old(self)@.insert(kid(key), *final(e)),
            None => !old(self)@.contains_key(kid(key)) && final(self)@ == old(self)@,
        }
    { unimplemented!() }
    #[verifier::external_body]
    pub fn insert(&mut self, key: Rc<K>, v: ValueEntry<K, V>) -> (r: Option<ValueEntry<K, V>>)
        ensures final(self)@ == old(self)@.insert(kid_rc(key), v),
            match r { Some(e) => old(self)@.contains_key(kid_rc(key)) && e == old(self)@[kid_rc(key)], None => !old(self)@.contains_key(kid_rc(key)) },
    { unimplemented!() }
    #[verifier::external_body]
    pub fn remove<Q>(&mut self, key: &Q) -> (r: Option<ValueEntry<K, V>>)
    where Rc<K>: Borrow<Q>, Q: Hash + Eq + ?Sized
        ensures final(self)@ == old(self)@.remove(kid(key)),
            match r { Some(e) => old(self)@.contains_key(kid(key)) && e == old(self)@[kid(key)], None => !old(self)@.contains_key(kid(key)) },
    { unimplemented!() }
    #[verifier::external_body]
    pub fn clear(&mut self) ensures final(self)@ == Map::<KeyId, ValueEntry<K, V>>::empty() { unimplemented!() }
    /// `HashMap::with_capacity_and_hasher`: an empty map; the capacity hint is unobservable through the map contract
    #[verifier::external_body]
    pub fn with_capacity_and_hasher(capacity: usize, hash_builder: S) -> (r: Self)
        ensures r@ == Map::<KeyId, ValueEntry<K, V>>::empty()
    { unimplemented!() }
}
/// in the source `CacheStore<K, V, S>` is `std::collections::HashMap<Rc<K>, ValueEntry<K, V>, S>`
pub type HashMap<K, V, S> = CacheStore<K, V, S>;
/// `std::collections::hash_map::Iter<'i, Rc<K>, ValueEntry<K, V>>` (ASSUMED): it yields bindings of the map it was created
/// from (`sp_map`, fixed while the shared borrow lives) and its remaining length shrinks with every item. That each binding is
/// yielded exactly once is std's contract and NOT modelled (C16 is not applicable).
#[verifier::external_body]
#[verifier::reject_recursive_types(K)]
#[verifier::reject_recursive_types(V)]
pub struct HashMapIter<'i, K, V> { p: std::marker::PhantomData<&'i (K, V)> }
impl<'i, K, V> HashMapIter<'i, K, V> {
    pub uninterp spec fn sp_map(&self) -> Map<KeyId, ValueEntry<K, V>>;
    pub uninterp spec fn sp_rem(&self) -> nat;
    #[verifier::external_body]
    pub fn next(&mut self) -> (r: Option<(&'i Rc<K>, &'i ValueEntry<K, V>)>)
        ensures final(self).sp_map() == old(self).sp_map(),
            match r {
                Some(kv) => old(self).sp_map().contains_key(kid_rc(*kv.0)) && old(self).sp_map()[kid_rc(*kv.0)] == *kv.1 && final(self).sp_rem() < old(self).sp_rem(),
                None => true,
            }
        no_unwind
    { unimplemented!() }
}
impl<K, V, S> CacheStore<K, V, S> {
    #[verifier::external_body]
    pub fn iter(&self) -> (r: HashMapIter<'_, K, V>) ensures r.sp_map() == self@ { unimplemented!() }
}

pub uninterp spec fn hspec<S>(s: S, k: KeyId) -> u64;

/// std's default hasher state: opaque
#[verifier::external_body]
pub struct RandomState { x: u64 }
impl Default for RandomState { #[verifier::external_body] fn default() -> Self { unimplemented!() } }
impl Clone for RandomState { #[verifier::external_body] fn clone(&self) -> Self { unimplemented!() } }
impl BuildHasher for RandomState { type Hasher = std::collections::hash_map::DefaultHasher; #[verifier::external_body] fn build_hasher(&self) -> Self::Hasher { unimplemented!() } }
/// the (mockable) clock: opaque
#[verifier::external_body]
pub struct Clock { x: u64 }

#[verifier::external_body]
pub struct FrequencySketch { x: u64 }
pub uninterp spec fn sketch_default() -> FrequencySketch;
impl Default for FrequencySketch {
    #[verifier::external_body]
    fn default() -> (r: Self) ensures r == sketch_default() { unimplemented!() }
}
#[verifier::external_body]
pub struct Policy { x: u64 }
impl Policy {
    pub uninterp spec fn sp_max_capacity(&self) -> Option<u64>;
    pub uninterp spec fn sp_ttl(&self) -> Option<Duration>;
    pub uninterp spec fn sp_tti(&self) -> Option<Duration>;
    /// contract proved in the `config` unit on the real text of src/policy.rs
//@@ SIG file=src/policy.rs owner=Policy name=new types=loose
    #[verifier::external_body]
    pub fn new(max_capacity: Option<u64>, time_to_live: Option<Duration>, time_to_idle: Option<Duration>) -> (r: Policy)
        ensures r.sp_max_capacity() == max_capacity, r.sp_ttl() == time_to_live, r.sp_tti() == time_to_idle
    { unimplemented!() }
//@@ END
}
impl FrequencySketch {
    pub uninterp spec fn freq(&self, hash: u64) -> u8;
    pub uninterp spec fn incremented(&self, hash: u64) -> FrequencySketch;
//@@ SIG file=src/common/frequency_sketch.rs owner=FrequencySketch name=frequency
    #[verifier::external_body]
    pub fn frequency(&self, hash: u64) -> (r: u8) ensures r == self.freq(hash), r <= 15 { unimplemented!() }
//@@ END
//@@ SIG file=src/common/frequency_sketch.rs owner=FrequencySketch name=increment
    #[verifier::external_body]
    pub fn increment(&mut self, hash: u64) ensures *final(self) == old(self).incremented(hash) { unimplemented!() }
//@@ END
    /// (re)sizing: forgets all counts or does nothing -- never a recording (contract proved in the sketch unit for cap <= 2^27)
    pub uninterp spec fn ensured(&self, cap: u32) -> FrequencySketch;
//@@ SIG file=src/common/frequency_sketch.rs owner=FrequencySketch name=ensure_capacity
    #[verifier::external_body]
    pub fn ensure_capacity(&mut self, cap: u32) ensures *final(self) == old(self).ensured(cap) { unimplemented!() }
//@@ END
}
/// f64 `*` and `/` never trap in Rust (vstd leaves their preconditions unspecified)
pub broadcast axiom fn axiom_f64_mul_ok(a: f64, b: f64) ensures #[trigger] a.mul_req(b);
pub broadcast axiom fn axiom_f64_div_ok(a: f64, b: f64) ensures #[trigger] a.div_req(b);
pub mod common {
    use vstd::prelude::*;
    /// `max_capacity.try_into().unwrap_or(u32::MAX).max(128)`: Kani leaf harness `leaf_sketch_capacity`
    #[verifier::external_body]
    pub fn sketch_capacity(max_capacity: u64) -> (r: u32) ensures r >= 128 { unimplemented!() }
}
} // mod env
// =====================================================================
// SPEC: representation invariant, views, lemmas
// =====================================================================
pub mod cspec {
use vstd::prelude::*;
use super::env::*;

pub open spec fn wsum<K, V>(s: Seq<N>, m: Map<KeyId, ValueEntry<K, V>>) -> int
    decreases s.len()
{ if s.len() == 0 { 0 } else { wsum(s.drop_last(), m) + m[s.last().key].w() as int } }

/// structural part of the invariant: list nodes <-> map entries, one to one
pub open spec fn core_wf<K, V>(m: Map<KeyId, ValueEntry<K, V>>, p: Seq<N>, wo: Seq<N>, ttl: bool) -> bool {
    &&& forall|i: int, j: int| 0 <= i < j < p.len() ==> (#[trigger] p[i]).id != (#[trigger] p[j]).id && p[i].key != p[j].key
    &&& forall|i: int| 0 <= i < p.len() ==> m.contains_key((#[trigger] p[i]).key) && m[p[i].key].ao() == Some(p[i].id)
    &&& forall|k: KeyId| #[trigger] m.contains_key(k) ==> exists|i: int| 0 <= i < p.len() && (#[trigger] p[i]).key == k
    &&& forall|i: int, j: int| 0 <= i < j < wo.len() ==> (#[trigger] wo[i]).id != (#[trigger] wo[j]).id && wo[i].key != wo[j].key
    &&& forall|i: int| 0 <= i < wo.len() ==> m.contains_key((#[trigger] wo[i]).key) && m[wo[i].key].wo() == Some(wo[i].id)
    &&& forall|k: KeyId| #[trigger] m.contains_key(k) ==> (m[k].wo().is_some() <==> ttl)
    &&& forall|k: KeyId| #[trigger] m.contains_key(k) && ttl ==> exists|i: int| 0 <= i < wo.len() && (#[trigger] wo[i]).key == k
}

/// timestamps exist whenever the corresponding policy is on (otherwise the entry would never expire)
pub open spec fn ts_wf<K, V>(m: Map<KeyId, ValueEntry<K, V>>, has_expiry: bool, ttl: bool) -> bool {
    forall|k: KeyId| #[trigger] m.contains_key(k) ==> (has_expiry ==> m[k].ta().is_some()) && (ttl ==> m[k].tm().is_some())
}

pub proof fn lemma_wsum_unrelated<K, V>(s: Seq<N>, m: Map<KeyId, ValueEntry<K, V>>, k: KeyId)
    requires forall|i: int| 0 <= i < s.len() ==> (#[trigger] s[i]).key != k
    ensures wsum(s, m.remove(k)) == wsum(s, m)
    decreases s.len()
{
    if s.len() > 0 { lemma_wsum_unrelated(s.drop_last(), m, k); assert(s.last() == s[s.len() - 1]); }
}

/// changing the entry of a key that does not occur in `s` does not change the sum
pub proof fn lemma_wsum_insert_unrelated<K, V>(s: Seq<N>, m: Map<KeyId, ValueEntry<K, V>>, k: KeyId, e: ValueEntry<K, V>)
    requires forall|i: int| 0 <= i < s.len() ==> (#[trigger] s[i]).key != k
    ensures wsum(s, m.insert(k, e)) == wsum(s, m)
    decreases s.len()
{
    if s.len() > 0 { lemma_wsum_insert_unrelated(s.drop_last(), m, k, e); assert(s.last() == s[s.len() - 1]); }
}

pub proof fn lemma_wsum_front<K, V>(s: Seq<N>, m: Map<KeyId, ValueEntry<K, V>>)
    requires s.len() > 0
    ensures wsum(s, m) == m[s[0].key].w() as int + wsum(s.skip(1), m)
    decreases s.len()
{
    if s.len() == 1 {
        assert(s.drop_last().len() == 0); assert(s.skip(1).len() == 0);
        assert(wsum(s.drop_last(), m) == 0); assert(wsum(s.skip(1), m) == 0); assert(s.last() == s[0]);
    } else {
        lemma_wsum_front(s.drop_last(), m);
        assert(s.drop_last().skip(1) =~= s.skip(1).drop_last());
        assert(s.skip(1).last() == s.last()); assert(s.drop_last()[0] == s[0]); assert(s.skip(1).len() > 0);
    }
}

pub proof fn lemma_wsum_nonneg<K, V>(s: Seq<N>, m: Map<KeyId, ValueEntry<K, V>>)
    ensures wsum(s, m) >= 0
    decreases s.len()
{ if s.len() > 0 { lemma_wsum_nonneg(s.drop_last(), m); } }

/// wsum of a concatenation
pub proof fn lemma_wsum_add<K, V>(a: Seq<N>, b: Seq<N>, m: Map<KeyId, ValueEntry<K, V>>)
    ensures wsum(a + b, m) == wsum(a, m) + wsum(b, m)
    decreases b.len()
{
    if b.len() == 0 { assert(a + b =~= a); }
    else {
        lemma_wsum_add(a, b.drop_last(), m);
        assert((a + b).drop_last() =~= a + b.drop_last());
        assert((a + b).last() == b.last());
    }
}

/// removing element i takes its weight out of the sum
pub proof fn lemma_wsum_remove<K, V>(s: Seq<N>, m: Map<KeyId, ValueEntry<K, V>>, i: int)
    requires 0 <= i < s.len()
    ensures wsum(s.remove(i), m) == wsum(s, m) - m[s[i].key].w()
{
    let a = s.take(i); let b = s.skip(i + 1); let one = seq![s[i]];
    assert(s =~= a + one + b);
    assert(s.remove(i) =~= a + b);
    lemma_wsum_add(a, b, m);
    lemma_wsum_add(a + one, b, m);
    lemma_wsum_add(a, one, m);
    assert(one.drop_last().len() == 0);
    assert(wsum(one.drop_last(), m) == 0);
    assert(wsum(one, m) == m[s[i].key].w() as int) by { assert(one.last() == s[i]); }
}

pub proof fn lemma_wsum_push<K, V>(s: Seq<N>, m: Map<KeyId, ValueEntry<K, V>>, n: N)
    ensures wsum(s.push(n), m) == wsum(s, m) + m[n.key].w()
{
    assert(s.push(n).drop_last() =~= s); assert(s.push(n).last() == n);
}

/// position of a node id in a list with pairwise distinct ids
pub proof fn lemma_index_of_id(s: Seq<N>, i: int)
    requires 0 <= i < s.len(), forall|a: int, b: int| 0 <= a < b < s.len() ==> (#[trigger] s[a]).id != (#[trigger] s[b]).id
    ensures has_id(s, s[i].id), index_of_id(s, s[i].id) == i
{
    let j = index_of_id(s, s[i].id);
    assert(0 <= j < s.len() && s[j].id == s[i].id);
    if j < i { assert(s[j].id != s[i].id); } else if i < j { assert(s[i].id != s[j].id); }
}

/// the list position of key k
pub open spec fn pos_of_key(s: Seq<N>, k: KeyId) -> int { choose|i: int| 0 <= i < s.len() && (#[trigger] s[i]).key == k }

/// removing the entry of key k (at list position i, write-order position found through its node id)
/// keeps the structure and gives back exactly its weight
pub proof fn lemma_remove_at<K, V>(m: Map<KeyId, ValueEntry<K, V>>, p: Seq<N>, wo: Seq<N>, ttl: bool, i: int)
    requires core_wf(m, p, wo, ttl), 0 <= i < p.len()
    ensures
        m.contains_key(p[i].key),
        m[p[i].key].ao() == Some(p[i].id),
        has_id(p, p[i].id), index_of_id(p, p[i].id) == i,
        ttl ==> m[p[i].key].wo().is_some() && has_id(wo, m[p[i].key].wo().unwrap()),
        !ttl ==> m[p[i].key].wo().is_none(),
        core_wf(m.remove(p[i].key), p.remove(i), if ttl { wo.remove(index_of_id(wo, m[p[i].key].wo().unwrap())) } else { wo }, ttl),
        wsum(p.remove(i), m.remove(p[i].key)) == wsum(p, m) - m[p[i].key].w(),
{
    let k = p[i].key;
    let e = m[k];
    lemma_index_of_id(p, i);
    lemma_wsum_remove(p, m, i);
    let p2 = p.remove(i);
    let m2 = m.remove(k);
    assert forall|a: int| 0 <= a < p2.len() implies (#[trigger] p2[a]).key != k && m2.contains_key(p2[a].key) && m2[p2[a].key].ao() == Some(p2[a].id) by {
        let a1 = if a < i { a } else { a + 1 };
        assert(p2[a] == p[a1]);
        if a1 < i { assert(p[a1].key != p[i].key); } else { assert(p[i].key != p[a1].key); }
    }
    lemma_wsum_unrelated(p2, m, k);
    assert forall|a: int, b: int| 0 <= a < b < p2.len() implies (#[trigger] p2[a]).id != (#[trigger] p2[b]).id && p2[a].key != p2[b].key by {
        let a1 = if a < i { a } else { a + 1 }; let b1 = if b < i { b } else { b + 1 };
        assert(p2[a] == p[a1]); assert(p2[b] == p[b1]);
    }
    assert forall|kk: KeyId| #[trigger] m2.contains_key(kk) implies exists|a: int| 0 <= a < p2.len() && (#[trigger] p2[a]).key == kk by {
        assert(m.contains_key(kk));
        let a = choose|a: int| 0 <= a < p.len() && (#[trigger] p[a]).key == kk;
        assert(a != i);
        if a < i { assert(p2[a] == p[a]); } else { assert(p2[a - 1] == p[a]); }
    }
    if ttl {
        assert(m.contains_key(k));
        let j = choose|j: int| 0 <= j < wo.len() && (#[trigger] wo[j]).key == k;
        assert(m[wo[j].key].wo() == Some(wo[j].id));
        let wid = e.wo().unwrap();
        assert(wo[j].id == wid);
        lemma_index_of_id(wo, j);
        let wo2 = wo.remove(j);
        assert forall|a: int| 0 <= a < wo2.len() implies m2.contains_key((#[trigger] wo2[a]).key) && m2[wo2[a].key].wo() == Some(wo2[a].id) by {
            if a < j { assert(wo2[a] == wo[a]); assert(wo[a].key != wo[j].key); } else { assert(wo2[a] == wo[a + 1]); assert(wo[j].key != wo[a + 1].key); }
        }
        assert forall|a: int, b: int| 0 <= a < b < wo2.len() implies (#[trigger] wo2[a]).id != (#[trigger] wo2[b]).id && wo2[a].key != wo2[b].key by {
            let a1 = if a < j { a } else { a + 1 }; let b1 = if b < j { b } else { b + 1 };
            assert(wo2[a] == wo[a1]); assert(wo2[b] == wo[b1]);
        }
        assert forall|kk: KeyId| #[trigger] m2.contains_key(kk) && ttl implies exists|a: int| 0 <= a < wo2.len() && (#[trigger] wo2[a]).key == kk by {
            assert(m.contains_key(kk));
            let a = choose|a: int| 0 <= a < wo.len() && (#[trigger] wo[a]).key == kk;
            assert(a != j);
            if a < j { assert(wo2[a] == wo[a]); } else { assert(wo2[a - 1] == wo[a]); }
        }
    } else {
        assert forall|a: int| 0 <= a < wo.len() implies m2.contains_key((#[trigger] wo[a]).key) && m2[wo[a].key].wo() == Some(wo[a].id) by {
            assert(m.contains_key(wo[a].key)); assert(m[wo[a].key].wo().is_some());
        }
    }
}

/// a key of the map sits at exactly one list position
pub proof fn lemma_pos_of_key<K, V>(m: Map<KeyId, ValueEntry<K, V>>, p: Seq<N>, wo: Seq<N>, ttl: bool, k: KeyId)
    requires core_wf(m, p, wo, ttl), m.contains_key(k)
    ensures 0 <= pos_of_key(p, k) < p.len(), p[pos_of_key(p, k)].key == k, m[k].ao() == Some(p[pos_of_key(p, k)].id),
        ttl ==> 0 <= pos_of_key(wo, k) < wo.len() && wo[pos_of_key(wo, k)].key == k && m[k].wo() == Some(wo[pos_of_key(wo, k)].id),
{
    let i = choose|i: int| 0 <= i < p.len() && (#[trigger] p[i]).key == k;
    if ttl { let j = choose|j: int| 0 <= j < wo.len() && (#[trigger] wo[j]).key == k; }
}

/// wsum is invariant under replacing an entry by one of the same weight
pub proof fn lemma_wsum_same_weight<K, V>(s: Seq<N>, m: Map<KeyId, ValueEntry<K, V>>, k: KeyId, e: ValueEntry<K, V>)
    requires m.contains_key(k), e.w() == m[k].w()
    ensures wsum(s, m.insert(k, e)) == wsum(s, m)
    decreases s.len()
{
    if s.len() > 0 { lemma_wsum_same_weight(s.drop_last(), m, k, e); }
}

/// moving element i to the back is a permutation: same sum
pub proof fn lemma_wsum_moved<K, V>(s: Seq<N>, m: Map<KeyId, ValueEntry<K, V>>, i: int)
    requires 0 <= i < s.len()
    ensures wsum(moved_to_back(s, i), m) == wsum(s, m)
{
    lemma_wsum_remove(s, m, i);
    lemma_wsum_push(s.remove(i), m, s[i]);
}

/// structure is preserved by moving nodes to the back
pub proof fn lemma_moved_core<K, V>(m: Map<KeyId, ValueEntry<K, V>>, p: Seq<N>, wo: Seq<N>, ttl: bool, i: int)
    requires core_wf(m, p, wo, ttl), 0 <= i < p.len()
    ensures core_wf(m, moved_to_back(p, i), wo, ttl)
{
    let p2 = moved_to_back(p, i);
    let src = |a: int| if a == p2.len() - 1 { i } else if a < i { a } else { a + 1 };
    assert forall|a: int| 0 <= a < p2.len() implies p2[a] == p[src(a)] by {}
    assert forall|a: int, b: int| 0 <= a < b < p2.len() implies (#[trigger] p2[a]).id != (#[trigger] p2[b]).id && p2[a].key != p2[b].key by {
        let a1 = src(a); let b1 = src(b);
        assert(p2[a] == p[a1]); assert(p2[b] == p[b1]); assert(a1 != b1);
        if a1 < b1 { assert(p[a1].id != p[b1].id); } else { assert(p[b1].id != p[a1].id); }
    }
    assert forall|a: int| 0 <= a < p2.len() implies m.contains_key((#[trigger] p2[a]).key) && m[p2[a].key].ao() == Some(p2[a].id) by {
        assert(p2[a] == p[src(a)]);
    }
    assert forall|k: KeyId| #[trigger] m.contains_key(k) implies exists|a: int| 0 <= a < p2.len() && (#[trigger] p2[a]).key == k by {
        let b = choose|b: int| 0 <= b < p.len() && (#[trigger] p[b]).key == k;
        let a = if b == i { p2.len() - 1 } else if b < i { b } else { b - 1 };
        assert(p2[a] == p[b]);
    }
}
pub proof fn lemma_moved_core_wo<K, V>(m: Map<KeyId, ValueEntry<K, V>>, p: Seq<N>, wo: Seq<N>, ttl: bool, i: int)
    requires core_wf(m, p, wo, ttl), 0 <= i < wo.len()
    ensures core_wf(m, p, moved_to_back(wo, i), ttl)
{
    let w2 = moved_to_back(wo, i);
    let src = |a: int| if a == w2.len() - 1 { i } else if a < i { a } else { a + 1 };
    assert forall|a: int| 0 <= a < w2.len() implies w2[a] == wo[src(a)] by {}
    assert forall|a: int, b: int| 0 <= a < b < w2.len() implies (#[trigger] w2[a]).id != (#[trigger] w2[b]).id && w2[a].key != w2[b].key by {
        let a1 = src(a); let b1 = src(b);
        assert(w2[a] == wo[a1]); assert(w2[b] == wo[b1]); assert(a1 != b1);
        if a1 < b1 { assert(wo[a1].id != wo[b1].id); } else { assert(wo[b1].id != wo[a1].id); }
    }
    assert forall|a: int| 0 <= a < w2.len() implies m.contains_key((#[trigger] w2[a]).key) && m[w2[a].key].wo() == Some(w2[a].id) by {
        assert(w2[a] == wo[src(a)]);
    }
    assert forall|k: KeyId| #[trigger] m.contains_key(k) && ttl implies exists|a: int| 0 <= a < w2.len() && (#[trigger] w2[a]).key == k by {
        let b = choose|b: int| 0 <= b < wo.len() && (#[trigger] wo[b]).key == k;
        let a = if b == i { w2.len() - 1 } else if b < i { b } else { b - 1 };
        assert(w2[a] == wo[b]);
    }
}

/// replacing the entry of k by one with the same node pointers keeps the structure
pub proof fn lemma_same_nodes_core<K, V>(m: Map<KeyId, ValueEntry<K, V>>, p: Seq<N>, wo: Seq<N>, ttl: bool, k: KeyId, e: ValueEntry<K, V>)
    requires core_wf(m, p, wo, ttl), m.contains_key(k), e.ao() == m[k].ao(), e.wo() == m[k].wo()
    ensures core_wf(m.insert(k, e), p, wo, ttl)
{
    let m2 = m.insert(k, e);
    assert forall|kk: KeyId| #[trigger] m2.contains_key(kk) implies exists|a: int| 0 <= a < p.len() && (#[trigger] p[a]).key == kk by { assert(m.contains_key(kk)); }
    assert forall|kk: KeyId| #[trigger] m2.contains_key(kk) && ttl implies exists|a: int| 0 <= a < wo.len() && (#[trigger] wo[a]).key == kk by { assert(m.contains_key(kk)); }
    assert forall|kk: KeyId| #[trigger] m2.contains_key(kk) implies (m2[kk].wo().is_some() <==> ttl) by { assert(m.contains_key(kk)); }
}

pub proof fn lemma_wsum_bound<K, V>(s: Seq<N>, m: Map<KeyId, ValueEntry<K, V>>)
    ensures wsum(s, m) <= s.len() * 0xFFFF_FFFF
    decreases s.len()
{ if s.len() > 0 { lemma_wsum_bound(s.drop_last(), m); } }

/// changing the weight of the entry at list position i changes the sum by the difference
pub proof fn lemma_wsum_reweigh<K, V>(s: Seq<N>, m: Map<KeyId, ValueEntry<K, V>>, i: int, e: ValueEntry<K, V>)
    requires 0 <= i < s.len(), forall|a: int, b: int| 0 <= a < b < s.len() ==> (#[trigger] s[a]).key != (#[trigger] s[b]).key
    ensures wsum(s, m.insert(s[i].key, e)) == wsum(s, m) - m[s[i].key].w() + e.w()
{
    let k = s[i].key;
    let m2 = m.insert(k, e);
    lemma_wsum_remove(s, m, i);
    lemma_wsum_remove(s, m2, i);
    let r = s.remove(i);
    assert forall|a: int| 0 <= a < r.len() implies (#[trigger] r[a]).key != k by {
        let a1 = if a < i { a } else { a + 1 };
        assert(r[a] == s[a1]);
        if a1 < i { assert(s[a1].key != s[i].key); } else { assert(s[i].key != s[a1].key); }
    }
    lemma_wsum_insert_unrelated(r, m, k, e);
}

pub open spec fn fsum(s: Seq<N>, sk: FrequencySketch) -> int
    decreases s.len()
{ if s.len() == 0 { 0 } else { fsum(s.drop_last(), sk) + sk.freq(s.last().hash) as int } }
/// stored weights agree with the (pure) weigher
pub open spec fn w_wf<K, V>(m: Map<KeyId, ValueEntry<K, V>>, weigher: Option<Weigher<K, V>>) -> bool {
    forall|k: KeyId| #[trigger] m.contains_key(k) ==> m[k].w() == wspec(weigher, k, m[k].value)
}

/// adding a fresh entry (key not in the lists) with its new nodes at the back keeps the structure
pub proof fn lemma_push_new<K, V>(m: Map<KeyId, ValueEntry<K, V>>, p: Seq<N>, wo: Seq<N>, ttl: bool, k: KeyId, e: ValueEntry<K, V>, hash: u64)
    requires
        core_wf(m.remove(k), p, wo, ttl),
        e.ao().is_some(), !has_id(p, e.ao().unwrap()),
        ttl ==> e.wo().is_some() && !has_id(wo, e.wo().unwrap()),
        !ttl ==> e.wo().is_none(),
    ensures
        core_wf(m.insert(k, e), p.push(N { id: e.ao().unwrap(), key: k, hash: hash }),
            if ttl { wo.push(N { id: e.wo().unwrap(), key: k, hash: 0 }) } else { wo }, ttl),
        wsum(p.push(N { id: e.ao().unwrap(), key: k, hash: hash }), m.insert(k, e)) == wsum(p, m.remove(k)) + e.w(),
{
    let m0 = m.remove(k);
    let m2 = m.insert(k, e);
    let nn = N { id: e.ao().unwrap(), key: k, hash: hash };
    let p2 = p.push(nn);
    assert forall|i: int| 0 <= i < p.len() implies (#[trigger] p[i]).key != k && p[i].id != nn.id by {
        assert(m0.contains_key(p[i].key));
    }
    assert forall|a: int, b: int| 0 <= a < b < p2.len() implies (#[trigger] p2[a]).id != (#[trigger] p2[b]).id && p2[a].key != p2[b].key by {
        if b < p.len() { assert(p2[a] == p[a]); assert(p2[b] == p[b]); } else { assert(p2[a] == p[a]); }
    }
    assert forall|a: int| 0 <= a < p2.len() implies m2.contains_key((#[trigger] p2[a]).key) && m2[p2[a].key].ao() == Some(p2[a].id) by {
        if a < p.len() { assert(p2[a] == p[a]); assert(m0.contains_key(p[a].key)); }
    }
    assert forall|kk: KeyId| #[trigger] m2.contains_key(kk) implies exists|a: int| 0 <= a < p2.len() && (#[trigger] p2[a]).key == kk by {
        if kk == k { assert(p2[p.len() as int].key == k); } else {
            assert(m0.contains_key(kk));
            let a = choose|a: int| 0 <= a < p.len() && (#[trigger] p[a]).key == kk;
            assert(p2[a] == p[a]);
        }
    }
    assert forall|kk: KeyId| #[trigger] m2.contains_key(kk) implies (m2[kk].wo().is_some() <==> ttl) by {
        if kk != k { assert(m0.contains_key(kk)); }
    }
    if ttl {
        let wn = N { id: e.wo().unwrap(), key: k, hash: 0 };
        let w2 = wo.push(wn);
        assert forall|i: int| 0 <= i < wo.len() implies (#[trigger] wo[i]).key != k && wo[i].id != wn.id by { assert(m0.contains_key(wo[i].key)); }
        assert forall|a: int, b: int| 0 <= a < b < w2.len() implies (#[trigger] w2[a]).id != (#[trigger] w2[b]).id && w2[a].key != w2[b].key by {
            if b < wo.len() { assert(w2[a] == wo[a]); assert(w2[b] == wo[b]); } else { assert(w2[a] == wo[a]); }
        }
        assert forall|a: int| 0 <= a < w2.len() implies m2.contains_key((#[trigger] w2[a]).key) && m2[w2[a].key].wo() == Some(w2[a].id) by {
            if a < wo.len() { assert(w2[a] == wo[a]); assert(m0.contains_key(wo[a].key)); }
        }
        assert forall|kk: KeyId| #[trigger] m2.contains_key(kk) && ttl implies exists|a: int| 0 <= a < w2.len() && (#[trigger] w2[a]).key == kk by {
            if kk == k { assert(w2[wo.len() as int].key == k); } else {
                assert(m0.contains_key(kk));
                let a = choose|a: int| 0 <= a < wo.len() && (#[trigger] wo[a]).key == kk;
                assert(w2[a] == wo[a]);
            }
        }
    } else {
        assert forall|a: int| 0 <= a < wo.len() implies m2.contains_key((#[trigger] wo[a]).key) && m2[wo[a].key].wo() == Some(wo[a].id) by {
            assert(m0.contains_key(wo[a].key)); assert(m0[wo[a].key].wo().is_some());
        }
    }
    lemma_wsum_push(p, m2, nn);
    lemma_wsum_insert_unrelated(p, m0, k, e);
    assert(m0.insert(k, e) =~= m2);
}

/// m without the keys of the first j list nodes
pub open spec fn rem<K, V>(m: Map<KeyId, ValueEntry<K, V>>, p: Seq<N>, j: int) -> Map<KeyId, ValueEntry<K, V>>
    decreases j
{ if j <= 0 { m } else { rem(m, p, j - 1).remove(p[j - 1].key) } }

pub proof fn lemma_rem_props<K, V>(m: Map<KeyId, ValueEntry<K, V>>, p: Seq<N>, j: int)
    requires 0 <= j <= p.len()
    ensures
        forall|k: KeyId| #[trigger] rem(m, p, j).contains_key(k) ==> m.contains_key(k) && rem(m, p, j)[k] == m[k],
        forall|k: KeyId| #[trigger] m.contains_key(k) && (forall|i: int| 0 <= i < j ==> (#[trigger] p[i]).key != k) ==> rem(m, p, j).contains_key(k),
        forall|i: int| 0 <= i < j ==> !rem(m, p, j).contains_key((#[trigger] p[i]).key),
    decreases j
{
    if j > 0 {
        lemma_rem_props(m, p, j - 1);
        let r0 = rem(m, p, j - 1); let r1 = rem(m, p, j);
        assert(r1 == r0.remove(p[j - 1].key));
        assert forall|k: KeyId| #[trigger] r1.contains_key(k) implies m.contains_key(k) && r1[k] == m[k] by { assert(r0.contains_key(k)); }
        assert forall|k: KeyId| #[trigger] m.contains_key(k) && (forall|i: int| 0 <= i < j ==> (#[trigger] p[i]).key != k) implies r1.contains_key(k) by {
            assert(forall|i: int| 0 <= i < j - 1 ==> (#[trigger] p[i]).key != k);
            assert(p[j - 1].key != k);
            assert(r0.contains_key(k));
        }
        assert forall|i: int| 0 <= i < j implies !r1.contains_key((#[trigger] p[i]).key) by {
            if i < j - 1 { assert(!r0.contains_key(p[i].key)); }
        }
    }
}

pub proof fn lemma_wsum_same_entries<K, V>(s: Seq<N>, m1: Map<KeyId, ValueEntry<K, V>>, m2: Map<KeyId, ValueEntry<K, V>>)
    requires forall|i: int| 0 <= i < s.len() ==> m1[(#[trigger] s[i]).key].w() == m2[s[i].key].w()
    ensures wsum(s, m1) == wsum(s, m2)
    decreases s.len()
{
    if s.len() > 0 { lemma_wsum_same_entries(s.drop_last(), m1, m2); assert(s.last() == s[s.len() - 1]); }
}

/// weight that remains after dropping the first n nodes and their entries
pub proof fn lemma_wsum_after_victims<K, V>(m: Map<KeyId, ValueEntry<K, V>>, p: Seq<N>, n: int)
    requires 0 <= n <= p.len(),
        forall|a: int, b: int| 0 <= a < b < p.len() ==> (#[trigger] p[a]).key != (#[trigger] p[b]).key,
        forall|i: int| 0 <= i < p.len() ==> m.contains_key((#[trigger] p[i]).key),
    ensures wsum(p.skip(n), rem(m, p, n)) == wsum(p, m) - wsum(p.take(n), m)
{
    lemma_wsum_add(p.take(n), p.skip(n), m);
    assert(p.take(n) + p.skip(n) =~= p);
    lemma_rem_props(m, p, n);
    let s = p.skip(n);
    assert forall|i: int| 0 <= i < s.len() implies rem(m, p, n)[(#[trigger] s[i]).key].w() == m[s[i].key].w() by {
        assert(s[i] == p[i + n]);
        assert forall|a: int| 0 <= a < n implies (#[trigger] p[a]).key != s[i].key by { assert(p[a].key != p[i + n].key); }
        assert(m.contains_key(s[i].key));
        assert(rem(m, p, n).contains_key(s[i].key));
    }
    lemma_wsum_same_entries(s, rem(m, p, n), m);
}

/// x occurs strictly before y in the list (by node id)
pub open spec fn before(p: Seq<N>, x: int, y: int) -> bool {
    exists|i: int, j: int| 0 <= i < j < p.len() && (#[trigger] p[i]).id == x && (#[trigger] p[j]).id == y
}
/// every pair that is ordered in `post` was ordered the same way in `pre` (relative recency order is preserved)
pub open spec fn ord_pres(pre: Seq<N>, post: Seq<N>) -> bool {
    forall|x: int, y: int| #[trigger] before(post, x, y) ==> before(pre, x, y)
}
pub proof fn lemma_ord_remove(p: Seq<N>, i: int)
    requires 0 <= i < p.len()
    ensures ord_pres(p, p.remove(i))
{
    let q = p.remove(i);
    assert forall|x: int, y: int| #[trigger] before(q, x, y) implies before(p, x, y) by {
        let (a, b) = choose|a: int, b: int| 0 <= a < b < q.len() && (#[trigger] q[a]).id == x && (#[trigger] q[b]).id == y;
        let a1 = if a < i { a } else { a + 1 }; let b1 = if b < i { b } else { b + 1 };
        assert(q[a] == p[a1]); assert(q[b] == p[b1]);
        assert(0 <= a1 < b1 < p.len() && p[a1].id == x && p[b1].id == y);
    }
}
pub proof fn lemma_ord_skip(p: Seq<N>, n: int)
    requires 0 <= n <= p.len()
    ensures ord_pres(p, p.skip(n))
{
    let q = p.skip(n);
    assert forall|x: int, y: int| #[trigger] before(q, x, y) implies before(p, x, y) by {
        let (a, b) = choose|a: int, b: int| 0 <= a < b < q.len() && (#[trigger] q[a]).id == x && (#[trigger] q[b]).id == y;
        assert(q[a] == p[a + n]); assert(q[b] == p[b + n]);
        assert(0 <= a + n < b + n < p.len() && p[a + n].id == x && p[b + n].id == y);
    }
}
pub proof fn lemma_ord_trans(a: Seq<N>, b: Seq<N>, c: Seq<N>)
    requires ord_pres(a, b), ord_pres(b, c)
    ensures ord_pres(a, c)
{
    assert forall|x: int, y: int| #[trigger] before(c, x, y) implies before(a, x, y) by { assert(before(b, x, y)); }
}
pub proof fn lemma_ord_refl(a: Seq<N>) ensures ord_pres(a, a) {}

/// least n (searching upwards from `from`) such that the first n nodes weigh at least cw
pub open spec fn least_prefix<K, V>(p: Seq<N>, m: Map<KeyId, ValueEntry<K, V>>, cw: int, from: int) -> Option<int>
    decreases p.len() - from
{
    if from < 0 || from > p.len() { None }
    else if wsum(p.take(from), m) >= cw { Some(from) }
    else if from == p.len() { None }
    else { least_prefix(p, m, cw, from + 1) }
}
/// C13, from the property statement: admitted iff a shortest sufficient LRU prefix exists and the candidate is
/// strictly more popular than the summed popularity of that prefix
pub open spec fn spec_admit<K, V>(cw: int, cf: int, p: Seq<N>, m: Map<KeyId, ValueEntry<K, V>>, sk: FrequencySketch) -> bool {
    match least_prefix(p, m, cw, 0) { Some(n) => cf > fsum(p.take(n), sk), None => false }
}
pub proof fn lemma_wsum_take_mono<K, V>(p: Seq<N>, m: Map<KeyId, ValueEntry<K, V>>, a: int, b: int)
    requires 0 <= a <= b <= p.len()
    ensures wsum(p.take(a), m) <= wsum(p.take(b), m)
    decreases b - a
{
    if a < b {
        lemma_wsum_take_mono(p, m, a, b - 1);
        assert(p.take(b).drop_last() =~= p.take(b - 1));
    }
}
pub proof fn lemma_fsum_take_mono(p: Seq<N>, sk: FrequencySketch, a: int, b: int)
    requires 0 <= a <= b <= p.len()
    ensures fsum(p.take(a), sk) <= fsum(p.take(b), sk)
    decreases b - a
{
    if a < b {
        lemma_fsum_take_mono(p, sk, a, b - 1);
        assert(p.take(b).drop_last() =~= p.take(b - 1));
    }
}
/// characterisation of least_prefix
pub proof fn lemma_least_prefix<K, V>(p: Seq<N>, m: Map<KeyId, ValueEntry<K, V>>, cw: int, from: int)
    requires 0 <= from <= p.len(), forall|i: int| 0 <= i < from ==> wsum(#[trigger] p.take(i), m) < cw
    ensures match least_prefix(p, m, cw, from) {
        Some(n) => from <= n <= p.len() && wsum(p.take(n), m) >= cw && forall|i: int| 0 <= i < n ==> wsum(#[trigger] p.take(i), m) < cw,
        None => forall|i: int| 0 <= i <= p.len() ==> wsum(#[trigger] p.take(i), m) < cw,
    }
    decreases p.len() - from
{
    if wsum(p.take(from), m) >= cw { }
    else if from == p.len() { }
    else { lemma_least_prefix(p, m, cw, from + 1); }
}

/// weights of a prefix do not depend on a key that is not in the list
pub proof fn lemma_least_prefix_unrelated<K, V>(p: Seq<N>, m: Map<KeyId, ValueEntry<K, V>>, k: KeyId, e: ValueEntry<K, V>, cw: int, from: int)
    requires forall|i: int| 0 <= i < p.len() ==> (#[trigger] p[i]).key != k
    ensures least_prefix(p, m.insert(k, e), cw, from) == least_prefix(p, m, cw, from)
    decreases p.len() - from
{
    if 0 <= from <= p.len() {
        lemma_wsum_insert_unrelated(p.take(from), m, k, e);
        if from < p.len() { lemma_least_prefix_unrelated(p, m, k, e, cw, from + 1); }
    }
}
/// removing list keys commutes with (re)binding a key that is not in the list
pub proof fn lemma_rem_insert<K, V>(m: Map<KeyId, ValueEntry<K, V>>, p: Seq<N>, n: int, k: KeyId, e: ValueEntry<K, V>, e2: ValueEntry<K, V>)
    requires 0 <= n <= p.len(), forall|i: int| 0 <= i < p.len() ==> (#[trigger] p[i]).key != k
    ensures rem(m.insert(k, e), p, n).insert(k, e2) =~= rem(m, p, n).insert(k, e2)
    decreases n
{
    if n > 0 {
        lemma_rem_insert(m, p, n - 1, k, e, e2);
        let a = rem(m.insert(k, e), p, n - 1); let b = rem(m, p, n - 1);
        assert(a.insert(k, e2) =~= b.insert(k, e2));
        assert(p[n - 1].key != k);
        assert(a.remove(p[n - 1].key).insert(k, e2) =~= a.insert(k, e2).remove(p[n - 1].key));
        assert(b.remove(p[n - 1].key).insert(k, e2) =~= b.insert(k, e2).remove(p[n - 1].key));
    }
}
} // mod cspec
pub mod code {
use vstd::prelude::*;
use std::time::Duration;
use std::rc::Rc;
use std::borrow::Borrow;
use std::hash::{BuildHasher, Hash};
use super::env::*;
use super::cspec::*;
broadcast use {axiom_kid_rc, axiom_dur_nonneg, axiom_ptr_reads, axiom_rc_reads, axiom_f64_mul_ok, axiom_f64_div_ok};
//@@ CONST file=src/unsync/cache.rs name=EVICTION_BATCH_SIZE
use std::ptr::NonNull;
use vstd::std_specs::iter::IteratorSpec;

//@@ STRUCT file=src/unsync/cache.rs name=EntrySizeAndFrequency
#[derive(Default)]
pub struct EntrySizeAndFrequency {
    pub weight: u64,
    pub freq: u32,
}
//@@ END

pub assume_specification [<EntrySizeAndFrequency as Default>::default] () -> (r: EntrySizeAndFrequency)
    ensures r.weight == 0, r.freq == 0;

impl EntrySizeAndFrequency {
//@@ FN file=src/unsync/cache.rs owner=EntrySizeAndFrequency name=new tags=C13
    fn new(policy_weight: u64) -> /*@+*/(r:/*@-*/ Self/*@+*/)/*@-*/
        ensures r.weight == policy_weight, r.freq == 0 //@ [C13]
    {
        Self {
            weight: policy_weight,
            ..Default::default()
        }
    }
//@@ END

//@@ FN file=src/unsync/cache.rs owner=EntrySizeAndFrequency name=add_policy_weight tags=C13
    fn add_policy_weight<K, V>(&mut self, key: &K, value: &V, weigher: &mut Option<Weigher<K, V>>)
        requires old(self).weight + u32::MAX <= u64::MAX, //@ [C08]
        ensures final(self).weight == old(self).weight + wspec(*old(weigher), kid(key), *value), final(self).freq == old(self).freq, //@ [C13,C04]
            *final(weigher) == *old(weigher), //@ [C13]
    {
        self.weight += weigh(weigher, key, value) as u64;
    }
//@@ END

//@@ FN file=src/unsync/cache.rs owner=EntrySizeAndFrequency name=add_frequency tags=C13
    fn add_frequency(&mut self, freq: &FrequencySketch, hash: u64)
        requires old(self).freq + 15 <= u32::MAX, //@ [C08]
        ensures final(self).freq == old(self).freq + freq.freq(hash), final(self).freq <= old(self).freq + 15, final(self).weight == old(self).weight, //@ [C13]
    {
        self.freq += freq.frequency(hash) as u32;
    }
//@@ END
}

// Access-Order Queue Node
type AoqNode<K> = NonNull<DeqNode<KeyHashDate<K>>>;

//@@ ENUM file=src/unsync/cache.rs name=AdmissionResult
#[verifier::reject_recursive_types(K)]
pub enum AdmissionResult<K> {
    Admitted {
        victim_nodes: SmallVec<[AoqNode<K>; 8]>,
        victims_weight: u64,
    },
    Rejected,
}
//@@ END


pub open spec fn ptr_ids<K>(v: Seq<AoqNode<K>>) -> Seq<int> { v.map_values(|p: AoqNode<K>| nid(p)) }

//@@ STRUCT file=src/unsync/cache.rs name=Cache
#[verifier::reject_recursive_types(K)]
#[verifier::reject_recursive_types(V)]
#[verifier::reject_recursive_types(S)]
pub struct Cache<K, V, S = RandomState> {
    pub max_capacity: Option<u64>,
    pub entry_count: u64,
    pub weighted_size: u64,
    pub cache: CacheStore<K, V, S>,
    pub build_hasher: S,
    pub weigher: Option<Weigher<K, V>>,
    pub deques: Deques<K>,
    pub frequency_sketch: FrequencySketch,
    pub frequency_sketch_enabled: bool,
    pub time_to_live: Option<Duration>,
    pub time_to_idle: Option<Duration>,
    pub expiration_clock: Option<Clock>,
}
//@@ END

impl<K, V, S> Cache<K, V, S>
where
    K: Hash + Eq,
    S: BuildHasher + Clone,
{
    pub open spec fn sp_has_expiry(&self) -> bool { self.time_to_live.is_some() || self.time_to_idle.is_some() }
    pub open spec fn cfg_ok(&self) -> bool {
        &&& (self.time_to_live.is_some() ==> dur_ns(self.time_to_live.unwrap()) <= max_dur_ns())
        &&& (self.time_to_idle.is_some() ==> dur_ns(self.time_to_idle.unwrap()) <= max_dur_ns())
    }
    pub open spec fn same_cfg(&self, o: &Self) -> bool {
        self.max_capacity == o.max_capacity && self.time_to_live == o.time_to_live && self.time_to_idle == o.time_to_idle
            && self.build_hasher == o.build_hasher && self.expiration_clock == o.expiration_clock
    }
    /// configuration, weigher and popularity estimator are the same
    pub open spec fn same_aux(&self, o: &Self) -> bool {
        self.same_cfg(o) && self.weigher == o.weigher && self.frequency_sketch == o.frequency_sketch
            && self.frequency_sketch_enabled == o.frequency_sketch_enabled
    }
    /// the views a later operation can observe are the same
    pub open spec fn same_views(&self, o: &Self) -> bool {
        self.cache@ =~= o.cache@ && self.deques.probation@ =~= o.deques.probation@ && self.deques.write_order@ =~= o.deques.write_order@
            && self.entry_count == o.entry_count && self.weighted_size == o.weighted_size
    }
    /// one-to-one correspondence map entries <-> list nodes (no orphan node, no node-less entry); unused lists empty
    pub open spec fn inv_struct(&self) -> bool {
        &&& self.deques.window@.len() == 0 && self.deques.protected@.len() == 0
        &&& core_wf(self.cache@, self.deques.probation@, self.deques.write_order@, self.time_to_live.is_some())
    }
    /// timestamps exist whenever the policy that reads them is configured
    pub open spec fn inv_ts(&self) -> bool {
        &&& ts_wf(self.cache@, self.sp_has_expiry(), self.time_to_live.is_some())
        // the timestamps live in the list nodes: an entry without its node could never expire
        &&& forall|k: KeyId| #[trigger] self.cache@.contains_key(k) ==> self.cache@[k].ao().is_some() && (self.cache@[k].wo().is_some() <==> self.time_to_live.is_some())
    }
    pub open spec fn inv_count(&self) -> bool { self.entry_count == self.deques.probation@.len() }
    pub open spec fn inv_weight(&self) -> bool { self.weighted_size == wsum(self.deques.probation@, self.cache@) }
    pub open spec fn wf(&self) -> bool {
        self.cfg_ok() && self.inv_struct() && self.inv_ts() && self.inv_count() && self.inv_weight()
    }
    /// C05 / C06, from the property statements: the entry's time-to-live or time-to-idle deadline is at or before `now`
    pub open spec fn sp_expired(&self, e: &ValueEntry<K, V>, now: Instant) -> bool {
        ||| Self::exp_wo(self.time_to_live, e, now)
        ||| Self::exp_ao(self.time_to_idle, e, now)
    }
    pub open spec fn exp_wo(ttl: Option<Duration>, e: &ValueEntry<K, V>, now: Instant) -> bool {
        ttl.is_some() && e.sp_last_modified().is_some() && e.sp_last_modified().unwrap().t() + dur_ns(ttl.unwrap()) <= now.t()
    }
    pub open spec fn exp_ao(tti: Option<Duration>, e: &ValueEntry<K, V>, now: Instant) -> bool {
        tti.is_some() && e.sp_last_accessed().is_some() && e.sp_last_accessed().unwrap().t() + dur_ns(tti.unwrap()) <= now.t()
    }
    /// The one clock reading an operation that starts in state `self` takes. Time is *named*, not modelled: every
    /// contract below holds for an arbitrary value of this reading (it is uninterpreted), nothing relates two readings.
    pub uninterp spec fn sp_now(&self) -> Instant;
    pub open spec fn sp_ts(&self) -> Option<Instant> { if self.sp_has_expiry() { Some(self.sp_now()) } else { None } }
    /// what a lookup of key k answers on map m at reading ts (C01, C05, C06)
    pub open spec fn sp_hit(&self, m: Map<KeyId, ValueEntry<K, V>>, k: KeyId, ts: Option<Instant>) -> bool {
        m.contains_key(k) && (ts.is_some() ==> !self.sp_expired(&m[k], ts.unwrap()))
    }

    // ---------------- relations between pre- and post-states (the vocabulary of the top-level contracts) ----------------
    /// `post` is `pre` with some entries removed and nothing else changed; the survivors keep their relative recency order
    pub open spec fn rel_purge(pre: Self, post: Self) -> bool {
        &&& post.wf() && post.same_aux(&pre)
        &&& forall|k: KeyId| #[trigger] post.cache@.contains_key(k) ==> pre.cache@.contains_key(k) && post.cache@[k] == pre.cache@[k]
        &&& ord_pres(pre.deques.probation@, post.deques.probation@)
        &&& post.deques.probation@.len() <= pre.deques.probation@.len()
    }
    /// expiry purge (evict_expired_if_needed)
    pub open spec fn rel_evict_expired(pre: Self, post: Self) -> bool {
        &&& Self::rel_purge(pre, post)
        &&& (!pre.sp_has_expiry() ==> post.same_views(&pre))
        // C03: only entries whose deadline has passed at this operation's clock reading are purged
        &&& forall|k: KeyId| pre.cache@.contains_key(k) && !(#[trigger] post.cache@.contains_key(k)) ==> pre.sp_expired(&pre.cache@[k], pre.sp_now())
    }
    /// size eviction (evict_lru_entries): exactly the shortest sufficient LRU prefix goes (C12), nothing when within capacity (C03)
    pub open spec fn rel_evict_lru(pre: Self, post: Self) -> bool {
        &&& Self::rel_purge(pre, post)
        &&& post.deques.write_order@.len() <= pre.deques.write_order@.len()
        &&& ({
            let n = pre.deques.probation@.len() - post.deques.probation@.len();
            let p0 = pre.deques.probation@;
            &&& post.deques.probation@ == p0.skip(n)
            &&& post.cache@ == rem(pre.cache@, p0, n)
            &&& (n > 0 ==> wsum(p0.take(n - 1), pre.cache@) < pre.sp_weights_to_evict())
            &&& (wsum(p0.take(n), pre.cache@) >= pre.sp_weights_to_evict() || n == 100 || n == p0.len())
        })
        &&& (pre.sp_weights_to_evict() == 0 ==> post.same_views(&pre))
    }
    /// the housekeeping prefix every public operation starts with
    pub open spec fn rel_hk(pre: Self, post: Self) -> bool {
        exists|mid: Self| #[trigger] Self::rel_evict_expired(pre, mid) && Self::rel_evict_lru(mid, post)
    }
    /// effect of the lookup part of `get` on the state `mid` left by housekeeping
    pub open spec fn rel_get(mid: Self, post: Self, k: KeyId, ts: Option<Instant>, hash: u64, hit: bool) -> bool {
        &&& post.wf() && post.same_cfg(&mid) && post.weigher == mid.weigher && post.frequency_sketch_enabled == mid.frequency_sketch_enabled
        &&& post.frequency_sketch == mid.frequency_sketch.incremented(hash)
        &&& post.deques.write_order@ == mid.deques.write_order@
        &&& Self::rel_get_answer(mid, k, ts, hit)
        &&& Self::rel_get_entries(mid, post, k, ts, hit)
        &&& Self::rel_get_order(mid, post, k, hit)
    }
    /// C01/C05/C06/C07: a hit iff the key is resident and not expired at the reading
    pub open spec fn rel_get_answer(mid: Self, k: KeyId, ts: Option<Instant>, hit: bool) -> bool {
        hit == mid.sp_hit(mid.cache@, k, ts)
    }
    /// a miss changes no entry; a hit changes only the idle timer of the key that was looked up (C06)
    pub open spec fn rel_get_entries(mid: Self, post: Self, k: KeyId, ts: Option<Instant>, hit: bool) -> bool {
        &&& (!hit ==> post.cache@ =~= mid.cache@)
        &&& (hit ==> {
            &&& post.cache@.dom() =~= mid.cache@.dom()
            &&& forall|k2: KeyId| k2 != k && #[trigger] mid.cache@.contains_key(k2) ==> post.cache@[k2] == mid.cache@[k2]
            &&& post.cache@[k].value == mid.cache@[k].value && post.cache@[k].w() == mid.cache@[k].w() && post.cache@[k].tm() == mid.cache@[k].tm()
            &&& post.cache@[k].ao() == mid.cache@[k].ao() && post.cache@[k].wo() == mid.cache@[k].wo()
            &&& post.cache@[k].ta() == (if ts.is_some() { ts } else { mid.cache@[k].ta() })
        })
    }
    /// C12: a hit makes the key most recently used; nothing else is reordered
    pub open spec fn rel_get_order(mid: Self, post: Self, k: KeyId, hit: bool) -> bool {
        &&& (!hit ==> post.deques.probation@ == mid.deques.probation@)
        &&& (hit ==> post.deques.probation@ == moved_to_back(mid.deques.probation@, pos_of_key(mid.deques.probation@, k)))
    }

//@@ FN file=src/unsync/cache.rs owner=Cache name=policy tags=C17
    pub fn policy(&self) -> /*@+*/(r:/*@-*/ Policy/*@+*/)/*@-*/
        ensures r.sp_max_capacity() == self.max_capacity, r.sp_ttl() == self.time_to_live, r.sp_tti() == self.time_to_idle //@ [C17]
    {
        Policy::new(self.max_capacity, self.time_to_live, self.time_to_idle)
    }
//@@ END

//@@ FN file=src/unsync/cache.rs owner=Cache name=entry_count tags=C10
    pub fn entry_count(&self) -> /*@+*/(r:/*@-*/ u64/*@+*/)/*@-*/
        ensures r == self.entry_count //@ [C10]
    {
        self.entry_count
    }
//@@ END

//@@ FN file=src/unsync/cache.rs owner=Cache name=weighted_size tags=C10
    pub fn weighted_size(&self) -> /*@+*/(r:/*@-*/ u64/*@+*/)/*@-*/
        ensures r == self.weighted_size //@ [C10]
    {
        self.weighted_size
    }
//@@ END

//@@ FN file=src/unsync/cache.rs owner=Cache name=with_everything tags=C17
    pub(crate) fn with_everything(
        max_capacity: Option<u64>,
        initial_capacity: Option<usize>,
        build_hasher: S,
        weigher: Option<Weigher<K, V>>,
        time_to_live: Option<Duration>,
        time_to_idle: Option<Duration>,
    ) -> /*@+*/(r:/*@-*/ Self/*@+*/)/*@-*/
        requires // the builder's 1000-year guard (Kani: ensure_expirations_or_panic) //@
            time_to_live.is_some() ==> dur_ns(time_to_live.unwrap()) <= max_dur_ns(), //@
            time_to_idle.is_some() ==> dur_ns(time_to_idle.unwrap()) <= max_dur_ns(), //@
        ensures //@
            // C17: every knob is stored exactly as given ...
            r.max_capacity == max_capacity, r.time_to_live == time_to_live, r.time_to_idle == time_to_idle, //@ [C17]
            r.weigher == weigher, r.build_hasher == build_hasher, r.expiration_clock.is_none(), //@ [C17]
            // ... the cache starts empty and well formed, with the estimator off, whatever initial_capacity is
            r.cache@ == Map::<KeyId, ValueEntry<K, V>>::empty(), r.deques.probation@.len() == 0, r.deques.write_order@.len() == 0, //@ [C17,C01]
            r.entry_count == 0, r.weighted_size == 0, //@ [C10,C17]
            r.frequency_sketch == sketch_default(), !r.frequency_sketch_enabled, //@ [C17,C14]
            r.wf(), //@ [C10,C11,C08]
    {
        let cache = HashMap::with_capacity_and_hasher(
            initial_capacity.unwrap_or_default(),
            build_hasher.clone(),
        );

        Self {
            max_capacity,
            entry_count: 0,
            weighted_size: 0,
            cache,
            build_hasher,
            weigher,
            deques: Default::default(),
            frequency_sketch: Default::default(),
            frequency_sketch_enabled: false,
            time_to_live,
            time_to_idle,
            expiration_clock: None,
        }
    }
//@@ END

    // ---------------- assumed (outside reach), contracts only ----------------
    /// the clock: `Instant::now()` or the mock clock
    #[verifier::external_body]
    fn current_time_from_expiration_clock(&self) -> (r: Instant)
        ensures r == self.sp_now()
    { unimplemented!() }

//@@ FN file=src/unsync/cache.rs owner=Cache name=evict_expired tags=C10,C03 rewrites=inline:rm_expired_ao
    fn evict_expired(&mut self, now: Instant)
        requires old(self).wf(), old(self).small(), //@
        ensures //@
            final(self).cfg_ok(), final(self).same_cfg(old(self)), //@ [C17]
            final(self).inv_struct(), //@ [C08,C11,C12]
            final(self).inv_ts(), //@ [C05,C06]
            final(self).inv_count(), //@ [C10]
            final(self).inv_weight(), //@ [C10,C03,C04,C12]
            Self::rel_purge(*old(self), *final(self)), //@ [C15,C14,C12,C01]
            // C03: only entries whose time-to-live or time-to-idle deadline has passed at `now` are purged
            forall|k: KeyId| old(self).cache@.contains_key(k) && !(#[trigger] final(self).cache@.contains_key(k)) ==> old(self).sp_expired(&old(self).cache@[k], now), //@ [C03]
    {
        let ghost p0 = self.deques.probation@; //@
        proof { lemma_ord_refl(p0); lemma_wsum_nonneg(p0, self.cache@); } //@
        if self.time_to_live.is_some() {
            let (count, weight) = self.remove_expired_wo(EVICTION_BATCH_SIZE, now);
            proof { lemma_wsum_nonneg(self.deques.probation@, self.cache@); } //@
            self.entry_count -= count;
            self.saturating_sub_from_total_weight(weight);
        }
        let ghost p1 = self.deques.probation@; let ghost m1 = self.cache@; //@
        proof { lemma_wsum_nonneg(p1, self.cache@); } //@

        if self.time_to_idle.is_some() {
            let deqs = &mut self.deques;
            let (window, probation, protected, wo, cache, time_to_idle) = (
                &mut deqs.window,
                &mut deqs.probation,
                &mut deqs.protected,
                &mut deqs.write_order,
                &mut self.cache,
                &self.time_to_idle,
            );

            let (count1, weight1) = Self :: remove_expired_ao ( "window" , window , wo , cache , time_to_idle , EVICTION_BATCH_SIZE , now , );
            let (count2, weight2) = Self :: remove_expired_ao ( "probation" , probation , wo , cache , time_to_idle , EVICTION_BATCH_SIZE , now , );
            let (count3, weight3) = Self :: remove_expired_ao ( "protected" , protected , wo , cache , time_to_idle , EVICTION_BATCH_SIZE , now , );
            proof { lemma_wsum_nonneg(probation@, cache@); lemma_ord_trans(p0, p1, probation@); } //@

            self.entry_count -= count1 + count2 + count3;
            self.saturating_sub_from_total_weight(weight1);
            self.saturating_sub_from_total_weight(weight2);
            self.saturating_sub_from_total_weight(weight3);
        }
        proof { //@
            assert forall|k: KeyId| old(self).cache@.contains_key(k) && !(#[trigger] self.cache@.contains_key(k)) implies old(self).sp_expired(&old(self).cache@[k], now) by { //@
                if m1.contains_key(k) { assert(m1[k] == old(self).cache@[k]); } //@
            } //@
        } //@
    }
//@@ END

    /// `core_wf` for the (unknown to this static function) time-to-live flag
    pub open spec fn core_wf_any(m: Map<KeyId, ValueEntry<K, V>>, p: Seq<N>, wo: Seq<N>) -> bool { core_wf(m, p, wo, true) || core_wf(m, p, wo, false) }

//@@ FN file=src/unsync/cache.rs owner=Cache name=remove_expired_ao tags=C10,C06,C03
    fn remove_expired_ao(
        deq_name: &str,
        deq: &mut Deque<KeyHashDate<K>>,
        write_order_deq: &mut Deque<KeyDate<K>>,
        cache: &mut CacheStore<K, V, S>,
        time_to_idle: &Option<Duration>,
        batch_size: usize,
        now: Instant,
    ) -> (/*@+*/r: (/*@-*/u64, u64/*@+*/)/*@-*/)
        requires //@
            time_to_idle.is_some() ==> dur_ns(time_to_idle.unwrap()) <= max_dur_ns(), //@ [C08]
            batch_size <= 1000, old(deq)@.len() < 0xFFFF_FFFF, //@
            // an unused (empty) list, or the probation list of a structurally well-formed cache
            old(deq)@.len() == 0 || Self::core_wf_any(old(cache)@, old(deq)@, old(write_order_deq)@), //@ [C08,C11]
        ensures //@
            old(deq)@.len() == 0 ==> final(deq)@ == old(deq)@ && final(write_order_deq)@ == old(write_order_deq)@ && final(cache)@ == old(cache)@ && r.0 == 0 && r.1 == 0, //@ [C03,C10]
            forall|ttl: bool| core_wf(old(cache)@, old(deq)@, old(write_order_deq)@, ttl) ==> core_wf(final(cache)@, final(deq)@, final(write_order_deq)@, ttl), //@ [C08,C11,C12]
            // C10 / C03: the returned pair is exactly what was taken out
            r.0 == old(deq)@.len() - final(deq)@.len(), //@ [C10]
            r.1 == wsum(old(deq)@, old(cache)@) - wsum(final(deq)@, final(cache)@), //@ [C10,C03,C04]
            forall|k: KeyId| #[trigger] final(cache)@.contains_key(k) ==> old(cache)@.contains_key(k) && final(cache)@[k] == old(cache)@[k], //@ [C01,C15]
            ord_pres(old(deq)@, final(deq)@), //@ [C12,C15]
            // C03: only entries whose idle deadline has passed at `now` are purged ...
            forall|k: KeyId| old(cache)@.contains_key(k) && !(#[trigger] final(cache)@.contains_key(k)) ==> Self::exp_ao(*time_to_idle, &old(cache)@[k], now), //@ [C03]
            // C06: ... and the purge goes on until the batch is used up, the list is empty or its front entry is still alive
            r.0 == batch_size || final(deq)@.len() == 0 || !Self::exp_ao(*time_to_idle, &final(cache)@[final(deq)@[0].key], now), //@ [C06]
    {
        let mut evicted_entry_count = 0u64;
        let mut evicted_policy_weight = 0u64;
        let ghost m0 = cache@; let ghost p0 = deq@; let ghost wo0 = write_order_deq@; //@
        let ghost ttl = core_wf(m0, p0, wo0, true); //@
        proof { lemma_wsum_bound(p0, m0); lemma_wsum_nonneg(p0, m0); lemma_ord_refl(p0); } //@

        for _ in /*@+*/it:/*@-*/ 0..batch_size
            invariant_except_break //@
                evicted_entry_count == it.index@, //@
            invariant //@
                time_to_idle.is_some() ==> dur_ns(time_to_idle.unwrap()) <= max_dur_ns(), //@
                (p0.len() == 0 && deq@ == p0 && write_order_deq@ == wo0 && cache@ == m0) || core_wf(cache@, deq@, write_order_deq@, ttl), //@ [C08,C11,C12]
                p0.len() > 0 ==> core_wf(m0, p0, wo0, ttl), //@
                evicted_entry_count == 0 ==> deq@ == p0 && write_order_deq@ == wo0 && cache@ == m0, //@
                forall|t2: bool| core_wf(m0, p0, wo0, t2) ==> core_wf(cache@, deq@, write_order_deq@, t2), //@ [C08,C11,C12]
                evicted_entry_count == p0.len() - deq@.len(), //@ [C10]
                evicted_policy_weight == wsum(p0, m0) - wsum(deq@, cache@), //@ [C10,C03,C04]
                wsum(deq@, cache@) >= 0, wsum(p0, m0) <= p0.len() * 0xFFFF_FFFF, p0.len() < 0xFFFF_FFFF, //@
                forall|k: KeyId| #[trigger] cache@.contains_key(k) ==> m0.contains_key(k) && cache@[k] == m0[k], //@ [C01,C15]
                ord_pres(p0, deq@), //@ [C12,C15]
                forall|k: KeyId| m0.contains_key(k) && !(#[trigger] cache@.contains_key(k)) ==> Self::exp_ao(*time_to_idle, &m0[k], now), //@ [C03]
            ensures //@
                evicted_entry_count == batch_size || deq@.len() == 0 || !Self::exp_ao(*time_to_idle, &cache@[deq@[0].key], now), //@ [C06]
        {
            proof { reveal(front_id); if deq@.len() > 0 { axiom_stamp_ao(&cache@[deq@[0].key]); } } //@
            let key = deq
                .peek_front()
                .and_then(|node| /*@+*/-> (o: Option<Option<Rc<K>>>) ensures o.is_some() ==> o.unwrap().is_some() && o.unwrap().unwrap() == node.element.key, o.is_some() == (time_to_idle.is_some() && node.sp_last_accessed().is_some() && node.sp_last_accessed().unwrap().t() + dur_ns(time_to_idle.unwrap()) <= now.t())/*@-*/ {
                    if Self::is_expired_entry_ao(time_to_idle, node, now) {
                        Some(Some(Rc::clone(&node.element.key)))
                    } else {
                        None
                    }
                })
                .unwrap_or_default();

            if key.is_none() {
                break;
            }

            let key = key.unwrap();
            proof { //@
                let m = cache@; let p = deq@; let wo = write_order_deq@; //@
                let kk = kid_rc(key); //@
                assert(p.len() > 0 && p[0].key == kk); //@
                assert(core_wf(m, p, wo, ttl)); //@
                lemma_remove_at(m, p, wo, ttl, 0); //@
                lemma_wsum_nonneg(p.remove(0), m.remove(kk)); //@
                lemma_ord_remove(p, 0); lemma_ord_trans(p0, p, p.remove(0)); //@
                if core_wf(m0, p0, wo0, !ttl) { lemma_remove_at(m, p, wo, !ttl, 0); } //@
            } //@

            if let Some(mut entry) = cache.remove(&key) {
                let weight = entry.policy_weight();
                Deques::unlink_ao_from_deque(deq_name, deq, &mut entry);
                Deques::unlink_wo(write_order_deq, &mut entry);
                evicted_entry_count += 1;
                evicted_policy_weight = evicted_policy_weight.saturating_add(weight as u64);
            } else {
                deq.pop_front();
            }
        }

        (evicted_entry_count, evicted_policy_weight)
    }
//@@ END

//@@ FN file=src/unsync/cache.rs owner=Cache name=has_expiry tags=C05,C06
    fn has_expiry(&self) -> /*@+*/(r:/*@-*/ bool/*@+*/)/*@-*/
        ensures r == self.sp_has_expiry() //@ [C05,C06,C17]
    {
        self.time_to_live.is_some() || self.time_to_idle.is_some()
    }
//@@ END

//@@ FN file=src/unsync/cache.rs owner=Cache name=evict_expired_if_needed tags=C05,C06
    fn evict_expired_if_needed(&mut self) -> /*@+*/(r:/*@-*/ Option<Instant>/*@+*/)/*@-*/
        requires old(self).wf(), old(self).small(), //@
        ensures //@
            r == old(self).sp_ts(), //@ [C05,C06]
            Self::rel_evict_expired(*old(self), *final(self)), //@ [C03,C15,C17]
    {
        if self.has_expiry() {
            let ts = self.current_time_from_expiration_clock();
            self.evict_expired(ts);
            Some(ts)
        } else {
            proof { lemma_ord_refl(self.deques.probation@); } //@
            None
        }
    }
//@@ END

//@@ FN file=src/unsync/cache.rs owner=Cache name=is_expired_entry tags=C05,C06
    pub(crate) fn is_expired_entry(&self, entry: &ValueEntry<K, V>) -> /*@+*/(r:/*@-*/ bool/*@+*/)/*@-*/
        requires self.cfg_ok(), //@
        ensures r == self.sp_expired(entry, self.sp_now()) //@ [C05,C06,C01]
    {
        let now = self.current_time_from_expiration_clock();
        Self::is_expired_entry_wo(&self.time_to_live, entry, now)
            || Self::is_expired_entry_ao(&self.time_to_idle, entry, now)
    }
//@@ END

    pub open spec fn sp_weights_to_evict(&self) -> int {
        match self.max_capacity { Some(l) => if self.weighted_size > l { self.weighted_size - l } else { 0 }, None => 0 }
    }

//@@ FN file=src/unsync/cache.rs owner=Cache name=weights_to_evict tags=C04
    fn weights_to_evict(&self) -> /*@+*/(r:/*@-*/ u64/*@+*/)/*@-*/
        ensures r == self.sp_weights_to_evict() //@ [C04,C12,C03,C17]
    {
        self.max_capacity
            .map(|limit| /*@+*/-> (x: u64) ensures x == if self.weighted_size > limit { (self.weighted_size - limit) as u64 } else { 0 } {/*@-*/ self.weighted_size.saturating_sub(limit) /*@+*/}/*@-*/)
            .unwrap_or_default()
    }
//@@ END

//@@ FN file=src/unsync/cache.rs owner=Cache name=evict_lru_entries tags=C12,C04,C10
    fn evict_lru_entries(&mut self)
        requires old(self).wf(), old(self).small(), //@
        ensures //@
            final(self).cfg_ok(), final(self).same_cfg(old(self)), //@ [C17]
            final(self).inv_struct(), //@ [C08,C11,C12]
            final(self).inv_ts(), //@ [C05,C06]
            final(self).inv_count(), //@ [C10]
            final(self).inv_weight(), //@ [C10,C03,C04,C12]
            final(self).frequency_sketch == old(self).frequency_sketch, final(self).frequency_sketch_enabled == old(self).frequency_sketch_enabled, //@ [C14,C15]
            forall|k: KeyId| #[trigger] final(self).cache@.contains_key(k) ==> old(self).cache@.contains_key(k) && final(self).cache@[k] == old(self).cache@[k], //@ [C01,C03,C15]
            final(self).weigher == old(self).weigher, final(self).expiration_clock == old(self).expiration_clock, //@
            final(self).deques.probation@.len() <= old(self).deques.probation@.len(), final(self).deques.write_order@.len() <= old(self).deques.write_order@.len(), //@
            ord_pres(old(self).deques.probation@, final(self).deques.probation@), //@ [C12,C15]
            // C12: the removed entries are exactly a prefix of the recency order, and the shortest one that frees enough
            ({ //@ [C12,C04,C03,C15]
                let n = old(self).deques.probation@.len() - final(self).deques.probation@.len(); //@
                let p0 = old(self).deques.probation@; //@
                &&& final(self).deques.probation@ == p0.skip(n) //@
                &&& final(self).cache@ == rem(old(self).cache@, p0, n) //@
                &&& (n > 0 ==> wsum(p0.take(n - 1), old(self).cache@) < old(self).sp_weights_to_evict()) //@
                &&& (wsum(p0.take(n), old(self).cache@) >= old(self).sp_weights_to_evict() || n == 100 || n == p0.len()) //@
            }), //@
            // C03: nothing to evict => nothing changes
            old(self).sp_weights_to_evict() == 0 ==> final(self).same_views(old(self)), //@ [C03,C15,C17]
    {
        const DEQ_NAME: &'static str = "probation";

        let weights_to_evict = self.weights_to_evict();
        let mut evicted_count = 0u64;
        let mut evicted_policy_weight = 0u64;
        let ghost m0 = self.cache@; let ghost p0 = self.deques.probation@; let ghost ttl = self.time_to_live.is_some(); //@
        proof { lemma_wsum_bound(p0, m0); lemma_wsum_nonneg(p0, m0); assert(p0.skip(0) =~= p0); assert(p0.take(0).len() == 0); } //@

        {
            let deqs = &mut self.deques;
            let (probation, wo, cache) =
                (&mut deqs.probation, &mut deqs.write_order, &mut self.cache);

            for _ in /*@+*/it:/*@-*/ 0..EVICTION_BATCH_SIZE
                invariant_except_break //@
                    evicted_count == it.index@, //@
                invariant //@
                    EVICTION_BATCH_SIZE == 100, //@
                    core_wf(cache@, probation@, wo@, ttl), //@ [C08,C11]
                    evicted_count <= p0.len(), evicted_count <= 100, //@
                    probation@ == p0.skip(evicted_count as int), //@ [C12]
                    cache@ == rem(m0, p0, evicted_count as int), //@ [C12,C03]
                    evicted_policy_weight == wsum(p0.take(evicted_count as int), m0), //@ [C10,C04]
                    wsum(p0, m0) == wsum(probation@, cache@) + evicted_policy_weight, //@ [C10]
                    wsum(probation@, cache@) >= 0, wsum(p0, m0) <= p0.len() * 0xFFFF_FFFF, p0.len() < 0xFFFF_FFFF, //@
                    evicted_count > 0 ==> wsum(p0.take(evicted_count - 1), m0) < weights_to_evict, //@ [C12]
                    core_wf(m0, p0, old(self).deques.write_order@, ttl), //@
                    wo@.len() <= old(self).deques.write_order@.len(), evicted_count == 0 ==> wo@ == old(self).deques.write_order@, //@
                ensures //@
                    evicted_policy_weight >= weights_to_evict || evicted_count == 100 || evicted_count == p0.len(), //@ [C04,C15]
            {
                if evicted_policy_weight >= weights_to_evict {
                    break;
                }

                // clippy::map_clone will give us a false positive warning here.
                // Version: clippy 0.1.77 (f2048098a1c 2024-02-09) in Rust 1.77.0-beta.2
                #[allow(clippy::map_clone)]
                let key = probation
                    .peek_front()
                    .map(|node| /*@+*/-> (r: Rc<K>) ensures r == node.element.key {/*@-*/ Rc::clone(&node.element.key) /*@+*/}/*@-*/);

                if key.is_none() {
                    break;
                }
                let key = key.unwrap();
                proof { //@
                    let j = evicted_count as int; //@
                    lemma_remove_at(cache@, probation@, wo@, ttl, 0); //@
                    lemma_wsum_nonneg(probation@.remove(0), cache@.remove(probation@[0].key)); //@
                    assert(probation@[0] == p0[j]); //@
                    assert(probation@.remove(0) =~= p0.skip(j + 1)); //@
                    assert(rem(m0, p0, j + 1) == rem(m0, p0, j).remove(p0[j].key)); //@
                    assert(p0.take(j + 1).drop_last() =~= p0.take(j)); //@
                    assert(p0.take(j + 1).last() == p0[j]); //@
                    lemma_rem_props(m0, p0, j); //@
                    assert(m0.contains_key(p0[j].key)); //@
                    assert forall|i: int| 0 <= i < j implies (#[trigger] p0[i]).key != p0[j].key by {} //@
                    assert(rem(m0, p0, j)[p0[j].key] == m0[p0[j].key]); //@
                } //@

                if let Some(mut entry) = cache.remove(&key) {
                    let weight = entry.policy_weight();
                    Deques::unlink_ao_from_deque(DEQ_NAME, probation, &mut entry);
                    Deques::unlink_wo(wo, &mut entry);
                    evicted_count += 1;
                    evicted_policy_weight = evicted_policy_weight.saturating_add(weight as u64);
                } else {
                    probation.pop_front();
                }
            }
        }

        proof { //@
            lemma_wsum_nonneg(self.deques.probation@, self.cache@); lemma_rem_props(m0, p0, evicted_count as int); lemma_ord_skip(p0, evicted_count as int); //@
            if evicted_count > 0 { lemma_wsum_nonneg(p0.take(evicted_count - 1), m0); } //@
            assert(p0.skip(0) =~= p0); //@
        } //@
        self.entry_count -= evicted_count;
        self.saturating_sub_from_total_weight(evicted_policy_weight);
    }
//@@ END

    pub open spec fn sp_hash<Q: ?Sized>(&self, key: &Q) -> u64 { hspec(self.build_hasher, kid(key)) }
    #[verifier::external_body]
    fn hash<Q>(&self, key: &Q) -> (r: u64)
    where
        Rc<K>: Borrow<Q>,
        Q: Hash + Eq + ?Sized,
        ensures r == self.sp_hash(key)
    { unimplemented!() }

    // ---------------- extracted real text ----------------
//@@ FN file=src/unsync/cache.rs owner=Cache name=is_expired_entry_ao tags=C06
    fn is_expired_entry_ao(
        time_to_idle: &Option<Duration>,
        entry: &impl AccessTime,
        now: Instant,
    ) -> /*@+*/(r:/*@-*/ bool/*@+*/)/*@-*/
        requires time_to_idle.is_some() ==> dur_ns(time_to_idle.unwrap()) <= max_dur_ns(), //@ [C08]
        ensures r == (time_to_idle.is_some() && entry.sp_last_accessed().is_some() //@ [C06]
            && entry.sp_last_accessed().unwrap().t() + dur_ns(time_to_idle.unwrap()) <= now.t()), //@ [C06]
    {
        if let (Some(ts), Some(tti)) = (entry.last_accessed(), time_to_idle) {
            let checked_add = ts.checked_add(*tti);
            if checked_add.is_none() {
                panic!("ttl overflow")
            }
            return checked_add.unwrap() <= now;
        }
        false
    }
//@@ END

//@@ FN file=src/unsync/cache.rs owner=Cache name=is_expired_entry_wo tags=C05
    fn is_expired_entry_wo(
        time_to_live: &Option<Duration>,
        entry: &impl AccessTime,
        now: Instant,
    ) -> /*@+*/(r:/*@-*/ bool/*@+*/)/*@-*/
        requires time_to_live.is_some() ==> dur_ns(time_to_live.unwrap()) <= max_dur_ns(), //@ [C08]
        ensures r == (time_to_live.is_some() && entry.sp_last_modified().is_some() //@ [C05]
            && entry.sp_last_modified().unwrap().t() + dur_ns(time_to_live.unwrap()) <= now.t()), //@ [C05]
    {
        if let (Some(ts), Some(ttl)) = (entry.last_modified(), time_to_live) {
            let checked_add = ts.checked_add(*ttl);
            if checked_add.is_none() {
                panic!("ttl overflow")
            }
            return checked_add.unwrap() <= now;
        }
        false
    }
//@@ END

//@@ FN file=src/unsync/cache.rs owner=Cache name=record_hit tags=C12,C06
    fn record_hit(deques: &mut Deques<K>, entry: &mut ValueEntry<K, V>, ts: Option<Instant>)
        requires old(entry).ao().is_some() ==> has_id(old(deques).probation@, old(entry).ao().unwrap()), //@ [C08]
        ensures //@
            final(deques).others_same(old(deques)), final(deques).write_order@ == old(deques).write_order@, //@
            old(entry).ao().is_none() ==> final(deques).probation@ == old(deques).probation@, //@ [C12]
            old(entry).ao().is_some() ==> final(deques).probation@ == moved_to_back(old(deques).probation@, index_of_id(old(deques).probation@, old(entry).ao().unwrap())), //@ [C12,C13]
            final(entry).value == old(entry).value, final(entry).ao() == old(entry).ao(), final(entry).wo() == old(entry).wo(), //@ [C01]
            final(entry).w() == old(entry).w(), final(entry).tm() == old(entry).tm(), //@ [C05,C10]
            final(entry).ta() == (if ts.is_some() && old(entry).ao().is_some() { ts } else { old(entry).ta() }), //@ [C06]
    {
        if let Some(ts) = ts {
            entry.set_last_accessed(ts);
        }
        deques.move_to_back_ao(entry)
    }
//@@ END

//@@ FN file=src/unsync/cache.rs owner=Cache name=contains_key tags=C01,C15
    pub fn contains_key<Q>(&mut self, key: &Q) -> /*@+*/(r:/*@-*/ bool/*@+*/)/*@-*/
    where
        Rc<K>: Borrow<Q>,
        Q: Hash + Eq + ?Sized,
        requires old(self).wf(), old(self).small(), //@
        ensures //@
            final(self).cfg_ok(), final(self).same_cfg(old(self)), //@ [C17]
            final(self).inv_struct(), //@ [C08,C11,C12]
            final(self).inv_ts(), //@ [C05,C06]
            final(self).inv_count(), //@ [C10]
            final(self).inv_weight(), //@ [C10,C03,C04,C12]
            // C15/C14: never feeds the estimator
            final(self).frequency_sketch == old(self).frequency_sketch, //@ [C14,C15]
            // C01/C15/C06: only the housekeeping prefix may have removed entries; survivors identical (value, timestamps, weight)
            forall|k: KeyId| #[trigger] final(self).cache@.contains_key(k) ==> old(self).cache@.contains_key(k) && final(self).cache@[k] == old(self).cache@[k], //@ [C01,C15,C06,C07]
            // C15: the post-state is exactly what the housekeeping prefix leaves behind: no timer, recency or estimator change
            Self::rel_hk(*old(self), *final(self)), //@ [C15,C06,C12,C14]
            // C01/C03/C05/C06/C07: the answer: resident and not expired at this operation's clock reading
            r == old(self).sp_hit(final(self).cache@, kid(key), old(self).sp_ts()) //@ [C01,C03,C05,C06,C07]
    {
        let timestamp = self.evict_expired_if_needed();
        let ghost mid = *self; //@
        self.evict_lru_entries();
        proof { assert(Self::rel_evict_expired(*old(self), mid) && Self::rel_evict_lru(mid, *self)); } //@

        match (self.cache.get(key), timestamp) {
            // Value not found.
            (None, _) => false,
            // Value found, no expiry.
            (Some(_), None) => true,
            // Value found, check if expired.
            (Some(entry), Some(ts)) => {
                !Self::is_expired_entry_wo(&self.time_to_live, entry, ts)
                    && !Self::is_expired_entry_ao(&self.time_to_idle, entry, ts)
            }
        }
    }
//@@ END
//@@ FN file=src/unsync/cache.rs owner=Cache name=get tags=C01,C06,C12
    pub fn get<Q>(&mut self, key: &Q) -> /*@+*/(r:/*@-*/ Option<&V>/*@+*/)/*@-*/
    where
        Rc<K>: Borrow<Q>,
        Q: Hash + Eq + ?Sized,
        requires old(self).wf(), old(self).small(), //@
        ensures //@
            final(self).cfg_ok(), final(self).same_cfg(old(self)), //@ [C17]
            final(self).inv_struct(), //@ [C08,C11,C12]
            final(self).inv_ts(), //@ [C05,C06]
            final(self).inv_count(), //@ [C10]
            final(self).inv_weight(), //@ [C10,C03,C04,C12]
            // C14: exactly one recording, hit or miss
            final(self).frequency_sketch == old(self).frequency_sketch.incremented(old(self).sp_hash(key)), //@ [C14]
            // C01: a hit returns the resident value of that key, unchanged
            match r { //@ [C01]
                Some(v) => final(self).cache@.contains_key(kid(key)) && old(self).cache@.contains_key(kid(key)) //@
                    && *v == old(self).cache@[kid(key)].value && final(self).cache@[kid(key)].value == *v, //@
                None => true, //@
            }, //@
            // the complete effect: the housekeeping prefix, then the lookup: hit iff resident and not expired at this
            // operation's clock reading; a hit refreshes the idle timer and makes the key most recently used, a miss changes nothing
            exists|mid: Self| #[trigger] Self::rel_hk(*old(self), mid) //@ [C14,C04,C15]
                && Self::rel_get(mid, *final(self), kid(key), old(self).sp_ts(), old(self).sp_hash(key), r.is_some()), //@
            // the same, clause by clause (for attribution of a failure to the property it breaks)
            exists|mid: Self| #[trigger] Self::rel_hk(*old(self), mid) && Self::rel_get_answer(mid, kid(key), old(self).sp_ts(), r.is_some()), //@ [C01,C03,C05,C06,C07]
            exists|mid: Self| #[trigger] Self::rel_hk(*old(self), mid) && Self::rel_get_entries(mid, *final(self), kid(key), old(self).sp_ts(), r.is_some()), //@ [C01,C06,C07]
            exists|mid: Self| #[trigger] Self::rel_hk(*old(self), mid) && Self::rel_get_order(mid, *final(self), kid(key), r.is_some()), //@ [C12,C13]
            // nothing but the looked-up key changes, and of that key only the access time
            forall|k: KeyId| #[trigger] final(self).cache@.contains_key(k) ==> old(self).cache@.contains_key(k) //@ [C01,C05,C07,C10]
                && final(self).cache@[k].value == old(self).cache@[k].value && final(self).cache@[k].w() == old(self).cache@[k].w() //@
                && final(self).cache@[k].tm() == old(self).cache@[k].tm() //@
                && (k != kid(key) ==> final(self).cache@[k] == old(self).cache@[k]), //@
            !old(self).sp_has_expiry() ==> (r.is_some() == final(self).cache@.contains_key(kid(key))) //@ [C01,C03]
    {
        let timestamp = self.evict_expired_if_needed();
        let ghost mid0 = *self; //@
        self.evict_lru_entries();
        let ghost mid = *self; //@
        proof { assert(Self::rel_evict_expired(*old(self), mid0) && Self::rel_evict_lru(mid0, mid)); assert(Self::rel_hk(*old(self), mid)); } //@
        self.frequency_sketch.increment(self.hash(key));
        let ghost mid_m = self.cache@; let ghost mid_p = self.deques.probation@; let ghost mid_wo = self.deques.write_order@; let ghost ttl = self.time_to_live.is_some(); //@

        match (self.cache.get_mut(key), timestamp, &mut self.deques) {
            // Value not found.
            (None, _, _) => None,
            // Value found, no expiry.
            (Some(entry), None, deqs) => {
                proof { lemma_pos_of_key(mid_m, mid_p, mid_wo, ttl, kid(key)); lemma_index_of_id(mid_p, pos_of_key(mid_p, kid(key))); } //@
                Self::record_hit(deqs, entry, None);
                proof { //@
                    let i = pos_of_key(mid_p, kid(key)); //@
                    lemma_same_nodes_core(mid_m, mid_p, mid_wo, ttl, kid(key), *entry); //@
                    lemma_moved_core(mid_m.insert(kid(key), *entry), mid_p, mid_wo, ttl, i); //@
                    lemma_wsum_same_weight(mid_p, mid_m, kid(key), *entry); //@
                    lemma_wsum_moved(mid_p, mid_m.insert(kid(key), *entry), i); //@
                } //@
                Some(&entry.value)
            }
            // Value found, check if expired.
            (Some(entry), Some(ts), deqs) => {
                if Self::is_expired_entry_wo(&self.time_to_live, entry, ts)
                    || Self::is_expired_entry_ao(&self.time_to_idle, entry, ts)
                {
                    proof { assert(mid_m.insert(kid(key), *entry) =~= mid_m); } //@
                    None
                } else {
                    proof { lemma_pos_of_key(mid_m, mid_p, mid_wo, ttl, kid(key)); lemma_index_of_id(mid_p, pos_of_key(mid_p, kid(key))); } //@
                    Self::record_hit(deqs, entry, timestamp);
                    proof { //@
                        let i = pos_of_key(mid_p, kid(key)); //@
                        lemma_same_nodes_core(mid_m, mid_p, mid_wo, ttl, kid(key), *entry); //@
                        lemma_moved_core(mid_m.insert(kid(key), *entry), mid_p, mid_wo, ttl, i); //@
                        lemma_wsum_same_weight(mid_p, mid_m, kid(key), *entry); //@
                        lemma_wsum_moved(mid_p, mid_m.insert(kid(key), *entry), i); //@
                    } //@
                    Some(&entry.value)
                }
            }
        }
    }
//@@ END

//@@ FN file=src/unsync/cache.rs owner=Cache name=invalidate tags=C07,C10
    pub fn invalidate<Q>(&mut self, key: &Q)
    where
        Rc<K>: Borrow<Q>,
        Q: Hash + Eq + ?Sized,
        requires old(self).wf(), old(self).small(), //@
        ensures //@
            final(self).cfg_ok(), final(self).same_cfg(old(self)), //@ [C17]
            final(self).inv_struct(), //@ [C08,C11,C12]
            final(self).inv_ts(), //@ [C05,C06]
            final(self).inv_count(), //@ [C10]
            final(self).inv_weight(), //@ [C10,C03,C04,C12]
            final(self).frequency_sketch == old(self).frequency_sketch, //@ [C14]
            // C07: gone ...
            !final(self).cache@.contains_key(kid(key)), //@ [C07,C01]
            // ... and nothing else is touched beyond what the housekeeping prefix removes
            forall|k: KeyId| #[trigger] final(self).cache@.contains_key(k) ==> old(self).cache@.contains_key(k) && final(self).cache@[k] == old(self).cache@[k], //@ [C07,C01]
            final(self).weigher == old(self).weigher, final(self).frequency_sketch_enabled == old(self).frequency_sketch_enabled, //@
            // C07, precise: exactly the entry of this key is taken out of what housekeeping left; the recency order of the others is untouched
            exists|mid: Self| #[trigger] Self::rel_hk(*old(self), mid) && final(self).cache@ =~= mid.cache@.remove(kid(key)), //@ [C07,C01,C03,C04,C15]
            exists|mid: Self| #[trigger] Self::rel_hk(*old(self), mid) //@ [C12,C07,C04,C15]
                && final(self).deques.probation@ == (if mid.cache@.contains_key(kid(key)) { mid.deques.probation@.remove(pos_of_key(mid.deques.probation@, kid(key))) } else { mid.deques.probation@ }), //@
    {
        self.evict_expired_if_needed();
        let ghost mid0 = *self; //@
        self.evict_lru_entries();
        let ghost mid = *self; //@
        proof { assert(Self::rel_evict_expired(*old(self), mid0) && Self::rel_evict_lru(mid0, mid)); assert(Self::rel_hk(*old(self), mid)); } //@

        proof { if self.cache@.contains_key(kid(key)) { //@
            lemma_pos_of_key(self.cache@, self.deques.probation@, self.deques.write_order@, self.time_to_live.is_some(), kid(key)); //@
            lemma_remove_at(self.cache@, self.deques.probation@, self.deques.write_order@, self.time_to_live.is_some(), pos_of_key(self.deques.probation@, kid(key))); //@
            lemma_wsum_nonneg(self.deques.probation@.remove(pos_of_key(self.deques.probation@, kid(key))), self.cache@.remove(kid(key))); //@
        } else { assert(self.cache@.remove(kid(key)) =~= self.cache@); } } //@
        if let Some(mut entry) = self.cache.remove(key) {
            let weight = entry.policy_weight();
            self.deques.unlink_ao(&mut entry);
            Deques::unlink_wo(&mut self.deques.write_order, &mut entry);
            self.saturating_sub_from_total_weight(weight as u64);
            self.entry_count -= 1;
        }
    }
//@@ END

//@@ FN file=src/unsync/cache.rs owner=Cache name=invalidate_all tags=C07,C10
    pub fn invalidate_all(&mut self)
        requires old(self).wf(), //@
        ensures //@
            final(self).cfg_ok(), final(self).same_cfg(old(self)), //@ [C17]
            final(self).inv_struct(), //@ [C08,C11,C12]
            final(self).inv_ts(), //@ [C05,C06]
            final(self).inv_count(), //@ [C10]
            final(self).inv_weight(), //@ [C10,C03,C04,C12]
            final(self).frequency_sketch == old(self).frequency_sketch, //@ [C14]
            final(self).weigher == old(self).weigher, final(self).frequency_sketch_enabled == old(self).frequency_sketch_enabled, //@
            final(self).cache@ == Map::<KeyId, ValueEntry<K, V>>::empty(), //@ [C07,C01]
            final(self).deques.probation@.len() == 0, final(self).deques.write_order@.len() == 0, //@ [C07,C11]
            final(self).entry_count == 0, final(self).weighted_size == 0, //@ [C10,C03]
    {
        self.cache.clear();
        self.deques.clear();
        self.weighted_size = 0;
        self.entry_count = 0;
    }
//@@ END

    // ---------------- invalidate_entries_if: the removal phase under contract, the selection expression ASSUMED ----------------
    /// the user's predicate as a function of key and value (ASSUMED pure, like the weigher: a stateful `FnMut` is outside)
    pub uninterp spec fn pspec<F>(f: F, k: KeyId, v: V) -> bool;
    /// `k` is among the first `n` collected keys
    pub open spec fn in_prefix(ks: Seq<Rc<K>>, n: int, k: KeyId) -> bool { exists|j: int| 0 <= j < n && j < ks.len() && kid_rc(#[trigger] ks[j]) == k }
    /// ASSUMED contract of the selection expression of `invalidate_entries_if`
    /// (`cache.iter().filter(|(key, entry)| (predicate)(key, &entry.value)).map(|(key, _)| Rc::clone(key)).collect::<Vec<_>>()`):
    /// an iterator-adapter chain with pattern closures, which Verus rejects. The extractor replaces exactly that expression
    /// by a call of this function (declared rewrite `absexpr`, tied to the expression's token hash): the chain is NOT verified.
    #[verifier::external_body]
    fn sel_keys<F: FnMut(&K, &V) -> bool>(cache: &CacheStore<K, V, S>, predicate: &mut F) -> (r: Vec<Rc<K>>)
        ensures forall|k: KeyId| #[trigger] Self::in_prefix(r@, r@.len() as int, k) <==> (cache@.contains_key(k) && Self::pspec(*old(predicate), k, cache@[k].value)),
    { unimplemented!() }

//@@ FN file=src/unsync/cache.rs owner=Cache name=invalidate_entries_if tags=C07,C10,C01 rewrites=foreach2for,absexpr:keys_to_invalidate abs=Self::sel_keys(cache, &mut predicate) abs_sha=7688171599c0
    pub fn invalidate_entries_if(&mut self, mut predicate: impl FnMut(&K, &V) -> bool)
        requires old(self).wf(), old(self).small(), //@
        ensures //@
            final(self).cfg_ok(), final(self).same_cfg(old(self)), //@ [C17]
            final(self).inv_struct(), //@ [C08,C11,C12]
            final(self).inv_ts(), //@ [C05,C06]
            final(self).inv_count(), //@ [C10]
            final(self).inv_weight(), //@ [C10,C03,C04,C12]
            final(self).frequency_sketch == old(self).frequency_sketch, final(self).frequency_sketch_enabled == old(self).frequency_sketch_enabled, final(self).weigher == old(self).weigher, //@ [C14,C15]
            // C07: immediate and precise: exactly the entries the predicate holds for are gone (no housekeeping here) ...
            forall|k: KeyId| #[trigger] final(self).cache@.contains_key(k) <==> (old(self).cache@.contains_key(k) && !Self::pspec(predicate, k, old(self).cache@[k].value)), //@ [C07,C01,C03]
            // ... and every other entry is untouched: value, stamps, weight, recency order
            forall|k: KeyId| #[trigger] final(self).cache@.contains_key(k) ==> final(self).cache@[k] == old(self).cache@[k], //@ [C07,C01,C03,C06]
            ord_pres(old(self).deques.probation@, final(self).deques.probation@), //@ [C12,C07]
    {
        let ghost m0 = self.cache@; let ghost p0 = self.deques.probation@; let ghost ttl = self.time_to_live.is_some(); let ghost hx = self.sp_has_expiry(); //@
        let ghost pred0 = predicate; //@
        proof { lemma_wsum_bound(p0, m0); lemma_wsum_nonneg(p0, m0); lemma_ord_refl(p0); } //@
        let Self { cache, deques, .. } = self;

        // Since we can't do cache.iter() and cache.remove() at the same time,
        // invalidation needs to run in two steps:
        // 1. Examine all entries in this cache and collect keys to invalidate.
        // 2. Remove entries for the keys.

        let keys_to_invalidate = Self::sel_keys(cache, &mut predicate);
        let ghost ks = keys_to_invalidate@; //@

        let mut invalidated = 0u64;
        let mut invalidated_count = 0u64;

        for k in /*@+*/it:/*@-*/ keys_to_invalidate
            invariant //@
                it.snapshot@.remaining() == ks, it.index@ <= ks.len(), //@
                deques.window@.len() == 0 && deques.protected@.len() == 0, //@
                core_wf(cache@, deques.probation@, deques.write_order@, ttl), //@ [C08,C11,C12]
                ts_wf(cache@, hx, ttl), //@ [C05,C06]
                forall|k2: KeyId| #[trigger] cache@.contains_key(k2) ==> m0.contains_key(k2) && cache@[k2] == m0[k2], //@ [C07,C01]
                forall|k2: KeyId| m0.contains_key(k2) ==> (#[trigger] cache@.contains_key(k2) <==> !Self::in_prefix(ks, it.index@, k2)), //@ [C07]
                invalidated_count == p0.len() - deques.probation@.len(), //@ [C10]
                invalidated == wsum(p0, m0) - wsum(deques.probation@, cache@), //@ [C10,C03,C04]
                wsum(deques.probation@, cache@) >= 0, wsum(p0, m0) <= p0.len() * 0xFFFF_FFFF, p0.len() < 0xFFFF_FFFF, //@
                ord_pres(p0, deques.probation@), //@ [C12]
        {
            proof { //@
                let m = cache@; let p = deques.probation@; let wo = deques.write_order@; let j = it.index@; //@
                let kk = kid_rc(k); //@
                assert(ks[j] == k); //@
                assert forall|k2: KeyId| Self::in_prefix(ks, j + 1, k2) <==> (Self::in_prefix(ks, j, k2) || k2 == kk) by { //@
                    if Self::in_prefix(ks, j + 1, k2) { let w = choose|w: int| 0 <= w < j + 1 && w < ks.len() && kid_rc(#[trigger] ks[w]) == k2; if w < j { assert(kid_rc(ks[w]) == k2); } } //@
                    if Self::in_prefix(ks, j, k2) { let w = choose|w: int| 0 <= w < j && w < ks.len() && kid_rc(#[trigger] ks[w]) == k2; assert(kid_rc(ks[w]) == k2 && w < j + 1); } //@
                    if k2 == kk { assert(kid_rc(ks[j]) == k2); } //@
                } //@
                if m.contains_key(kk) { //@
                    lemma_pos_of_key(m, p, wo, ttl, kk); //@
                    let i = pos_of_key(p, kk); //@
                    lemma_remove_at(m, p, wo, ttl, i); //@
                    lemma_wsum_nonneg(p.remove(i), m.remove(kk)); //@
                    lemma_ord_remove(p, i); lemma_ord_trans(p0, p, p.remove(i)); //@
                } else { assert(m.remove(kk) =~= m); } //@
            } //@
            if let Some(mut entry) = cache.remove(&k) {
                let weight = entry.policy_weight();
                deques.unlink_ao(&mut entry);
                Deques::unlink_wo(&mut deques.write_order, &mut entry);
                invalidated = invalidated.saturating_add(weight as u64);
                invalidated_count += 1;
            }
        }
        proof { lemma_wsum_nonneg(self.deques.probation@, self.cache@); } //@
        self.entry_count -= invalidated_count;
        self.saturating_sub_from_total_weight(invalidated);
    }
//@@ END

//@@ FN file=src/unsync/cache.rs owner=Cache name=saturating_add_to_total_weight tags=C10
    fn saturating_add_to_total_weight(&mut self, weight: u64)
        ensures final(self).weighted_size == if old(self).weighted_size + weight <= u64::MAX { (old(self).weighted_size + weight) as u64 } else { u64::MAX }, //@ [C10,C04]
            final(self).same_cfg(old(self)), final(self).entry_count == old(self).entry_count, //@
            final(self).cache == old(self).cache, final(self).deques == old(self).deques, //@
            final(self).frequency_sketch_enabled == old(self).frequency_sketch_enabled, final(self).frequency_sketch == old(self).frequency_sketch, final(self).weigher == old(self).weigher, //@
    {
        let total = &mut self.weighted_size;
        *total = total.saturating_add(weight);
    }
//@@ END

//@@ FN file=src/unsync/cache.rs owner=Cache name=saturating_sub_from_total_weight tags=C10
    fn saturating_sub_from_total_weight(&mut self, weight: u64)
        ensures final(self).weighted_size == if old(self).weighted_size >= weight { (old(self).weighted_size - weight) as u64 } else { 0 }, //@ [C10,C03]
            final(self).same_cfg(old(self)), final(self).entry_count == old(self).entry_count, //@
            final(self).cache == old(self).cache, final(self).deques == old(self).deques, //@
            final(self).frequency_sketch_enabled == old(self).frequency_sketch_enabled, final(self).frequency_sketch == old(self).frequency_sketch, final(self).weigher == old(self).weigher, //@
    {
        let total = &mut self.weighted_size;
        *total = total.saturating_sub(weight);
    }
//@@ END

    pub open spec fn small(&self) -> bool { self.deques.probation@.len() < 0xFFFF_FFFF }

//@@ FN file=src/unsync/cache.rs owner=Cache name=handle_update tags=C01,C10,C12
    fn handle_update(
        &mut self,
        key: Rc<K>,
        timestamp: Option<Instant>,
        policy_weight: u32,
        old_entry: ValueEntry<K, V>,
    )
        requires //@
            old(self).cfg_ok(), old(self).small(), //@
            old(self).deques.window@.len() == 0 && old(self).deques.protected@.len() == 0, //@
            old(self).cache@.contains_key(kid_rc(key)), //@
            old(self).cache@[kid_rc(key)].ao().is_none(), old(self).cache@[kid_rc(key)].wo().is_none(), //@
            // putting the replaced entry back yields a well-formed cache
            core_wf(old(self).cache@.insert(kid_rc(key), old_entry), old(self).deques.probation@, old(self).deques.write_order@, old(self).time_to_live.is_some()), //@
            ts_wf(old(self).cache@.insert(kid_rc(key), old_entry), old(self).sp_has_expiry(), old(self).time_to_live.is_some()), //@
            old(self).entry_count == old(self).deques.probation@.len(), //@
            old(self).weighted_size == wsum(old(self).deques.probation@, old(self).cache@.insert(kid_rc(key), old_entry)), //@
            timestamp.is_some() == old(self).sp_has_expiry(), //@
        ensures //@
            final(self).cfg_ok(), final(self).same_cfg(old(self)), //@ [C17]
            final(self).inv_struct(), //@ [C08,C11,C12]
            final(self).inv_ts(), //@ [C05,C06]
            final(self).inv_count(), //@ [C10]
            final(self).inv_weight(), //@ [C10,C03,C04,C12]
            final(self).frequency_sketch == old(self).frequency_sketch, final(self).frequency_sketch_enabled == old(self).frequency_sketch_enabled, //@ [C14]
            final(self).weigher == old(self).weigher, //@
            final(self).cache@.dom() == old(self).cache@.dom(), //@ [C01,C03,C07]
            forall|k: KeyId| #[trigger] final(self).cache@.contains_key(k) && k != kid_rc(key) ==> final(self).cache@[k] == old(self).cache@[k], //@ [C01,C07]
            final(self).cache@[kid_rc(key)].value == old(self).cache@[kid_rc(key)].value, //@ [C01]
            final(self).cache@[kid_rc(key)].w() == policy_weight, //@ [C10,C04]
            // C05 / C06: the update restarts both timers
            old(self).sp_has_expiry() ==> final(self).cache@[kid_rc(key)].ta() == timestamp, //@ [C06,C03]
            old(self).time_to_live.is_some() ==> final(self).cache@[kid_rc(key)].tm() == timestamp, //@ [C05,C03]
            // C12: the updated key becomes most recently used, nothing else moves
            final(self).deques.probation@ == moved_to_back(old(self).deques.probation@, pos_of_key(old(self).deques.probation@, kid_rc(key))), //@ [C12,C13]
            // C04/C10: weight bookkeeping
            final(self).weighted_size == old(self).weighted_size - old_entry.w() + policy_weight, //@ [C10,C04]
    {
        let ghost k = kid_rc(key); //@
        let ghost m_old = self.cache@.insert(k, old_entry); //@
        let ghost p0 = self.deques.probation@; let ghost wo0 = self.deques.write_order@; let ghost ttl = self.time_to_live.is_some(); //@
        proof { //@
            lemma_pos_of_key(m_old, p0, wo0, ttl, k); //@
            lemma_index_of_id(p0, pos_of_key(p0, k)); //@
            if ttl { lemma_index_of_id(wo0, pos_of_key(wo0, k)); } //@
        } //@
        let old_policy_weight = old_entry.policy_weight();

        let entry = self.cache.get_mut(&key).unwrap();
        entry.replace_deq_nodes_with(old_entry);
        if let Some(ts) = timestamp {
            entry.set_last_accessed(ts);
            entry.set_last_modified(ts);
        }
        entry.set_policy_weight(policy_weight);

        let deqs = &mut self.deques;
        deqs.move_to_back_ao(entry);
        if self.time_to_live.is_some() {
            deqs.move_to_back_wo(entry);
        }
        proof { //@
            let e2 = *entry; //@
            let i = pos_of_key(p0, k); //@
            lemma_same_nodes_core(m_old, p0, wo0, ttl, k, e2); //@
            let m2 = m_old.insert(k, e2); //@
            lemma_moved_core(m2, p0, wo0, ttl, i); //@
            if ttl { lemma_moved_core_wo(m2, moved_to_back(p0, i), wo0, ttl, pos_of_key(wo0, k)); } //@
            lemma_wsum_reweigh(p0, m_old, i, e2); //@
            lemma_wsum_moved(p0, m2, i); //@
            lemma_wsum_bound(p0, m_old); //@
            lemma_wsum_nonneg(p0.remove(i), m_old); //@
            lemma_wsum_remove(p0, m_old, i); //@
            assert(m2 =~= old(self).cache@.insert(k, e2)); //@
        } //@

        self.saturating_sub_from_total_weight(old_policy_weight as u64);
        self.saturating_add_to_total_weight(policy_weight as u64);
    }
//@@ END

//@@ FN file=src/unsync/cache.rs owner=Cache name=admit tags=C13,C12
    fn admit(
        candidate: &EntrySizeAndFrequency,
        cache: &CacheStore<K, V, S>,
        deqs: &Deques<K>,
        freq: &FrequencySketch,
        weigher: &mut Option<Weigher<K, V>>,
    ) -> /*@+*/(r:/*@-*/ AdmissionResult<K>/*@+*/)/*@-*/
        requires //@
            candidate.weight <= u32::MAX, candidate.freq <= 15, //@
            forall|i: int| 0 <= i < deqs.probation@.len() ==> cache@.contains_key(#[trigger] deqs.probation@[i].key) //@
                && cache@[deqs.probation@[i].key].w() == wspec(*old(weigher), deqs.probation@[i].key, cache@[deqs.probation@[i].key].value), //@
        ensures //@
            *final(weigher) == *old(weigher), //@ [C13]
            // C13, as the property states it: admitted iff the shortest sufficient LRU prefix exists and is strictly less popular
            (r is Admitted) <==> spec_admit(candidate.weight as int, candidate.freq as int, deqs.probation@, cache@, *freq), //@ [C13]
            // C12: the victims are exactly that prefix
            match r { //@ [C12,C13]
                AdmissionResult::Admitted { victim_nodes, victims_weight } => //@
                    least_prefix(deqs.probation@, cache@, candidate.weight as int, 0) == Some(victim_nodes.v@.len() as int), //@
                AdmissionResult::Rejected => true, //@
            }, //@
            // the same, clause by clause (what the caller's bookkeeping relies on)
            match r { //@ [C08,C12]
                AdmissionResult::Admitted { victim_nodes, victims_weight } => 0 <= victim_nodes.v@.len() <= deqs.probation@.len(), //@
                AdmissionResult::Rejected => true, //@
            }, //@
            // C10/C03/C04: the reported weight is exactly the weight of the victims
            match r { //@ [C10,C03,C04]
                AdmissionResult::Admitted { victim_nodes, victims_weight } => wsum(deqs.probation@.take(victim_nodes.v@.len() as int), cache@) == victims_weight, //@
                AdmissionResult::Rejected => true, //@
            }, //@
            // C04: at least the candidate's weight is freed
            match r { //@ [C04,C13]
                AdmissionResult::Admitted { victim_nodes, victims_weight } => victims_weight >= candidate.weight, //@
                AdmissionResult::Rejected => true, //@
            }, //@
            // C12: no shorter prefix would do
            match r { //@ [C12,C13]
                AdmissionResult::Admitted { victim_nodes, victims_weight } => //@
                    victim_nodes.v@.len() > 0 ==> wsum(deqs.probation@.take(victim_nodes.v@.len() - 1), cache@) < candidate.weight, //@
                AdmissionResult::Rejected => true, //@
            }, //@
            // C13: strictly more popular than the victims together
            match r { //@ [C13]
                AdmissionResult::Admitted { victim_nodes, victims_weight } => candidate.freq > fsum(deqs.probation@.take(victim_nodes.v@.len() as int), *freq), //@
                AdmissionResult::Rejected => true, //@
            }, //@
            // C12/C11: the node pointers handed back are exactly the nodes of that prefix, in order
            match r { //@ [C12,C11,C08]
                AdmissionResult::Admitted { victim_nodes, victims_weight } => //@
                    ptr_ids(victim_nodes.v@) == deqs.probation@.take(victim_nodes.v@.len() as int).map_values(|x: N| x.id), //@
                AdmissionResult::Rejected => true, //@
            } //@
    {
        let mut victims = EntrySizeAndFrequency::default();
        let mut victim_nodes = SmallVec::default();

        // Get first potential victim at the LRU position.
        let mut next_victim = deqs.probation.peek_front_ptr();

        // Aggregate potential victims.
        proof { axiom_frozen(&deqs.probation); } //@
        while victims.weight < candidate.weight
            invariant //@
                candidate.weight <= u32::MAX, candidate.freq <= 15, //@
                0 <= victim_nodes.v@.len() <= deqs.probation@.len(), //@
                ptr_ids(victim_nodes.v@) == deqs.probation@.take(victim_nodes.v@.len() as int).map_values(|x: N| x.id), //@ [C12]
                match next_victim { Some(q) => victim_nodes.v@.len() < deqs.probation@.len() && nid(q) == deqs.probation@[victim_nodes.v@.len() as int].id, None => victim_nodes.v@.len() == deqs.probation@.len() }, //@
                victims.weight == wsum(deqs.probation@.take(victim_nodes.v@.len() as int), cache@), //@ [C13,C04]
                victims.freq == fsum(deqs.probation@.take(victim_nodes.v@.len() as int), *freq), //@ [C13]
                victims.freq <= 30, //@
                victim_nodes.v@.len() > 0 ==> wsum(deqs.probation@.take(victim_nodes.v@.len() - 1), cache@) < candidate.weight, //@ [C12,C13]
                *weigher == *old(weigher), //@
                forall|i: int| 0 <= i < deqs.probation@.len() ==> cache@.contains_key(#[trigger] deqs.probation@[i].key) //@
                    && cache@[deqs.probation@[i].key].w() == wspec(*old(weigher), deqs.probation@[i].key, cache@[deqs.probation@[i].key].value), //@
                frozen::<K>(deqs.probation@), //@
            ensures //@
                victims.weight >= candidate.weight || candidate.freq <= victims.freq || victim_nodes.v@.len() == deqs.probation@.len(), //@ [C13]
            decreases deqs.probation@.len() - victim_nodes.v@.len(), //@ [C08]
        {
            if candidate.freq < victims.freq {
                break;
            }
            if let Some(victim) = next_victim.take() {
                next_victim = DeqNode::next_node_ptr(victim);
                let vic_elem = &unsafe { victim.as_ref() }.element;

                let vic_entry = cache
                    .get(&vic_elem.key)
                    .expect("Cannot get an victim entry");
                victims.add_policy_weight(vic_elem.key.as_ref(), &vic_entry.value, weigher);
                victims.add_frequency(freq, vic_elem.hash);
                victim_nodes.push(victim);
                proof { //@
                    let n = victim_nodes.v@.len() as int; //@
                    let p = deqs.probation@; //@
                    assert(p.take(n).drop_last() =~= p.take(n - 1)); //@
                    assert(p.take(n).last() == p[n - 1]); //@
                    assert forall|i: int| 0 <= i < n implies ptr_ids(victim_nodes.v@)[i] == p.take(n).map_values(|x: N| x.id)[i] by { //@
                        if i < n - 1 { //@
                            assert(ptr_ids(victim_nodes.v@)[i] == ptr_ids(victim_nodes.v@.drop_last())[i]); //@
                            assert(p.take(n - 1).map_values(|x: N| x.id)[i] == p[i].id); //@
                        } //@
                    } //@
                    assert(ptr_ids(victim_nodes.v@) =~= p.take(n).map_values(|x: N| x.id)); //@
                } //@
            } else {
                // No more potential victims.
                break;
            }
        }

        // Admit or reject the candidate.

        // TODO: Implement some randomness to mitigate hash DoS attack.
        // See Caffeine's implementation.

        proof { //@
            let p = deqs.probation@; let m = cache@; let n = victim_nodes.v@.len() as int; let cw = candidate.weight as int; //@
            assert forall|i: int| 0 <= i < n implies wsum(#[trigger] p.take(i), m) < cw by { lemma_wsum_take_mono(p, m, i, n - 1); } //@
            lemma_least_prefix(p, m, cw, 0); //@
            if victims.weight >= candidate.weight { //@
                assert(least_prefix(p, m, cw, 0) == Some(n)) by { //@
                    let l = least_prefix(p, m, cw, 0); //@
                    if l is Some { let ln = l.unwrap(); if ln < n { } else if ln > n { assert(wsum(p.take(n), m) < cw); } } //@
                } //@
            } else { //@
                match least_prefix(p, m, cw, 0) { //@
                    Some(ln) => { //@
                        if ln <= n { lemma_wsum_take_mono(p, m, ln, n); } //@
                        lemma_fsum_take_mono(p, *freq, n, ln); //@
                        if n == p.len() { lemma_wsum_take_mono(p, m, ln, n); } //@
                    }, //@
                    None => {}, //@
                } //@
            } //@
        } //@
        if victims.weight >= candidate.weight && candidate.freq > victims.freq {
            AdmissionResult::Admitted {
                victim_nodes,
                victims_weight: victims.weight,
            }
        } else {
            AdmissionResult::Rejected
        }
    }
//@@ END

//@@ FN file=src/unsync/cache.rs owner=Cache name=has_enough_capacity tags=C03
    fn has_enough_capacity(&self, candidate_weight: u32, ws: u64) -> /*@+*/(r:/*@-*/ bool/*@+*/)/*@-*/
        requires ws + candidate_weight <= u64::MAX, //@ [C08]
        ensures r == match self.max_capacity { Some(limit) => ws + candidate_weight <= limit, None => true }, //@ [C03,C04,C17]
    {
        self.max_capacity
            .map(|limit| /*@+*/-> (b: bool) ensures b == (ws + candidate_weight <= limit) {/*@-*/ ws + candidate_weight as u64 <= limit /*@+*/}/*@-*/)
            .unwrap_or(true)
    }
//@@ END

//@@ FN file=src/unsync/cache.rs owner=Cache name=should_enable_frequency_sketch tags=C14
    fn should_enable_frequency_sketch(&self) -> /*@+*/(r:/*@-*/ bool/*@+*/)/*@-*/
        // once, when a bounded cache is half full
        ensures r == (!self.frequency_sketch_enabled && self.max_capacity.is_some() && self.weighted_size >= self.max_capacity.unwrap() / 2) //@ [C13,C14]
    {
        if self.frequency_sketch_enabled {
            false
        } else if let Some(max_cap) = self.max_capacity {
            self.weighted_size >= max_cap / 2
        } else {
            false
        }
    }
//@@ END

    /// only the estimator (resized, never a recording) and its flag may change
    pub open spec fn rel_sketch_resized(pre: Self, post: Self) -> bool {
        &&& post.same_cfg(&pre) && post.cache == pre.cache && post.deques == pre.deques
        &&& post.entry_count == pre.entry_count && post.weighted_size == pre.weighted_size && post.weigher == pre.weigher
        &&& (post.frequency_sketch == pre.frequency_sketch || exists|cap: u32| post.frequency_sketch == #[trigger] pre.frequency_sketch.ensured(cap))
    }
//@@ FN file=src/unsync/cache.rs owner=Cache name=enable_frequency_sketch tags=C14
    fn enable_frequency_sketch(&mut self)
        ensures Self::rel_sketch_resized(*old(self), *final(self)) //@ [C14]
    {
        if let Some(max_cap) = self.max_capacity {
            let cap = if self.weigher.is_none() {
                max_cap
            } else {
                (self.entry_count as f64 * (self.weighted_size as f64 / max_cap as f64)) as u64
            };
            self.do_enable_frequency_sketch(cap);
        }
    }
//@@ END

//@@ FN file=src/unsync/cache.rs owner=Cache name=do_enable_frequency_sketch tags=C14
    fn do_enable_frequency_sketch(&mut self, cache_capacity: u64)
        ensures Self::rel_sketch_resized(*old(self), *final(self)), //@ [C14]
            final(self).frequency_sketch_enabled //@ [C13]
    {
        let skt_capacity = common::sketch_capacity(cache_capacity);
        self.frequency_sketch.ensure_capacity(skt_capacity);
        self.frequency_sketch_enabled = true;
    }
//@@ END

    /// C03: the free-space test of the property statement ("weight fits in the remaining capacity")
    pub open spec fn sp_fits(&self, w: u32) -> bool { match self.max_capacity { Some(l) => self.weighted_size + w <= l, None => true } }
    /// C04: heavier than the whole cache
    pub open spec fn sp_oversize(&self, w: u32) -> bool { self.max_capacity.is_some() && w > self.max_capacity.unwrap() }
    /// key k was added as the most recently used entry after exactly the first n (least recently used) residents were removed
    pub open spec fn rel_added(pre_m: Map<KeyId, ValueEntry<K, V>>, pre_p: Seq<N>, pre_ws: int, post: Self, k: KeyId, w: u32, hash: u64, n: int) -> bool {
        &&& post.cache@.contains_key(k)
        &&& post.cache@ =~= rem(pre_m, pre_p, n).insert(k, post.cache@[k])
        &&& post.deques.probation@.len() == pre_p.len() - n + 1
        &&& post.deques.probation@.drop_last() =~= pre_p.skip(n)
        &&& post.deques.probation@.last().key == k && post.deques.probation@.last().hash == hash
        &&& post.weighted_size == pre_ws - wsum(pre_p.take(n), pre_m) + w
    }
    /// no resident was touched
    pub open spec fn rel_untouched(pre_m: Map<KeyId, ValueEntry<K, V>>, pre_p: Seq<N>, pre_wo: Seq<N>, pre_ws: int, post: Self) -> bool {
        post.cache@ =~= pre_m && post.deques.probation@ =~= pre_p && post.deques.write_order@ =~= pre_wo && post.weighted_size == pre_ws
    }

    /// an existing key was rebound: same residents, the key becomes most recently used, weight bookkeeping by difference
    pub open spec fn rel_updated(mid: Self, post: Self, k: KeyId, w: u32) -> bool {
        &&& post.cache@.dom() =~= mid.cache@.dom()
        &&& forall|k2: KeyId| k2 != k && #[trigger] mid.cache@.contains_key(k2) ==> post.cache@[k2] == mid.cache@[k2]
        &&& post.deques.probation@ == moved_to_back(mid.deques.probation@, pos_of_key(mid.deques.probation@, k))
        &&& post.weighted_size == mid.weighted_size - mid.cache@[k].w() + w
    }
    /// the new binding itself (C01, C05, C06, C10)
    pub open spec fn rel_bound(mid: Self, post: Self, k: KeyId, v: V, w: u32, ts: Option<Instant>) -> bool {
        post.cache@.contains_key(k) ==> post.cache@[k].value == v && post.cache@[k].w() == w
            && (mid.sp_has_expiry() ==> post.cache@[k].ta() == ts) && (mid.time_to_live.is_some() ==> post.cache@[k].tm() == ts)
    }
    /// which of the cases of the property statements applies to an insert of weight w into the state left by housekeeping
    pub open spec fn case_update(mid: Self, k: KeyId) -> bool { mid.cache@.contains_key(k) }
    pub open spec fn case_fits(mid: Self, k: KeyId, w: u32) -> bool { !mid.cache@.contains_key(k) && mid.sp_fits(w) }
    pub open spec fn case_oversize(mid: Self, k: KeyId, w: u32) -> bool { !mid.cache@.contains_key(k) && !mid.sp_fits(w) && mid.sp_oversize(w) }
    pub open spec fn case_admitted(mid: Self, k: KeyId, w: u32, hash: u64) -> bool {
        !mid.cache@.contains_key(k) && !mid.sp_fits(w) && !mid.sp_oversize(w)
            && spec_admit(w as int, mid.frequency_sketch.freq(hash) as int, mid.deques.probation@, mid.cache@, mid.frequency_sketch)
    }
    pub open spec fn case_rejected(mid: Self, k: KeyId, w: u32, hash: u64) -> bool {
        !mid.cache@.contains_key(k) && !mid.sp_fits(w) && !mid.sp_oversize(w)
            && !spec_admit(w as int, mid.frequency_sketch.freq(hash) as int, mid.deques.probation@, mid.cache@, mid.frequency_sketch)
    }
    /// the complete effect of the insert proper on the state `mid` left by housekeeping
    pub open spec fn rel_insert(mid: Self, post: Self, k: KeyId, v: V, w: u32, ts: Option<Instant>, hash: u64) -> bool {
        &&& post.wf() && post.same_cfg(&mid) && post.weigher == mid.weigher
        &&& (post.frequency_sketch == mid.frequency_sketch || exists|cap: u32| post.frequency_sketch == #[trigger] mid.frequency_sketch.ensured(cap))
        &&& Self::rel_bound(mid, post, k, v, w, ts)
        &&& (Self::case_update(mid, k) ==> Self::rel_updated(mid, post, k, w))
        &&& (Self::case_fits(mid, k, w) ==> Self::rel_added(mid.cache@, mid.deques.probation@, mid.weighted_size as int, post, k, w, hash, 0))
        &&& (Self::case_oversize(mid, k, w) ==> Self::rel_untouched(mid.cache@, mid.deques.probation@, mid.deques.write_order@, mid.weighted_size as int, post))
        &&& (Self::case_admitted(mid, k, w, hash) ==> Self::rel_added(mid.cache@, mid.deques.probation@, mid.weighted_size as int, post, k, w, hash,
                least_prefix(mid.deques.probation@, mid.cache@, w as int, 0).unwrap()))
        &&& (Self::case_rejected(mid, k, w, hash) ==> Self::rel_untouched(mid.cache@, mid.deques.probation@, mid.deques.write_order@, mid.weighted_size as int, post))
    }

    /// state in the middle of `insert`: the candidate sits in the map without list nodes
    pub open spec fn wf_except(&self, k: KeyId) -> bool {
        &&& self.cfg_ok() && self.small()
        &&& self.deques.window@.len() == 0 && self.deques.protected@.len() == 0
        &&& self.cache@.contains_key(k) && self.cache@[k].ao().is_none() && self.cache@[k].wo().is_none()
        &&& core_wf(self.cache@.remove(k), self.deques.probation@, self.deques.write_order@, self.time_to_live.is_some())
        &&& ts_wf(self.cache@.remove(k), self.sp_has_expiry(), self.time_to_live.is_some())
        &&& self.entry_count == self.deques.probation@.len()
        &&& self.weighted_size == wsum(self.deques.probation@, self.cache@.remove(k))
    }

//@@ FN file=src/unsync/cache.rs owner=Cache name=handle_insert tags=C01,C03,C10,C13
    fn handle_insert(
        &mut self,
        key: Rc<K>,
        hash: u64,
        policy_weight: u32,
        timestamp: Option<Instant>,
    )
        requires //@
            old(self).wf_except(kid_rc(key)), //@
            old(self).cache@[kid_rc(key)].w() == policy_weight, //@
            w_wf(old(self).cache@.remove(kid_rc(key)), old(self).weigher), //@
            timestamp.is_some() == old(self).sp_has_expiry(), //@
        ensures //@
            final(self).cfg_ok(), final(self).same_cfg(old(self)), //@ [C17]
            final(self).inv_struct(), //@ [C08,C11,C12]
            final(self).inv_ts(), //@ [C05,C06]
            final(self).inv_count(), //@ [C10]
            final(self).inv_weight(), //@ [C10,C03,C04,C12]
            // the candidate, if retained, keeps its value and weight and gets fresh timestamps (C01, C05, C06)
            final(self).cache@.contains_key(kid_rc(key)) ==> { //@ [C01,C05,C06,C10,C03]
                &&& final(self).cache@[kid_rc(key)].value == old(self).cache@[kid_rc(key)].value //@
                &&& final(self).cache@[kid_rc(key)].w() == policy_weight //@
                &&& (old(self).sp_has_expiry() ==> final(self).cache@[kid_rc(key)].ta() == timestamp) //@
                &&& (old(self).time_to_live.is_some() ==> final(self).cache@[kid_rc(key)].tm() == timestamp) //@
            }, //@
            // residents are removed or untouched, never altered (C01)
            forall|k: KeyId| #[trigger] final(self).cache@.contains_key(k) && k != kid_rc(key) ==> old(self).cache@.contains_key(k) && final(self).cache@[k] == old(self).cache@[k], //@ [C01,C07,C13]
            // C03: with room, the candidate is kept and nothing is evicted
            (match old(self).max_capacity { Some(limit) => old(self).weighted_size + policy_weight <= limit, None => true }) ==> { //@ [C03,C17,C12]
                &&& final(self).cache@.dom() == old(self).cache@.dom() //@
                &&& final(self).deques.probation@.len() == old(self).deques.probation@.len() + 1 //@
                &&& final(self).deques.probation@.take(old(self).deques.probation@.len() as int) == old(self).deques.probation@ //@
                &&& final(self).weighted_size == old(self).weighted_size + policy_weight //@
            }, //@
            // C04: an oversized newcomer is never retained, and the total never grows past max(old, cap)
            old(self).max_capacity.is_some() && policy_weight > old(self).max_capacity.unwrap() ==> !final(self).cache@.contains_key(kid_rc(key)), //@ [C04]
            old(self).max_capacity.is_some() ==> final(self).weighted_size <= old(self).weighted_size || final(self).weighted_size <= old(self).max_capacity.unwrap(), //@ [C04]
            // ---- the complete case analysis of the property statements (C03, C04, C12, C13) ----
            // C03: it fits: added as most recently used, nobody removed
            old(self).sp_fits(policy_weight) ==> //@ [C03,C12,C17]
                Self::rel_added(old(self).cache@, old(self).deques.probation@, old(self).weighted_size as int, *final(self), kid_rc(key), policy_weight, hash, 0), //@
            // C04: heavier than the whole cache: rejected, no resident touched
            !old(self).sp_fits(policy_weight) && old(self).sp_oversize(policy_weight) ==> //@ [C04,C13]
                Self::rel_untouched(old(self).cache@.remove(kid_rc(key)), old(self).deques.probation@, old(self).deques.write_order@, old(self).weighted_size as int, *final(self)), //@
            // C12/C13: no room: admitted iff strictly more popular than the shortest sufficient LRU prefix, which is then exactly what goes
            !old(self).sp_fits(policy_weight) && !old(self).sp_oversize(policy_weight) //@ [C12,C13]
                && spec_admit(policy_weight as int, old(self).frequency_sketch.freq(hash) as int, old(self).deques.probation@, old(self).cache@, old(self).frequency_sketch) ==> //@
                Self::rel_added(old(self).cache@, old(self).deques.probation@, old(self).weighted_size as int, *final(self), kid_rc(key), policy_weight, hash, //@
                    least_prefix(old(self).deques.probation@, old(self).cache@, policy_weight as int, 0).unwrap()), //@
            // C13: otherwise rejected and no resident is touched
            !old(self).sp_fits(policy_weight) && !old(self).sp_oversize(policy_weight) //@ [C13]
                && !spec_admit(policy_weight as int, old(self).frequency_sketch.freq(hash) as int, old(self).deques.probation@, old(self).cache@, old(self).frequency_sketch) ==> //@
                Self::rel_untouched(old(self).cache@.remove(kid_rc(key)), old(self).deques.probation@, old(self).deques.write_order@, old(self).weighted_size as int, *final(self)), //@
            // C14: an insert never records; it may only (re)size the estimator
            final(self).frequency_sketch == old(self).frequency_sketch || exists|cap: u32| final(self).frequency_sketch == #[trigger] old(self).frequency_sketch.ensured(cap), //@ [C14]
            final(self).weigher == old(self).weigher, //@
    {
        let ghost k = kid_rc(key); //@
        let ghost m0 = self.cache@; let ghost p0 = self.deques.probation@; let ghost wo0 = self.deques.write_order@; let ghost ttl = self.time_to_live.is_some(); //@
        proof { lemma_wsum_bound(p0, m0.remove(k)); lemma_wsum_nonneg(p0, m0.remove(k)); axiom_frozen(&self.deques.probation); } //@
        let has_free_space = self.has_enough_capacity(policy_weight, self.weighted_size);
        let (cache, deqs, freq) = (&mut self.cache, &mut self.deques, &self.frequency_sketch);

        if has_free_space {
            // Add the candidate to the deque.
            let key = Rc::clone(&key);
            let entry = cache.get_mut(&key).unwrap();
            deqs.push_back_ao(
                CacheRegion::MainProbation,
                KeyHashDate::new(Rc::clone(&key), hash, timestamp),
                entry,
            );
            if self.time_to_live.is_some() {
                deqs.push_back_wo(KeyDate::new(key, timestamp), entry);
            }
            proof { //@
                lemma_push_new(m0, p0, wo0, ttl, k, *entry, hash); //@
                assert(m0.insert(k, *entry).dom() =~= m0.dom()); //@
                assert(deqs.probation@.take(p0.len() as int) =~= p0); //@
            } //@
            self.entry_count += 1;
            self.saturating_add_to_total_weight(policy_weight as u64);

            if self.should_enable_frequency_sketch() {
                self.enable_frequency_sketch();
            }

            return;
        }

        if let Some(max) = self.max_capacity {
            if policy_weight as u64 > max {
                // The candidate is too big to fit in the cache. Reject it.
                cache.remove(&Rc::clone(&key));
                return;
            }
        }

        let mut candidate = EntrySizeAndFrequency::new(policy_weight as u64);
        candidate.add_frequency(freq, hash);

        match Self::admit(&candidate, cache, deqs, freq, &mut self.weigher) {
            AdmissionResult::Admitted {
                victim_nodes,
                victims_weight,
            } => {
                // Remove the victims from the cache (hash map) and deque.
                let ghost vn = victim_nodes.v@; //@
                let ghost ec0 = self.entry_count; let ghost ws0 = self.weighted_size; //@
                proof { //@
                    assert(cache@ == m0); assert(deqs.probation@ == p0); //@
                    assert(rem(m0, p0, 0) == m0); //@
                    assert(p0.skip(0) =~= p0); //@
                    assert(m0.remove(k).remove(k) =~= m0.remove(k)); //@
                } //@
                for victim in /*@+*/it:/*@-*/ victim_nodes
                    invariant //@
                        it.snapshot@.remaining() == vn, vn.len() <= p0.len(), it.index@ <= vn.len(), //@
                        ptr_ids(vn) == p0.take(vn.len() as int).map_values(|x: N| x.id), //@
                        frozen::<K>(p0), //@
                        ttl == self.time_to_live.is_some(), self.time_to_live == old(self).time_to_live, self.time_to_idle == old(self).time_to_idle, self.max_capacity == old(self).max_capacity, self.build_hasher == old(self).build_hasher, //@
                        self.weighted_size == ws0, self.weigher == old(self).weigher, //@
                        self.frequency_sketch_enabled == old(self).frequency_sketch_enabled, //@
                        cache@ == rem(m0, p0, it.index@), //@ [C12,C13]
                        cache@.contains_key(k), cache@[k] == m0[k], //@
                        deqs.probation@ == p0.skip(it.index@), deqs.window@.len() == 0, deqs.protected@.len() == 0, //@
                        core_wf(cache@.remove(k), deqs.probation@, deqs.write_order@, ttl), //@ [C08,C11]
                        core_wf(m0.remove(k), p0, wo0, ttl), //@
                        self.entry_count == p0.len() - it.index@, //@ [C10]
                {
                    proof { //@
                        let j = it.index@; //@
                        assert(nid(victim) == ptr_ids(vn)[j]); //@
                        assert(p0.take(vn.len() as int).map_values(|x: N| x.id)[j] == p0[j].id); //@
                        assert(deqs.probation@[0] == p0[j]); //@
                        lemma_remove_at(cache@.remove(k), deqs.probation@, deqs.write_order@, ttl, 0); //@
                        assert(m0.remove(k).contains_key(p0[j].key)); //@
                        assert(cache@.remove(p0[j].key).remove(k) =~= cache@.remove(k).remove(p0[j].key)); //@
                        assert(deqs.probation@.remove(0) =~= p0.skip(j + 1)); //@
                        assert(rem(m0, p0, j + 1) == rem(m0, p0, j).remove(p0[j].key)); //@
                    } //@
                    // Remove the victim from the hash map.
                    let mut vic_entry = cache
                        .remove(unsafe { &victim.as_ref().element.key })
                        .expect("Cannot remove a victim from the hash map");
                    // And then remove the victim from the deques.
                    deqs.unlink_ao(&mut vic_entry);
                    Deques::unlink_wo(&mut deqs.write_order, &mut vic_entry);
                    self.entry_count -= 1;
                }

                // Add the candidate to the deque.
                let ghost wo1 = deqs.write_order@; //@
                let entry = cache.get_mut(&key).unwrap();
                let key = Rc::clone(&key);
                deqs.push_back_ao(
                    CacheRegion::MainProbation,
                    KeyHashDate::new(Rc::clone(&key), hash, timestamp),
                    entry,
                );
                if self.time_to_live.is_some() {
                    deqs.push_back_wo(KeyDate::new(key, timestamp), entry);
                }
                proof { //@
                    let n = vn.len() as int; //@
                    let m1 = rem(m0, p0, n); //@
                    let p1 = p0.skip(n); //@
                    lemma_rem_props(m0, p0, n); //@
                    lemma_push_new(m1, p1, wo1, ttl, k, *entry, hash); //@
                    // weights: ws0 == wsum(p0, m0 - k); victims_weight == wsum(take n, m0); remaining == difference
                    assert forall|i: int| 0 <= i < p0.len() implies m0.remove(k).contains_key((#[trigger] p0[i]).key) by {} //@
                    lemma_wsum_after_victims(m0.remove(k), p0, n); //@
                    assert forall|i: int| 0 <= i < p0.take(n).len() implies m0[(#[trigger] p0.take(n)[i]).key].w() == m0.remove(k)[p0.take(n)[i].key].w() by { //@
                        assert(p0.take(n)[i] == p0[i]); assert(m0.remove(k).contains_key(p0[i].key)); //@
                    } //@
                    lemma_wsum_same_entries(p0.take(n), m0, m0.remove(k)); //@
                    // rem commutes with removing k
                    lemma_rem_props(m0.remove(k), p0, n); //@
                    assert forall|i: int| 0 <= i < p1.len() implies rem(m0.remove(k), p0, n)[(#[trigger] p1[i]).key].w() == m1.remove(k)[p1[i].key].w() by { //@
                        assert(p1[i] == p0[i + n]); //@
                        assert(m0.remove(k).contains_key(p0[i + n].key)); //@
                        assert forall|a: int| 0 <= a < n implies (#[trigger] p0[a]).key != p1[i].key by { assert(p0[a].key != p0[i + n].key); } //@
                    } //@
                    lemma_wsum_same_entries(p1, rem(m0.remove(k), p0, n), m1.remove(k)); //@
                    lemma_wsum_nonneg(p1, m1.remove(k)); //@
                    lemma_wsum_bound(p1, m1.remove(k)); //@
                } //@

                self.entry_count += 1;
                Self::saturating_sub_from_total_weight(self, victims_weight);
                Self::saturating_add_to_total_weight(self, policy_weight as u64);

                if self.should_enable_frequency_sketch() {
                    self.enable_frequency_sketch();
                }
            }
            AdmissionResult::Rejected => {
                // Remove the candidate from the cache.
                cache.remove(&key);
            }
        }
    }
//@@ END

//@@ FN file=src/unsync/cache.rs owner=Cache name=insert tags=C01
    pub fn insert(&mut self, key: K, value: V)
        requires old(self).wf(), old(self).small(), w_wf(old(self).cache@, old(self).weigher), //@
        ensures //@
            final(self).cfg_ok(), final(self).same_cfg(old(self)), //@ [C17]
            final(self).inv_struct(), //@ [C08,C11,C12]
            final(self).inv_ts(), //@ [C05,C06]
            final(self).inv_count(), //@ [C10]
            final(self).inv_weight(), //@ [C10,C03,C04,C12]
            // C01: the key now maps to the new value or to nothing; every other key is untouched or gone
            final(self).cache@.contains_key(kid(&key)) ==> final(self).cache@[kid(&key)].value == value, //@ [C01]
            forall|k: KeyId| #[trigger] final(self).cache@.contains_key(k) && k != kid(&key) ==> old(self).cache@.contains_key(k) && final(self).cache@[k] == old(self).cache@[k], //@ [C01,C07]
            // the complete effect: the housekeeping prefix, then exactly one of the five cases of the property statements
            exists|mid: Self| #[trigger] Self::rel_hk(*old(self), mid) //@ [C14,C04,C15]
                && Self::rel_insert(mid, *final(self), kid(&key), value, wspec(old(self).weigher, kid(&key), value), old(self).sp_ts(), old(self).sp_hash(&key)), //@
            // the same, case by case (for attribution of a failure to the property it breaks)
            exists|mid: Self| #[trigger] Self::rel_hk(*old(self), mid) //@ [C01,C05,C06,C10,C03]
                && Self::rel_bound(mid, *final(self), kid(&key), value, wspec(old(self).weigher, kid(&key), value), old(self).sp_ts()), //@
            exists|mid: Self| #[trigger] Self::rel_hk(*old(self), mid) //@ [C12,C10,C04]
                && (Self::case_update(mid, kid(&key)) ==> Self::rel_updated(mid, *final(self), kid(&key), wspec(old(self).weigher, kid(&key), value))), //@
            exists|mid: Self| #[trigger] Self::rel_hk(*old(self), mid) //@ [C03,C12,C17]
                && (Self::case_fits(mid, kid(&key), wspec(old(self).weigher, kid(&key), value)) ==> Self::rel_added(mid.cache@, mid.deques.probation@, mid.weighted_size as int, *final(self), //@
                    kid(&key), wspec(old(self).weigher, kid(&key), value), old(self).sp_hash(&key), 0)), //@
            exists|mid: Self| #[trigger] Self::rel_hk(*old(self), mid) //@ [C04]
                && (Self::case_oversize(mid, kid(&key), wspec(old(self).weigher, kid(&key), value)) ==> Self::rel_untouched(mid.cache@, mid.deques.probation@, mid.deques.write_order@, mid.weighted_size as int, *final(self))), //@
            exists|mid: Self| #[trigger] Self::rel_hk(*old(self), mid) //@ [C12,C13]
                && (Self::case_admitted(mid, kid(&key), wspec(old(self).weigher, kid(&key), value), old(self).sp_hash(&key)) ==> Self::rel_added(mid.cache@, mid.deques.probation@, mid.weighted_size as int, *final(self), //@
                    kid(&key), wspec(old(self).weigher, kid(&key), value), old(self).sp_hash(&key), least_prefix(mid.deques.probation@, mid.cache@, wspec(old(self).weigher, kid(&key), value) as int, 0).unwrap())), //@
            exists|mid: Self| #[trigger] Self::rel_hk(*old(self), mid) //@ [C13]
                && (Self::case_rejected(mid, kid(&key), wspec(old(self).weigher, kid(&key), value), old(self).sp_hash(&key)) ==> Self::rel_untouched(mid.cache@, mid.deques.probation@, mid.deques.write_order@, mid.weighted_size as int, *final(self))), //@
    {
        let timestamp = self.evict_expired_if_needed();
        let ghost mid0 = *self; //@
        self.evict_lru_entries();
        let ghost mid = *self; //@
        proof { assert(Self::rel_evict_expired(*old(self), mid0) && Self::rel_evict_lru(mid0, mid)); assert(Self::rel_hk(*old(self), mid)); } //@
        let policy_weight = weigh(&mut self.weigher, &key, &value);
        let key = Rc::new(key);
        let entry = ValueEntry::new(value, policy_weight);
        let ghost m1 = self.cache@; //@
        proof { //@
            let k = kid_rc(key); //@
            if m1.contains_key(k) { //@
                assert(m1.insert(k, entry).insert(k, m1[k]) =~= m1); //@
            } else { //@
                assert(m1.insert(k, entry).remove(k) =~= m1); //@
            } //@
        } //@

        let ghost kk = kid_rc(key); //@
        proof { //@
            if !m1.contains_key(kk) { //@
                let p = mid.deques.probation@; //@
                assert forall|i: int| 0 <= i < p.len() implies (#[trigger] p[i]).key != kk by { } //@
                lemma_least_prefix_unrelated(p, m1, kk, entry, policy_weight as int, 0); //@
                match least_prefix(p, m1, policy_weight as int, 0) { //@
                    Some(n) => { //@
                        lemma_least_prefix(p, m1, policy_weight as int, 0); //@
                        lemma_wsum_insert_unrelated(p.take(n), m1, kk, entry); //@
                    }, //@
                    None => {}, //@
                } //@
                lemma_wsum_insert_unrelated(p.take(0), m1, kk, entry); //@
            } //@
        } //@
        if let Some(old_entry) = self.cache.insert(Rc::clone(&key), entry) {
            self.handle_update(key, timestamp, policy_weight, old_entry);
        } else {
            let hash = self.hash(&key);
            self.handle_insert(key, hash, policy_weight, timestamp);
            proof { //@
                let p = mid.deques.probation@; //@
                match least_prefix(p, m1, policy_weight as int, 0) { //@
                    Some(n) => { if self.cache@.contains_key(kk) { lemma_rem_insert(m1, p, n, kk, entry, self.cache@[kk]); } }, //@
                    None => {}, //@
                } //@
                if self.cache@.contains_key(kk) { lemma_rem_insert(m1, p, 0, kk, entry, self.cache@[kk]); } //@
            } //@
        }
    }
//@@ END

    // Returns (u64, u64) where (evicted_entry_count, evicted_policy_weight).
//@@ FN file=src/unsync/cache.rs owner=Cache name=remove_expired_wo tags=C10,C05,C03
    fn remove_expired_wo(&mut self, batch_size: usize, now: Instant) -> (/*@+*/r: (/*@-*/u64, u64/*@+*/)/*@-*/)
        requires //@
            old(self).cfg_ok(), old(self).small(), //@
            old(self).deques.window@.len() == 0 && old(self).deques.protected@.len() == 0, //@
            core_wf(old(self).cache@, old(self).deques.probation@, old(self).deques.write_order@, old(self).time_to_live.is_some()), //@
            ts_wf(old(self).cache@, old(self).sp_has_expiry(), old(self).time_to_live.is_some()), //@
            batch_size <= 1000, //@
        ensures //@
            final(self).same_cfg(old(self)), final(self).entry_count == old(self).entry_count, final(self).weighted_size == old(self).weighted_size, //@ [C17,C10]
            final(self).frequency_sketch == old(self).frequency_sketch, final(self).frequency_sketch_enabled == old(self).frequency_sketch_enabled, //@ [C14,C15]
            final(self).weigher == old(self).weigher, //@
            final(self).deques.window@.len() == 0 && final(self).deques.protected@.len() == 0, //@
            core_wf(final(self).cache@, final(self).deques.probation@, final(self).deques.write_order@, final(self).time_to_live.is_some()), //@ [C08,C11,C12]
            ts_wf(final(self).cache@, final(self).sp_has_expiry(), final(self).time_to_live.is_some()), //@ [C05,C06]
            // C10 / C03: the returned pair is exactly what was taken out
            r.0 == old(self).deques.probation@.len() - final(self).deques.probation@.len(), //@ [C10]
            r.1 == wsum(old(self).deques.probation@, old(self).cache@) - wsum(final(self).deques.probation@, final(self).cache@), //@ [C10,C03,C04]
            forall|k: KeyId| #[trigger] final(self).cache@.contains_key(k) ==> old(self).cache@.contains_key(k) && final(self).cache@[k] == old(self).cache@[k], //@ [C01,C15]
            ord_pres(old(self).deques.probation@, final(self).deques.probation@), final(self).expiration_clock == old(self).expiration_clock, //@ [C12,C15]
            // C03: only entries whose time-to-live deadline has passed at `now` are purged ...
            forall|k: KeyId| old(self).cache@.contains_key(k) && !(#[trigger] final(self).cache@.contains_key(k)) ==> Self::exp_wo(old(self).time_to_live, &old(self).cache@[k], now), //@ [C03]
            // C05: ... and the purge goes on until the batch is used up, the write-order list is empty or its front entry is still alive
            r.0 == batch_size || final(self).deques.write_order@.len() == 0 || !Self::exp_wo(old(self).time_to_live, &final(self).cache@[final(self).deques.write_order@[0].key], now), //@ [C05]
    {
        let mut evicted_entry_count = 0u64;
        let mut evicted_policy_weight = 0u64;
        let time_to_live = &self.time_to_live;
        let ghost m0 = self.cache@; let ghost p0 = self.deques.probation@; let ghost ttl = self.time_to_live.is_some(); //@
        proof { lemma_wsum_bound(p0, m0); lemma_wsum_nonneg(p0, m0); lemma_ord_refl(p0); } //@

        for _ in /*@+*/it:/*@-*/ 0..batch_size
            invariant_except_break //@
                evicted_entry_count == it.index@, //@
            invariant //@
                ttl == self.time_to_live.is_some(), self.time_to_live == old(self).time_to_live, self.time_to_idle == old(self).time_to_idle, //@
                self.max_capacity == old(self).max_capacity, self.build_hasher == old(self).build_hasher, //@
                *time_to_live == old(self).time_to_live, //@
                time_to_live.is_some() ==> dur_ns(time_to_live.unwrap()) <= max_dur_ns(), //@
                self.entry_count == old(self).entry_count, self.weighted_size == old(self).weighted_size, //@
                self.frequency_sketch == old(self).frequency_sketch, self.frequency_sketch_enabled == old(self).frequency_sketch_enabled, //@
                self.weigher == old(self).weigher, //@
                self.deques.window@.len() == 0 && self.deques.protected@.len() == 0, //@
                core_wf(self.cache@, self.deques.probation@, self.deques.write_order@, ttl), //@ [C08,C11,C12]
                ts_wf(self.cache@, old(self).sp_has_expiry(), ttl), //@
                evicted_entry_count == p0.len() - self.deques.probation@.len(), //@ [C10]
                evicted_policy_weight == wsum(p0, m0) - wsum(self.deques.probation@, self.cache@), //@ [C10,C03,C04]
                wsum(self.deques.probation@, self.cache@) >= 0, wsum(p0, m0) <= p0.len() * 0xFFFF_FFFF, p0.len() < 0xFFFF_FFFF, //@
                forall|k: KeyId| #[trigger] self.cache@.contains_key(k) ==> m0.contains_key(k) && self.cache@[k] == m0[k], //@ [C01,C15]
                ord_pres(p0, self.deques.probation@), self.expiration_clock == old(self).expiration_clock, //@ [C12,C15]
                forall|k: KeyId| m0.contains_key(k) && !(#[trigger] self.cache@.contains_key(k)) ==> Self::exp_wo(old(self).time_to_live, &m0[k], now), //@ [C03]
            ensures //@
                evicted_entry_count == batch_size || self.deques.write_order@.len() == 0 || !Self::exp_wo(old(self).time_to_live, &self.cache@[self.deques.write_order@[0].key], now), //@ [C05]
        {
            proof { reveal(front_id); if self.deques.write_order@.len() > 0 && ttl { lemma_index_of_id(self.deques.write_order@, 0); axiom_stamp_wo(&self.cache@[self.deques.write_order@[0].key]); } } //@
            let key = self
                .deques
                .write_order
                .peek_front()
                .and_then(|node| /*@+*/-> (o: Option<Option<Rc<K>>>) ensures o.is_some() ==> o.unwrap().is_some() && o.unwrap().unwrap() == node.element.key, o.is_some() == (time_to_live.is_some() && node.sp_last_modified().is_some() && node.sp_last_modified().unwrap().t() + dur_ns(time_to_live.unwrap()) <= now.t())/*@-*/ {
                    if Self::is_expired_entry_wo(time_to_live, node, now) {
                        Some(Some(Rc::clone(&node.element.key)))
                    } else {
                        None
                    }
                })
                .unwrap_or_default();

            if key.is_none() {
                break;
            }

            let key = key.unwrap();
            proof { //@
                let m = self.cache@; let p = self.deques.probation@; let wo = self.deques.write_order@; //@
                let kk = kid_rc(key); //@
                assert(wo.len() > 0 && wo[0].key == kk); //@
                assert(m.contains_key(kk)); //@
                lemma_pos_of_key(m, p, wo, ttl, kk); //@
                let i = pos_of_key(p, kk); //@
                lemma_remove_at(m, p, wo, ttl, i); //@
                if ttl { lemma_index_of_id(wo, 0); assert(m[kk].wo() == Some(wo[0].id)); } //@
                lemma_wsum_nonneg(p.remove(i), m.remove(kk)); //@
                lemma_ord_remove(p, i); lemma_ord_trans(p0, p, p.remove(i)); //@
            } //@

            if let Some(mut entry) = self.cache.remove(&key) {
                let weight = entry.policy_weight();
                self.deques.unlink_ao(&mut entry);
                Deques::unlink_wo(&mut self.deques.write_order, &mut entry);
                evicted_entry_count += 1;
                evicted_policy_weight = evicted_policy_weight.saturating_add(weight as u64);
            } else {
                self.deques.write_order.pop_front();
            }
        }

        (evicted_entry_count, evicted_policy_weight)
    }
//@@ END
}

impl<K: Hash + Eq, V> Cache<K, V, RandomState> {
//@@ FN file=src/unsync/cache.rs owner=Cache name=new tags=C17
    pub fn new(max_capacity: u64) -> /*@+*/(r:/*@-*/ Self/*@+*/)/*@-*/
        // C17: `new(n)` is the cache the builder gives for `max_capacity(n)` and nothing else: no expiry, no weigher, empty
        ensures r.max_capacity == Some(max_capacity), r.time_to_live.is_none(), r.time_to_idle.is_none(), r.weigher.is_none(), //@ [C17]
            r.cache@ == Map::<KeyId, ValueEntry<K, V>>::empty(), r.entry_count == 0, r.weighted_size == 0, r.wf(), //@ [C17,C10]
    {
        let build_hasher = RandomState::default();
        Self::with_everything(Some(max_capacity), None, build_hasher, None, None, None)
    }
//@@ END
}
// ---------------- src/unsync/iter.rs: iteration (C01, C05, C06 for `iter`) ----------------
//@@ STRUCT file=src/unsync/iter.rs name=Iter degrade=1
#[verifier::reject_recursive_types(K)]
#[verifier::reject_recursive_types(V)]
#[verifier::reject_recursive_types(S)]
pub struct Iter<'i, K, V, S> {
    cache: &'i Cache<K, V, S>,
    iter: HashMapIter<'i, K, V>,
}
//@@ END
impl<'i, K, V, S> Iter<'i, K, V, S> {
    /// the iterator walks the map of the cache it filters with (established by `Cache::iter`, the only constructor call), and
    /// that cache's expiry durations are within the builder's 1000-year limit (= `Cache::cfg_ok`, written out because a type
    /// invariant must not add trait bounds)
    #[verifier::type_invariant]
    pub closed spec fn inv(&self) -> bool {
        &&& (self.cache.time_to_live.is_some() ==> dur_ns(self.cache.time_to_live.unwrap()) <= max_dur_ns())
        &&& (self.cache.time_to_idle.is_some() ==> dur_ns(self.cache.time_to_idle.unwrap()) <= max_dur_ns())
        &&& self.iter.sp_map() == self.cache.cache@
    }
    pub closed spec fn sp_cache(&self) -> Cache<K, V, S> { *self.cache }
}
impl<'i, K: Hash + Eq, V, S: BuildHasher + Clone> Iter<'i, K, V, S> {
//@@ FN file=src/unsync/iter.rs owner=Iter name=new tags=C01,C05,C06
    pub(crate) fn new(cache: &'i Cache<K, V, S>, iter: HashMapIter<'i, K, V>) -> /*@+*/(r:/*@-*/ Self/*@+*/)/*@-*/
        requires cache.cfg_ok(), iter.sp_map() == cache.cache@, //@
        ensures r.sp_cache() == *cache //@ [C01]
    {
        Self { cache, iter }
    }
//@@ END
}
impl<'i, K: Hash + Eq, V, S: BuildHasher + Clone> vstd::std_specs::iter::IteratorSpecImpl for Iter<'i, K, V, S> {
    /// vstd's prophetic for-loop protocol is not used for this iterator (its laws are conditional on this flag)
    open spec fn obeys_prophetic_iter_laws(&self) -> bool { false }
    uninterp spec fn remaining(&self) -> Seq<Self::Item>;
    uninterp spec fn will_return_none(&self) -> bool;
    uninterp spec fn decrease(&self) -> Option<nat>;
    uninterp spec fn peek(&self, i: int) -> Option<Self::Item>;
}
impl<'i, K, V, S> Iterator for Iter<'i, K, V, S>
where
    K: Hash + Eq,
    S: BuildHasher + Clone,
{
    type Item = (&'i K, &'i V);

//@@ FN file=src/unsync/iter.rs owner=Iterator for Iter name=next tags=C01,C05,C06 rewrites=forbyref2loop
    fn next(&mut self) -> /*@+*/(r:/*@-*/ Option<Self::Item>/*@+*/)/*@-*/
        ensures //@
            final(self).sp_cache() == old(self).sp_cache(), //@
            // C01 / C05 / C06 / C07: what iteration yields is a binding of the cache's map, with the value the map holds, and it
            // is not expired at the clock reading taken for this very item
            match r { //@ [C01,C05,C06,C07]
                Some(kv) => ({ let c = old(self).sp_cache(); let k = kid::<K>(kv.0); //@
                    c.cache@.contains_key(k) && *kv.1 == c.cache@[k].value && !c.sp_expired(&c.cache@[k], c.sp_now()) }), //@
                None => true, //@
            }, //@
    {
        proof { use_type_invariant(&*self); } //@
        loop
            invariant self.iter.sp_map() == old(self).iter.sp_map(), self.cache == old(self).cache, //@
                self.cache.cfg_ok() && self.iter.sp_map() == self.cache.cache@, //@
            decreases self.iter.sp_rem(), //@
        { match self.iter.next() { Some((k, entry)) => {
            if !self.cache.is_expired_entry(entry) {
                return Some((k, &entry.value));
            }
        } None => break, } }
        None
    }
//@@ END
}
impl<K: Hash + Eq, V, S: BuildHasher + Clone> Cache<K, V, S> {
//@@ FN file=src/unsync/cache.rs owner=Cache name=iter tags=C01,C15
    pub fn iter(&self) -> /*@+*/(r:/*@-*/ Iter<'_, K, V, S>/*@+*/)/*@-*/
        requires self.cfg_ok(), //@
        ensures r.sp_cache() == *self //@ [C01,C15]
    {
        Iter::new(self, self.cache.iter())
    }
//@@ END
}
}
// =====================================================================
// PROPS: each listed property as a lemma over the contracts (no code here: these can only fail if a contract is weakened)
// =====================================================================
pub mod props {
use vstd::prelude::*;
use std::time::Duration;
use std::hash::{BuildHasher, Hash};
use super::env::*;
use super::cspec::*;
use super::code::*;
broadcast use {axiom_dur_nonneg};

/// C01 reference model: `refm` = for every key the value of its most recent insert that has not been invalidated since
pub open spec fn r_latest<K, V>(m: Map<KeyId, ValueEntry<K, V>>, refm: Map<KeyId, V>) -> bool {
    forall|k: KeyId| #[trigger] m.contains_key(k) ==> refm.contains_key(k) && m[k].value == refm[k]
}

pub proof fn lemma_c01_housekeeping<K: Hash + Eq, V, S: BuildHasher + Clone>(pre: Cache<K, V, S>, post: Cache<K, V, S>, refm: Map<KeyId, V>)
    requires Cache::rel_hk(pre, post), r_latest(pre.cache@, refm)
    ensures r_latest(post.cache@, refm)
{
    let mid = choose|mid: Cache<K, V, S>| #[trigger] Cache::rel_evict_expired(pre, mid) && Cache::rel_evict_lru(mid, post);
    assert forall|k: KeyId| #[trigger] post.cache@.contains_key(k) implies refm.contains_key(k) && post.cache@[k].value == refm[k] by {
        assert(mid.cache@.contains_key(k)); assert(pre.cache@.contains_key(k));
    }
}
/// a `get` hit returns exactly the reference value; the map keeps simulating the reference
pub proof fn lemma_c01_get<K: Hash + Eq, V, S: BuildHasher + Clone>(mid: Cache<K, V, S>, post: Cache<K, V, S>, k: KeyId, ts: Option<Instant>, hash: u64, hit: bool, refm: Map<KeyId, V>)
    requires Cache::rel_get(mid, post, k, ts, hash, hit), r_latest(mid.cache@, refm)
    ensures r_latest(post.cache@, refm), hit ==> refm.contains_key(k) && mid.cache@[k].value == refm[k] && post.cache@[k].value == refm[k]
{
    assert forall|k2: KeyId| #[trigger] post.cache@.contains_key(k2) implies refm.contains_key(k2) && post.cache@[k2].value == refm[k2] by {
        if hit { assert(mid.cache@.dom().contains(k2)); assert(mid.cache@.contains_key(k2)); } else { assert(mid.cache@.contains_key(k2)); }
    }
}
pub proof fn lemma_c01_insert<K: Hash + Eq, V, S: BuildHasher + Clone>(mid: Cache<K, V, S>, post: Cache<K, V, S>, k: KeyId, v: V, w: u32, ts: Option<Instant>, hash: u64, refm: Map<KeyId, V>)
    requires Cache::rel_insert(mid, post, k, v, w, ts, hash), r_latest(mid.cache@, refm), mid.wf()
    ensures r_latest(post.cache@, refm.insert(k, v))
{
    let r2 = refm.insert(k, v);
    let p = mid.deques.probation@;
    assert forall|k2: KeyId| #[trigger] post.cache@.contains_key(k2) implies r2.contains_key(k2) && post.cache@[k2].value == r2[k2] by {
        if k2 != k {
            if Cache::case_update(mid, k) { assert(mid.cache@.dom().contains(k2)); assert(mid.cache@.contains_key(k2)); }
            else if Cache::case_fits(mid, k, w) { assert(rem(mid.cache@, p, 0) == mid.cache@); assert(mid.cache@.contains_key(k2)); }
            else if Cache::case_oversize(mid, k, w) || Cache::case_rejected(mid, k, w, hash) { assert(mid.cache@.contains_key(k2)); }
            else {
                let n = least_prefix(p, mid.cache@, w as int, 0).unwrap();
                lemma_least_prefix(p, mid.cache@, w as int, 0);
                lemma_rem_props(mid.cache@, p, n);
                assert(rem(mid.cache@, p, n).contains_key(k2));
            }
        }
    }
}
pub proof fn lemma_c01_c07_invalidate<K, V>(mid_m: Map<KeyId, ValueEntry<K, V>>, post_m: Map<KeyId, ValueEntry<K, V>>, k: KeyId, refm: Map<KeyId, V>)
    requires post_m =~= mid_m.remove(k), r_latest(mid_m, refm)
    ensures r_latest(post_m, refm.remove(k)),
        // C07: immediate and precise
        !post_m.contains_key(k), forall|k2: KeyId| k2 != k && #[trigger] mid_m.contains_key(k2) ==> post_m.contains_key(k2) && post_m[k2] == mid_m[k2],
{ }
pub proof fn lemma_c01_c07_invalidate_all<K, V>(post_m: Map<KeyId, ValueEntry<K, V>>, refm: Map<KeyId, V>)
    requires post_m == Map::<KeyId, ValueEntry<K, V>>::empty()
    ensures r_latest(post_m, Map::<KeyId, V>::empty()), forall|k: KeyId| !post_m.contains_key(k)
{ }

/// C07 / C01, invalidation by predicate: exactly the bindings the predicate holds for leave the reference model, everything
/// else stays retrievable with its value (the contract of `invalidate_entries_if`'s removal phase; its selection expression is
/// the assumed `sel_keys`)
pub proof fn lemma_c01_c07_invalidate_entries_if<K, V>(pre_m: Map<KeyId, ValueEntry<K, V>>, post_m: Map<KeyId, ValueEntry<K, V>>, hit: spec_fn(KeyId) -> bool, refm: Map<KeyId, V>, r2: Map<KeyId, V>)
    requires r_latest(pre_m, refm),
        // r2 = the reference model without the bindings the predicate holds for
        forall|k: KeyId| #[trigger] r2.contains_key(k) <==> (refm.contains_key(k) && !hit(k)),
        forall|k: KeyId| #[trigger] r2.contains_key(k) ==> r2[k] == refm[k],
        forall|k: KeyId| #[trigger] post_m.contains_key(k) <==> (pre_m.contains_key(k) && !hit(k)),
        forall|k: KeyId| #[trigger] post_m.contains_key(k) ==> post_m[k] == pre_m[k],
    ensures r_latest(post_m, r2),
        forall|k: KeyId| hit(k) ==> !post_m.contains_key(k),
        forall|k: KeyId| !hit(k) && #[trigger] pre_m.contains_key(k) ==> post_m.contains_key(k) && post_m[k] == pre_m[k],
{
    assert forall|k: KeyId| #[trigger] post_m.contains_key(k) implies r2.contains_key(k) && post_m[k].value == r2[k] by {
        assert(pre_m.contains_key(k) && !hit(k));
        assert(refm.contains_key(k));
    }
    assert forall|k: KeyId| hit(k) implies !post_m.contains_key(k) by { if post_m.contains_key(k) { assert(!hit(k)); } }
    assert forall|k: KeyId| !hit(k) && #[trigger] pre_m.contains_key(k) implies post_m.contains_key(k) && post_m[k] == pre_m[k] by { assert(post_m.contains_key(k)); }
}

/// C05: an entry whose last-modified stamp is `b` is not returned by a lookup at any reading `now` with b + ttl <= now
pub proof fn lemma_c05_no_hit_after_ttl<K: Hash + Eq, V, S: BuildHasher + Clone>(c: Cache<K, V, S>, k: KeyId, now: Instant, b: Instant)
    requires c.wf(), c.time_to_live.is_some(), c.cache@.contains_key(k), c.cache@[k].tm() == Some(b),
        b.t() + dur_ns(c.time_to_live.unwrap()) <= now.t(),
    ensures !c.sp_hit(c.cache@, k, Some(now))
{
    assert(c.cache@[k].wo().is_some());
}
/// C06: the same for the idle timer and the last-accessed stamp
pub proof fn lemma_c06_no_hit_after_tti<K: Hash + Eq, V, S: BuildHasher + Clone>(c: Cache<K, V, S>, k: KeyId, now: Instant, a: Instant)
    requires c.wf(), c.time_to_idle.is_some(), c.cache@.contains_key(k), c.cache@[k].ta() == Some(a),
        a.t() + dur_ns(c.time_to_idle.unwrap()) <= now.t(),
    ensures !c.sp_hit(c.cache@, k, Some(now))
{
    assert(c.cache@[k].ao().is_some());
}
/// C05/C06: insert and update stamp the entry with the clock reading of that call (restart of both intervals);
/// C06: a get hit stamps last-accessed with its reading; nothing else changes a stamp (contains_key: see lemma_c15)
pub proof fn lemma_c05_c06_stamps<K: Hash + Eq, V, S: BuildHasher + Clone>(mid: Cache<K, V, S>, post: Cache<K, V, S>, k: KeyId, v: V, w: u32, ts: Option<Instant>, hash: u64)
    requires Cache::rel_insert(mid, post, k, v, w, ts, hash), ts.is_some() == mid.sp_has_expiry(), post.cache@.contains_key(k)
    ensures mid.time_to_live.is_some() ==> post.cache@[k].tm() == ts, mid.sp_has_expiry() ==> post.cache@[k].ta() == ts,
{ }
pub proof fn lemma_c06_get_refreshes<K: Hash + Eq, V, S: BuildHasher + Clone>(mid: Cache<K, V, S>, post: Cache<K, V, S>, k: KeyId, ts: Option<Instant>, hash: u64, hit: bool)
    requires Cache::rel_get(mid, post, k, ts, hash, hit)
    ensures hit && ts.is_some() ==> post.cache@[k].ta() == ts,
        !hit ==> post.cache@ =~= mid.cache@,
        forall|k2: KeyId| #[trigger] mid.cache@.contains_key(k2) && post.cache@.contains_key(k2) ==> post.cache@[k2].tm() == mid.cache@[k2].tm() && (k2 != k ==> post.cache@[k2].ta() == mid.cache@[k2].ta()),
{ }

/// C03: a new key whose weight fits in the remaining capacity is retained and evicts nobody
pub proof fn lemma_c03_fits<K: Hash + Eq, V, S: BuildHasher + Clone>(mid: Cache<K, V, S>, post: Cache<K, V, S>, k: KeyId, v: V, w: u32, ts: Option<Instant>, hash: u64)
    requires Cache::rel_insert(mid, post, k, v, w, ts, hash), Cache::case_fits(mid, k, w)
    ensures post.cache@.contains_key(k), post.cache@[k].value == v,
        forall|k2: KeyId| #[trigger] mid.cache@.contains_key(k2) ==> post.cache@.contains_key(k2) && post.cache@[k2] == mid.cache@[k2],
{
    assert(rem(mid.cache@, mid.deques.probation@, 0) == mid.cache@);
}
/// C03: within capacity and without expiry the housekeeping prefix removes nothing
pub proof fn lemma_c03_housekeeping_idle<K: Hash + Eq, V, S: BuildHasher + Clone>(pre: Cache<K, V, S>, post: Cache<K, V, S>)
    requires Cache::rel_hk(pre, post), !pre.sp_has_expiry(), pre.sp_weights_to_evict() == 0
    ensures post.same_views(&pre)
{
    let mid = choose|mid: Cache<K, V, S>| #[trigger] Cache::rel_evict_expired(pre, mid) && Cache::rel_evict_lru(mid, post);
    assert(mid.same_views(&pre));
    assert(mid.max_capacity == pre.max_capacity);
    assert(mid.sp_weights_to_evict() == 0);
}

/// C03: the expiry purge is precise: an entry that is live at the operation's clock reading survives it unchanged
/// (rests on the entry <-> node timestamp coupling axioms of the environment, see `axiom_stamp_ao` / `axiom_stamp_wo`)
pub proof fn lemma_c03_expiry_purge_is_precise<K: Hash + Eq, V, S: BuildHasher + Clone>(pre: Cache<K, V, S>, mid: Cache<K, V, S>, k: KeyId)
    requires Cache::rel_evict_expired(pre, mid), pre.cache@.contains_key(k), !pre.sp_expired(&pre.cache@[k], pre.sp_now())
    ensures mid.cache@.contains_key(k), mid.cache@[k] == pre.cache@[k]
{
    assert(mid.cache@.contains_key(k));
    assert(Cache::rel_purge(pre, mid));
}
/// C03: a cache built without max_capacity is exactly a map with expiry: whatever housekeeping runs, every entry that is
/// live at the operation's clock reading is still there, unchanged
pub proof fn lemma_c03_unbounded_keeps_live<K: Hash + Eq, V, S: BuildHasher + Clone>(pre: Cache<K, V, S>, post: Cache<K, V, S>, k: KeyId)
    requires Cache::rel_hk(pre, post), pre.max_capacity.is_none(), pre.cache@.contains_key(k), !pre.sp_expired(&pre.cache@[k], pre.sp_now())
    ensures post.cache@.contains_key(k), post.cache@[k] == pre.cache@[k]
{
    let mid = choose|mid: Cache<K, V, S>| #[trigger] Cache::rel_evict_expired(pre, mid) && Cache::rel_evict_lru(mid, post);
    lemma_c03_expiry_purge_is_precise(pre, mid, k);
    assert(mid.max_capacity == pre.max_capacity);
    assert(mid.sp_weights_to_evict() == 0);
    assert(post.same_views(&mid));
}

/// C04: an insert of a NEW key never takes the cache above max_capacity (only an update that grows a weight can, C04's exception)
pub proof fn lemma_c04_new_key_within_capacity<K: Hash + Eq, V, S: BuildHasher + Clone>(mid: Cache<K, V, S>, post: Cache<K, V, S>, k: KeyId, v: V, w: u32, ts: Option<Instant>, hash: u64)
    requires Cache::rel_insert(mid, post, k, v, w, ts, hash), !Cache::case_update(mid, k), mid.wf(),
        mid.max_capacity.is_some(), mid.weighted_size <= mid.max_capacity.unwrap(),
    ensures post.weighted_size <= mid.max_capacity.unwrap(),
        Cache::case_oversize(mid, k, w) ==> !post.cache@.contains_key(k),
{
    let p = mid.deques.probation@;
    if Cache::case_admitted(mid, k, w, hash) {
        lemma_least_prefix(p, mid.cache@, w as int, 0);
    } else if Cache::case_fits(mid, k, w) {
        assert(p.take(0).len() == 0);
        assert(wsum(p.take(0), mid.cache@) == 0);
    } else if Cache::case_oversize(mid, k, w) {
        assert(post.cache@ =~= mid.cache@);
    }
}
/// C04/C12: size eviction removes the shortest LRU prefix that brings the total back within capacity (or a full batch)
pub proof fn lemma_c04_c12_eviction<K: Hash + Eq, V, S: BuildHasher + Clone>(pre: Cache<K, V, S>, post: Cache<K, V, S>)
    requires Cache::rel_evict_lru(pre, post), pre.wf(), pre.max_capacity.is_some()
    ensures ({
        let n = pre.deques.probation@.len() - post.deques.probation@.len();
        let p0 = pre.deques.probation@;
        // exactly the first n residents in recency order are gone, nobody else
        &&& (forall|i: int| 0 <= i < n ==> !post.cache@.contains_key(#[trigger] p0[i].key))
        &&& (forall|i: int| n <= i < p0.len() ==> post.cache@.contains_key(#[trigger] p0[i].key) && post.cache@[p0[i].key] == pre.cache@[p0[i].key])
        // and then the cache is within capacity, unless the batch limit or the end of the list was hit
        &&& (post.weighted_size <= pre.max_capacity.unwrap() || n == 100 || n == p0.len())
    })
{
    let n = pre.deques.probation@.len() - post.deques.probation@.len();
    let p0 = pre.deques.probation@; let m0 = pre.cache@;
    lemma_rem_props(m0, p0, n);
    assert forall|i: int| n <= i < p0.len() implies post.cache@.contains_key(#[trigger] p0[i].key) && post.cache@[p0[i].key] == pre.cache@[p0[i].key] by {
        assert(m0.contains_key(p0[i].key));
        assert forall|j: int| 0 <= j < n implies (#[trigger] p0[j]).key != p0[i].key by { assert(p0[j].key != p0[i].key); }
    }
    assert forall|i: int| 0 <= i < p0.len() implies m0.contains_key((#[trigger] p0[i]).key) by { }
    lemma_wsum_after_victims(m0, p0, n);
    lemma_wsum_nonneg(p0.take(n), m0);
}

/// C13 scan resistance: a key that was never looked up (estimate 0) cannot displace anybody
pub proof fn lemma_c13_scan_resistance<K: Hash + Eq, V, S: BuildHasher + Clone>(mid: Cache<K, V, S>, k: KeyId, w: u32, hash: u64)
    requires mid.frequency_sketch.freq(hash) == 0
    ensures !Cache::case_admitted(mid, k, w, hash)
{
    match least_prefix(mid.deques.probation@, mid.cache@, w as int, 0) {
        Some(n) => { lemma_fsum_nonneg(mid.deques.probation@.take(n), mid.frequency_sketch); },
        None => {},
    }
}
pub proof fn lemma_fsum_nonneg(s: Seq<N>, sk: FrequencySketch)
    ensures fsum(s, sk) >= 0
    decreases s.len()
{ if s.len() > 0 { lemma_fsum_nonneg(s.drop_last(), sk); } }

/// C15: what `contains_key` leaves behind differs from the pre-state only by removals: same estimator, same stamps and
/// values of every survivor, same relative recency order (and it is exactly the housekeeping every operation starts with)
pub proof fn lemma_c15_pure_observation<K: Hash + Eq, V, S: BuildHasher + Clone>(pre: Cache<K, V, S>, post: Cache<K, V, S>)
    requires Cache::rel_hk(pre, post)
    ensures post.frequency_sketch == pre.frequency_sketch, post.frequency_sketch_enabled == pre.frequency_sketch_enabled,
        forall|k: KeyId| #[trigger] post.cache@.contains_key(k) ==> pre.cache@.contains_key(k) && post.cache@[k] == pre.cache@[k],
        ord_pres(pre.deques.probation@, post.deques.probation@),
{
    let mid = choose|mid: Cache<K, V, S>| #[trigger] Cache::rel_evict_expired(pre, mid) && Cache::rel_evict_lru(mid, post);
    lemma_ord_trans(pre.deques.probation@, mid.deques.probation@, post.deques.probation@);
    assert forall|k: KeyId| #[trigger] post.cache@.contains_key(k) implies pre.cache@.contains_key(k) && post.cache@[k] == pre.cache@[k] by {
        assert(mid.cache@.contains_key(k));
    }
}

/// C15: the size eviction inside housekeeping finishes its work (fewer residents than one batch): the state an observer
/// such as `contains_key` leaves behind has no surplus, so the trim the *next* operation starts with is the identity. The
/// observer has done nothing but the trim that operation would have done itself on the same state.
pub proof fn lemma_c15_trim_leaves_no_work<K: Hash + Eq, V, S: BuildHasher + Clone>(pre: Cache<K, V, S>, post: Cache<K, V, S>, post2: Cache<K, V, S>)
    requires Cache::rel_evict_lru(pre, post), pre.wf(), pre.deques.probation@.len() < 100, Cache::rel_evict_lru(post, post2)
    ensures post.sp_weights_to_evict() == 0, post2.same_views(&post)
{
    if pre.max_capacity.is_some() {
        lemma_c04_c12_eviction(pre, post);
        let n = pre.deques.probation@.len() - post.deques.probation@.len();
        if n == pre.deques.probation@.len() {
            assert(post.deques.probation@.len() == 0);
            assert(post.weighted_size == 0);
        }
    }
}

/// C10/C11: in a well-formed cache the entries the map holds are in one-to-one correspondence with the list nodes:
/// entry_count is their number and weighted_size the sum of their weights
pub proof fn lemma_c10_c11_counters<K: Hash + Eq, V, S: BuildHasher + Clone>(c: Cache<K, V, S>)
    requires c.wf()
    ensures c.entry_count == c.deques.probation@.len(), c.weighted_size == wsum(c.deques.probation@, c.cache@),
        forall|k: KeyId| #[trigger] c.cache@.contains_key(k) ==> 0 <= pos_of_key(c.deques.probation@, k) < c.deques.probation@.len() && c.deques.probation@[pos_of_key(c.deques.probation@, k)].key == k,
        forall|i: int, j: int| 0 <= i < j < c.deques.probation@.len() ==> (#[trigger] c.deques.probation@[i]).key != (#[trigger] c.deques.probation@[j]).key,
        forall|i: int| 0 <= i < c.deques.probation@.len() ==> c.cache@.contains_key((#[trigger] c.deques.probation@[i]).key),
{
    assert forall|k: KeyId| #[trigger] c.cache@.contains_key(k) implies 0 <= pos_of_key(c.deques.probation@, k) < c.deques.probation@.len() && c.deques.probation@[pos_of_key(c.deques.probation@, k)].key == k by {
        lemma_pos_of_key(c.cache@, c.deques.probation@, c.deques.write_order@, c.time_to_live.is_some(), k);
    }
}
} // mod props
// vacuity guard: with every axiom of the assumed environment in scope `false` must NOT be provable
pub mod canary {
use vstd::prelude::*;
use super::env::*;
broadcast use {axiom_kid_rc, axiom_dur_nonneg, axiom_ptr_reads, axiom_rc_reads, axiom_f64_mul_ok, axiom_f64_div_ok};
pub proof fn verif_canary_unsync<K, V>(d: &Deque<KeyHashDate<K>>, e: &ValueEntry<K, V>) requires e.ao().is_some(), e.wo().is_some() ensures false { axiom_frozen(d); axiom_stamp_ao(e); axiom_stamp_wo(e); }
}
}
fn main() {}
