#![feature(allocator_api)]
use vstd::prelude::*;
verus! {

global size_of usize == 8;

pub mod spec {
use vstd::prelude::*;

pub open spec fn nib(w: u64, c: u64) -> u64 { (w >> (c << 2)) & 0xF }

pub open spec const SEEDS: Seq<u64> = seq![0xc3a5_c85c_97cb_3127u64, 0xb492_b66f_be98_f273u64, 0x9ae1_6a3b_2f90_404fu64, 0xcbf2_9ce4_8422_2325u64];

pub open spec fn mix(hash: u64, seed: u64) -> u64 {
    let h = hash.wrapping_add(seed).wrapping_mul(seed);
    h.wrapping_add(h >> 32)
}
pub open spec fn idx(hash: u64, depth: int, mask: u32) -> int {
    (mix(hash, SEEDS[depth]) & (mask as u64)) as int
}
pub open spec fn start(hash: u64) -> u64 { (hash & 3) << 2 }

/// (word i, nibble c) is one of the four counters of `hash`
pub open spec fn target(hash: u64, mask: u32, i: int, c: u64) -> bool {
    exists|d: int| 0 <= d < 4 && #[trigger] idx(hash, d, mask) == i && c == start(hash) + d
}
pub open spec fn target_lt(hash: u64, mask: u32, i: int, c: u64, k: int) -> bool {
    let d = c - start(hash);
    0 <= d < k && d < 4 && idx(hash, d, mask) == i
}
pub open spec fn min2(a: u64, b: u64) -> u64 { if a <= b { a } else { b } }
pub open spec fn ctr(t: Seq<u64>, mask: u32, hash: u64, d: int) -> u64 {
    nib(t[idx(hash, d, mask)], (start(hash) + d) as u64)
}
pub open spec fn min_upto(t: Seq<u64>, mask: u32, hash: u64, k: int) -> u64
    decreases k
{
    if k <= 0 { 255 } else { min2(min_upto(t, mask, hash, k - 1), ctr(t, mask, hash, k - 1)) }
}
pub open spec fn freq(t: Seq<u64>, mask: u32, hash: u64) -> u64 {
    if t.len() == 0 { 0 } else { min_upto(t, mask, hash, 4) }
}

/// value of counter (w,c) after the first k depth-increments of `hash` applied to table t
pub open spec fn bump(t: Seq<u64>, mask: u32, hash: u64, w: int, c: u64, k: int) -> u64 {
    if target_lt(hash, mask, w, c, k) && nib(t[w], c) < 15 { (nib(t[w], c) + 1) as u64 } else { nib(t[w], c) }
}
pub open spec fn any_room(t: Seq<u64>, mask: u32, hash: u64, k: int) -> bool
    decreases k
{
    k > 0 && (any_room(t, mask, hash, k - 1) || ctr(t, mask, hash, k - 1) < 15)
}
} // mod spec

pub mod bv {
use vstd::prelude::*;
use super::spec::*;

pub broadcast proof fn lemma_and_le(x: u64, m: u64)
    ensures #[trigger] (x & m) <= m
{ assert((x & m) <= m) by(bit_vector); }

pub broadcast proof fn lemma_off(c: u8)
    requires c < 16
    ensures #[trigger] ((c as usize) << 2) == 4 * c,
{ assert(c < 16 ==> ((c as usize) << 2) == 4 * c) by(bit_vector); }

pub broadcast proof fn lemma_start(hash: u64)
    ensures #[trigger] ((hash & 3) << 2) <= 12, ((hash & 3) << 2) as u8 == (hash & 3) << 2,
{ assert(((hash & 3) << 2) <= 12) by(bit_vector); }

pub broadcast proof fn lemma_nib_inc(w: u64, c: u8)
    requires c < 16
    ensures
        (#[trigger] (w & (0xF_u64 << ((c as usize) << 2))) != (0xF_u64 << ((c as usize) << 2))) <==> nib(w, c as u64) < 15,
        nib(w, c as u64) <= 15,
        nib(w, c as u64) < 15 ==> w + (1u64 << ((c as usize) << 2)) <= u64::MAX,
        nib(w, c as u64) < 15 ==> nib((w + (1u64 << ((c as usize) << 2))) as u64, c as u64) == nib(w, c as u64) + 1,
        forall|d: u64| d < 16 && d != c && nib(w, c as u64) < 15 ==> nib((w + (1u64 << ((c as usize) << 2))) as u64, d) == #[trigger] nib(w, d),
{
    assert(c < 16 ==> (((w & (0xF_u64 << ((c as usize) << 2))) != (0xF_u64 << ((c as usize) << 2))) <==> ((w >> ((c as u64) << 2)) & 0xF) < 15)) by(bit_vector);
    assert(((w >> ((c as u64) << 2)) & 0xF) <= 15) by(bit_vector);
    assert(c < 16 && ((w >> ((c as u64) << 2)) & 0xF) < 15 ==> w <= (0xFFFF_FFFF_FFFF_FFFFu64 - (1u64 << ((c as usize) << 2)))) by(bit_vector);
    assert(c < 16 && ((w >> ((c as u64) << 2)) & 0xF) < 15 ==> (((add(w, (1u64 << ((c as usize) << 2)))) >> ((c as u64) << 2)) & 0xF) == add(((w >> ((c as u64) << 2)) & 0xF), 1)) by(bit_vector);
    assert forall|d: u64| d < 16 && d != c && nib(w, c as u64) < 15 implies nib((w + (1u64 << ((c as usize) << 2))) as u64, d) == #[trigger] nib(w, d) by {
        assert(c < 16 && d < 16 && d != c && ((w >> ((c as u64) << 2)) & 0xF) < 15 ==> (((add(w, (1u64 << ((c as usize) << 2)))) >> (d << 2)) & 0xF) == ((w >> (d << 2)) & 0xF)) by(bit_vector);
    }
}

/// the expression `frequency` uses to read a counter equals nib
pub broadcast proof fn lemma_read(w: u64, c: u8)
    requires c < 16
    ensures #[trigger] (w >> (c << 2) & 0xF) == nib(w, c as u64), (w >> (c << 2) & 0xF) <= 15, (c << 2) < 64,
{
    assert(c < 16 ==> (w >> (c << 2) & 0xF) == ((w >> ((c as u64) << 2)) & 0xF)) by(bit_vector);
    assert((w >> (c << 2) & 0xF) <= 15) by(bit_vector);
    assert(c < 16 ==> (c << 2) < 64) by(bit_vector);
}

pub broadcast proof fn lemma_shl2(c: u8)
    requires c < 16
    ensures #[trigger] (c << 2) < 64, (c << 2) == 4 * c
{ assert(c < 16 ==> (c << 2) < 64 && (c << 2) == 4 * c) by(bit_vector); }

pub broadcast proof fn lemma_onemask(w: u64)
    ensures #[trigger] (w & 0x1111_1111_1111_1111u64) & 0xEEEE_EEEE_EEEE_EEEEu64 == 0
{ assert((w & 0x1111_1111_1111_1111u64) & 0xEEEE_EEEE_EEEE_EEEEu64 == 0) by(bit_vector); }

pub broadcast proof fn lemma_shr1(x: u32)
    ensures x > 0 ==> #[trigger] (x >> 1) < x
{ assert(x > 0 ==> (x >> 1) < x) by(bit_vector); }

pub broadcast proof fn lemma_nib_le(w: u64, c: u64)
    ensures #[trigger] nib(w, c) <= 15
{ assert(((w >> (c << 2)) & 0xF) <= 15) by(bit_vector); }

/// halving a word halves each nibble
pub broadcast proof fn lemma_halve(w: u64, c: u64)
    requires c < 16
    ensures #[trigger] nib((w >> 1) & 0x7777_7777_7777_7777u64, c) == nib(w, c) / 2
{
    assert(c < 16 ==> (((((w >> 1) & 0x7777_7777_7777_7777u64) >> (c << 2)) & 0xF) == ((w >> (c << 2)) & 0xF) / 2)) by(bit_vector);
}
} // mod bv

pub mod code {
use vstd::prelude::*;
pub uninterp spec fn spec_popcount(x: u64) -> u32;
pub assume_specification [u64::count_ones] (x: u64) -> (r: u32)
    ensures r == spec_popcount(x), r <= 64, (x & 0xEEEE_EEEE_EEEE_EEEEu64 == 0) ==> r <= 16;

pub open spec fn is_pow2(x: int) -> bool { exists|e: nat| e < 32 && x == vstd::arithmetic::power2::pow2(e) }
pub assume_specification [u32::pow] (b: u32, e: u32) -> (r: u32)
    requires b == 2, e < 32,
    ensures r == vstd::arithmetic::power2::pow2(e as nat), e == 24 ==> r == 0x0100_0000u32, e == 30 ==> r == 0x4000_0000u32;
pub assume_specification [u32::next_power_of_two] (x: u32) -> (r: u32)
    requires 0 < x <= 0x8000_0000u32,
    ensures r >= x, r < 2 * x, is_pow2(r as int), x <= 0x0800_0000u32 ==> r <= 0x0800_0000u32;
pub assume_specification<T, A> [std::vec::Vec::<T, A>::into_boxed_slice] (v: std::vec::Vec<T, A>) -> (r: std::boxed::Box<[T], A>)
    where A: std::alloc::Allocator,
    ensures r@ == v@;

pub open spec fn inc_resets(s: FrequencySketch, hash: u64) -> bool {
    any_room(s.table@, s.table_mask, hash, 4) && s.size + 1 >= s.sample_size
}

use vstd::std_specs::iter::IteratorSpec;
use super::spec::*;
use super::bv::*;

//@@ STRUCT file=src/common/frequency_sketch.rs name=FrequencySketch
pub struct FrequencySketch {
    pub sample_size: u32,
    pub table_mask: u32,
    pub table: Box<[u64]>,
    pub size: u32,
}
//@@ END

//@@ STATIC file=src/common/frequency_sketch.rs name=SEED tags=C14,C08 ensures=SEED@ == SEEDS
//@@ STATIC file=src/common/frequency_sketch.rs name=RESET_MASK tags=C14 ensures=RESET_MASK == 0x7777_7777_7777_7777u64
//@@ STATIC file=src/common/frequency_sketch.rs name=ONE_MASK tags=C14,C08 ensures=ONE_MASK == 0x1111_1111_1111_1111u64

broadcast use {lemma_and_le, lemma_start, lemma_read, lemma_shl2, lemma_off, lemma_nib_inc, lemma_halve, lemma_onemask};

impl FrequencySketch {
    pub open spec fn wf(&self) -> bool {
        self.size <= 0x7FFF_FFFF && self.sample_size <= 0x7FFF_FFFF
            && (self.table@.len() == 0 || (self.table@.len() == self.table_mask as nat + 1 && self.table@.len() <= 0x0800_0000))
    }

//@@ FN file=src/common/frequency_sketch.rs owner=FrequencySketch name=frequency tags=C14,C08
    pub(crate) fn frequency(&self, hash: u64) -> /*@+*/(r:/*@-*/ u8/*@+*/)/*@-*/
        requires self.wf(), //@
        ensures r == freq(self.table@, self.table_mask, hash), r <= 15, //@ [C14]
    {
        if self.table.is_empty() {
            return 0;
        }

        let start = ((hash & 3) << 2) as u8;
        let mut frequency = u8::MAX;
        for i in 0..4
            invariant //@
                self.wf(), self.table@.len() > 0, start == super::spec::start(hash), //@
                frequency == min_upto(self.table@, self.table_mask, hash, i as int), //@ [C14]
        {
            let index = self.index_of(hash, i);
            let count = (self.table[index] >> ((start + i) << 2) & 0xF) as u8;
            frequency = frequency.min(count);
        }
        frequency
    }
//@@ END

//@@ FN file=src/common/frequency_sketch.rs owner=FrequencySketch name=increment_at tags=C14,C08
    pub fn increment_at(&mut self, table_index: usize, counter_index: u8) -> /*@+*/(r:/*@-*/ bool/*@+*/)/*@-*/
        requires table_index < old(self).table@.len(), counter_index < 16, //@
        ensures //@
            final(self).table@.len() == old(self).table@.len(), //@ [C14]
            forall|i: int| 0 <= i < old(self).table@.len() && i != table_index ==> final(self).table@[i] == old(self).table@[i], //@ [C14]
            forall|c: u64| #![trigger nib(final(self).table@[table_index as int], c)] #![trigger nib(old(self).table@[table_index as int], c)] c < 16 && c != counter_index ==> nib(final(self).table@[table_index as int], c) == nib(old(self).table@[table_index as int], c), //@ [C14]
            r == (nib(old(self).table@[table_index as int], counter_index as u64) < 15), //@ [C14]
            nib(final(self).table@[table_index as int], counter_index as u64) == if r { nib(old(self).table@[table_index as int], counter_index as u64) + 1 } else { 15 }, //@ [C14]
            final(self).size == old(self).size, final(self).sample_size == old(self).sample_size, final(self).table_mask == old(self).table_mask, //@ [C14]
    {
        let offset = (counter_index as usize) << 2;
        let mask = 0xF_u64 << offset;
        if self.table[table_index] & mask != mask {
            self.table[table_index] += 1u64 << offset;
            true
        } else {
            false
        }
    }
//@@ END

//@@ FN file=src/common/frequency_sketch.rs owner=FrequencySketch name=reset tags=C14,C08
    pub fn reset(&mut self)
        requires old(self).table@.len() <= 0x0800_0000, //@
        ensures //@
            final(self).table@.len() == old(self).table@.len(), //@ [C14]
            final(self).table_mask == old(self).table_mask, final(self).sample_size == old(self).sample_size, //@ [C14]
            forall|w: int, c: u64| 0 <= w < old(self).table@.len() && c < 16 ==> #[trigger] nib(final(self).table@[w], c) == nib(old(self).table@[w], c) / 2, //@ [C14]
            final(self).size <= old(self).size >> 1, //@ [C14]
    {
        let mut count = 0u32;
        for entry in /*@+*/it:/*@-*/ self.table.iter_mut()
            invariant //@
                count <= 16 * it.index@, //@
                it.snapshot@.remaining().len() <= 0x0800_0000, //@
                forall|j: int| 0 <= j < it.index@ ==> *final(#[trigger] it.snapshot@.remaining()[j]) == (*(it.snapshot@.remaining()[j]) >> 1) & 0x7777_7777_7777_7777u64, //@ [C14]
        {
            // Count number of odd numbers.
            count += (*entry & ONE_MASK).count_ones();
            *entry = (*entry >> 1) & RESET_MASK;
        }
        self.size = (self.size >> 1).saturating_sub(count >> 2);
    }
//@@ END

//@@ FN file=src/common/frequency_sketch.rs owner=FrequencySketch name=ensure_capacity tags=C14,C08
    pub(crate) fn ensure_capacity(&mut self, cap: u32)
        requires old(self).wf(), cap <= 0x0800_0000u32, //@
        ensures final(self).wf(), //@ [C14,C08]
            // C14: only grows; a resize forgets all counts (fresh zero table), otherwise nothing changes
            final(self).table@.len() >= old(self).table@.len(), //@ [C14]
            final(self).table@.len() == old(self).table@.len() ==> *final(self) == *old(self), //@ [C14]
            final(self).table@.len() != old(self).table@.len() ==> (forall|i: int| 0 <= i < final(self).table@.len() ==> final(self).table@[i] == 0) //@ [C14]
                && final(self).table@.len() == final(self).table_mask + 1, //@ [C14]
            final(self).table@.len() >= 1, //@ [C14]
    {
        // The max byte size of the table, Box<[u64; table_size]>
        //
        // | Pointer width    | Max size |
        // |:-----------------|---------:|
        // | 16 bit           |    8 KiB |
        // | 32 bit           |  128 MiB |
        // | 64 bit or bigger |    8 GiB |

        let maximum = if cfg!(target_pointer_width = "16") {
            cap.min(1024)
        } else if cfg!(target_pointer_width = "32") {
            cap.min(2u32.pow(24)) // about 16 millions
        } else {
            // Same to Caffeine's limit:
            //   `Integer.MAX_VALUE >>> 1` with `ceilingPowerOfTwo()` applied.
            cap.min(2u32.pow(30)) // about 1 billion
        };
        let table_size = if maximum == 0 {
            1
        } else {
            maximum.next_power_of_two()
        };

        if self.table.len() as u32 >= table_size {
            return;
        }

        self.table = vec![0; table_size as usize].into_boxed_slice();
        self.table_mask = table_size - 1;
        self.sample_size = if cap == 0 {
            10
        } else {
            maximum.saturating_mul(10).min(i32::MAX as u32)
        };
    }
//@@ END

//@@ FN file=src/common/frequency_sketch.rs owner=FrequencySketch name=index_of tags=C14,C08
    pub fn index_of(&self, hash: u64, depth: u8) -> /*@+*/(r:/*@-*/ usize/*@+*/)/*@-*/
        requires depth < 4, self.table@.len() == self.table_mask as nat + 1, //@
        ensures r < self.table@.len(), r == idx(hash, depth as int, self.table_mask), //@ [C14,C08]
    {
        let i = depth as usize;
        let mut hash = hash.wrapping_add(SEED[i]).wrapping_mul(SEED[i]);
        hash = hash.wrapping_add(hash >> 32);
        (hash & (self.table_mask as u64)) as usize
    }
//@@ END
}
pub mod m_increment {
use vstd::prelude::*;
use crate::spec::*;
use crate::bv::*;
use super::*;
broadcast use {lemma_start, lemma_shr1, lemma_nib_le};
impl FrequencySketch {
//@@ FN file=src/common/frequency_sketch.rs owner=FrequencySketch name=increment tags=C14,C08 rewrites=boolor
    pub(crate) fn increment(&mut self, hash: u64)
        requires old(self).wf(), //@
        ensures final(self).wf(), //@ [C14,C08]
            final(self).table@.len() == old(self).table@.len(), //@ [C14]
            final(self).table_mask == old(self).table_mask, final(self).sample_size == old(self).sample_size, //@ [C14]
            old(self).table@.len() == 0 ==> *final(self) == *old(self), //@ [C14]
            // no aging step happened: exact per-counter characterisation
            old(self).table@.len() > 0 && !inc_resets(*old(self), hash) ==> ( //@ [C14]
                forall|w: int, c: u64| 0 <= w < old(self).table@.len() && c < 16 ==> #[trigger] nib(final(self).table@[w], c) //@ [C14]
                    == bump(old(self).table@, old(self).table_mask, hash, w, c, 4)), //@ [C14]
            // an aging step happened: every counter is the floor-half of its bumped value
            old(self).table@.len() > 0 && inc_resets(*old(self), hash) ==> ( //@ [C14]
                forall|w: int, c: u64| 0 <= w < old(self).table@.len() && c < 16 ==> #[trigger] nib(final(self).table@[w], c) //@ [C14]
                    == bump(old(self).table@, old(self).table_mask, hash, w, c, 4) / 2), //@ [C14]
    {
        if self.table.is_empty() {
            return;
        }

        let start = ((hash & 3) << 2) as u8;
        let mut added = false;
        for i in 0..4
            invariant //@
                self.table@.len() == old(self).table@.len(), self.table@.len() > 0, old(self).wf(), //@
                self.table_mask == old(self).table_mask, self.sample_size == old(self).sample_size, self.size == old(self).size, //@
                start == crate::spec::start(hash), //@
                forall|w: int, c: u64| 0 <= w < self.table@.len() && c < 16 ==> #[trigger] nib(self.table@[w], c) //@ [C14]
                    == bump(old(self).table@, self.table_mask, hash, w, c, i as int), //@ [C14]
                added == any_room(old(self).table@, self.table_mask, hash, i as int), //@ [C14]
        {
            let index = self.index_of(hash, i);
            { let t = self.increment_at(index, start + i); added = added || t; }
        }

        if added {
            self.size += 1;
            if self.size >= self.sample_size {
                self.reset();
            }
        }
    }
//@@ END

}
}
// =====================================================================
// C14 as lemmas over the contracts: what the postconditions of increment / reset mean for the ESTIMATE of a key
// =====================================================================
pub mod props {
use vstd::prelude::*;
use crate::spec::*;
use crate::bv::*;
broadcast use {lemma_start, lemma_nib_le};

/// the four counters of a key sit at four different nibble positions
pub proof fn lemma_ctr_positions(hash: u64, d1: int, d2: int)
    requires 0 <= d1 < 4, 0 <= d2 < 4, d1 != d2
    ensures start(hash) + d1 != start(hash) + d2, start(hash) + d1 < 16,
{ }

pub proof fn lemma_min_upto_bounds(t: Seq<u64>, mask: u32, hash: u64, k: int)
    requires 0 < k <= 4
    ensures min_upto(t, mask, hash, k) <= 15,
        forall|d: int| 0 <= d < k ==> min_upto(t, mask, hash, k) <= #[trigger] ctr(t, mask, hash, d),
        exists|d: int| 0 <= d < k && min_upto(t, mask, hash, k) == #[trigger] ctr(t, mask, hash, d),
    decreases k
{
    if k > 1 { lemma_min_upto_bounds(t, mask, hash, k - 1); }
    assert(ctr(t, mask, hash, k - 1) <= 15);
    if k == 1 { assert(min_upto(t, mask, hash, 0) == 255); assert(min_upto(t, mask, hash, 1) == ctr(t, mask, hash, 0)); }
}

/// pointwise monotone maps commute with the minimum of the four counters
pub proof fn lemma_min_upto_map(t: Seq<u64>, t2: Seq<u64>, mask: u32, hash: u64, k: int, f: spec_fn(u64) -> u64)
    requires 0 < k <= 4,
        forall|d: int| 0 <= d < k ==> #[trigger] ctr(t2, mask, hash, d) == f(ctr(t, mask, hash, d)),
        forall|a: u64, b: u64| a <= b <= 15 ==> #[trigger] f(a) <= #[trigger] f(b),
    ensures min_upto(t2, mask, hash, k) == f(min_upto(t, mask, hash, k))
    decreases k
{
    lemma_min_upto_bounds(t, mask, hash, k);
    if k == 1 {
        assert(min_upto(t, mask, hash, 0) == 255); assert(min_upto(t2, mask, hash, 0) == 255);
        assert(ctr(t, mask, hash, 0) <= 15); assert(ctr(t2, mask, hash, 0) == f(ctr(t, mask, hash, 0)));
    } else {
        lemma_min_upto_map(t, t2, mask, hash, k - 1, f);
        lemma_min_upto_bounds(t, mask, hash, k - 1);
        let a = min_upto(t, mask, hash, k - 1); let b = ctr(t, mask, hash, k - 1);
        assert(b <= 15);
        assert(ctr(t2, mask, hash, k - 1) == f(b));
        if a <= b { assert(f(a) <= f(b)); } else { assert(f(b) <= f(a)); }
    }
}

/// C14 "recording a key": after `increment(hash)` without an aging step the estimate of THAT key is min(old + 1, 15)
pub proof fn lemma_record_self(t: Seq<u64>, t2: Seq<u64>, mask: u32, hash: u64)
    requires t.len() > 0, t2.len() == t.len(), t.len() == mask as nat + 1,
        forall|w: int, c: u64| 0 <= w < t.len() && c < 16 ==> #[trigger] nib(t2[w], c) == bump(t, mask, hash, w, c, 4),
    ensures freq(t2, mask, hash) == (if freq(t, mask, hash) < 15 { (freq(t, mask, hash) + 1) as u64 } else { 15 }), freq(t2, mask, hash) <= 15,
{
    let f = |x: u64| if x < 15 { (x + 1) as u64 } else { 15u64 };
    assert forall|d: int| 0 <= d < 4 implies #[trigger] ctr(t2, mask, hash, d) == f(ctr(t, mask, hash, d)) by {
        let w = idx(hash, d, mask); let c = (start(hash) + d) as u64;
        lemma_idx_bound(hash, d, mask);
        assert(c < 16);
        assert(target_lt(hash, mask, w, c, 4));
        assert(nib(t2[w], c) == bump(t, mask, hash, w, c, 4));
        assert(nib(t[w], c) <= 15);
    }
    lemma_min_upto_map(t, t2, mask, hash, 4, f);
    lemma_min_upto_bounds(t, mask, hash, 4);
}

pub proof fn lemma_idx_bound(hash: u64, d: int, mask: u32)
    requires 0 <= d < 4
    ensures 0 <= idx(hash, d, mask) <= mask
{
    let m = mix(hash, SEEDS[d]);
    assert((m & (mask as u64)) <= mask as u64) by(bit_vector);
}

/// C14 "recording other keys never lowers an estimate": every key's estimate is unchanged or one higher
pub proof fn lemma_record_other(t: Seq<u64>, t2: Seq<u64>, mask: u32, hash: u64, g: u64)
    requires t.len() > 0, t2.len() == t.len(), t.len() == mask as nat + 1,
        forall|w: int, c: u64| 0 <= w < t.len() && c < 16 ==> #[trigger] nib(t2[w], c) == bump(t, mask, hash, w, c, 4),
    ensures freq(t, mask, g) <= freq(t2, mask, g) <= freq(t, mask, g) + 1, freq(t2, mask, g) <= 15,
{
    lemma_min_upto_bounds(t, mask, g, 4);
    lemma_min_upto_bounds(t2, mask, g, 4);
    assert forall|d: int| 0 <= d < 4 implies ctr(t, mask, g, d) <= #[trigger] ctr(t2, mask, g, d) <= ctr(t, mask, g, d) + 1 by {
        let w = idx(g, d, mask); let c = (start(g) + d) as u64;
        lemma_idx_bound(g, d, mask);
        assert(c < 16);
        assert(nib(t2[w], c) == bump(t, mask, hash, w, c, 4));
        assert(nib(t[w], c) <= 15);
    }
    let d2 = choose|d: int| 0 <= d < 4 && min_upto(t2, mask, g, 4) == #[trigger] ctr(t2, mask, g, d);
    assert(ctr(t, mask, g, d2) <= ctr(t2, mask, g, d2));
    let d1 = choose|d: int| 0 <= d < 4 && min_upto(t, mask, g, 4) == #[trigger] ctr(t, mask, g, d);
    assert(ctr(t2, mask, g, d1) <= ctr(t, mask, g, d1) + 1);
}

/// C14 "equals c when no other key collides with it": a key none of whose counters is touched keeps its estimate
pub proof fn lemma_record_disjoint(t: Seq<u64>, t2: Seq<u64>, mask: u32, hash: u64, g: u64)
    requires t.len() > 0, t2.len() == t.len(), t.len() == mask as nat + 1,
        forall|w: int, c: u64| 0 <= w < t.len() && c < 16 ==> #[trigger] nib(t2[w], c) == bump(t, mask, hash, w, c, 4),
        forall|d: int| 0 <= d < 4 ==> !target_lt(hash, mask, #[trigger] idx(g, d, mask), (start(g) + d) as u64, 4),
    ensures freq(t2, mask, g) == freq(t, mask, g),
{
    let f = |x: u64| x;
    assert forall|d: int| 0 <= d < 4 implies #[trigger] ctr(t2, mask, g, d) == f(ctr(t, mask, g, d)) by {
        let w = idx(g, d, mask); let c = (start(g) + d) as u64;
        lemma_idx_bound(g, d, mask);
        assert(c < 16);
        assert(nib(t2[w], c) == bump(t, mask, hash, w, c, 4));
    }
    lemma_min_upto_map(t, t2, mask, g, 4, f);
}

/// C14 "an aging step floor-halves every estimate at once"
pub proof fn lemma_aging(t: Seq<u64>, t2: Seq<u64>, mask: u32, g: u64)
    requires t.len() > 0, t2.len() == t.len(), t.len() == mask as nat + 1,
        forall|w: int, c: u64| 0 <= w < t.len() && c < 16 ==> #[trigger] nib(t2[w], c) == nib(t[w], c) / 2,
    ensures freq(t2, mask, g) == freq(t, mask, g) / 2,
{
    let f = |x: u64| x / 2;
    assert forall|d: int| 0 <= d < 4 implies #[trigger] ctr(t2, mask, g, d) == f(ctr(t, mask, g, d)) by {
        let w = idx(g, d, mask); let c = (start(g) + d) as u64;
        lemma_idx_bound(g, d, mask);
        assert(c < 16);
    }
    lemma_min_upto_map(t, t2, mask, g, 4, f);
}

/// C14 "at least c": the lookup count c of a key (saturating at 15, floor-halved by aging) never exceeds its estimate.
/// One step of the induction over recorded events: `cnt'`/`est'` are count and estimate after the event.
pub open spec fn count_step(cnt: int, same_key: bool, aged: bool) -> int {
    let c1 = if same_key { if cnt < 15 { cnt + 1 } else { 15 } } else { cnt };
    if aged { c1 / 2 } else { c1 }
}
pub proof fn lemma_never_underestimates(cnt: int, est: int, est_bumped: int, est2: int, same_key: bool, aged: bool)
    requires 0 <= cnt <= est <= 15,
        same_key ==> est_bumped == (if est < 15 { est + 1 } else { 15 }),        // lemma_record_self
        !same_key ==> est <= est_bumped <= 15,                                      // lemma_record_other
        est2 == (if aged { est_bumped / 2 } else { est_bumped }),                    // lemma_aging
    ensures 0 <= count_step(cnt, same_key, aged) <= est2 <= 15,
{ }
} // mod props

// vacuity guard: with every broadcast axiom of this unit in scope `false` must NOT be provable
pub mod canary {
use vstd::prelude::*;
use crate::bv::*;
broadcast use {lemma_and_le, lemma_start, lemma_read, lemma_shl2, lemma_off, lemma_nib_inc, lemma_halve, lemma_onemask, lemma_shr1, lemma_nib_le};
pub proof fn verif_canary_sketch() ensures false {}
}
}
}
fn main() {}
