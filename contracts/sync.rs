#![feature(sized_hierarchy)]
#![feature(allocator_api)]
// Contract unit for the SEQUENTIAL leaf functions of the concurrent cache (src/sync/base_cache.rs).
// Only what a single call decides on values it has already read is under contract: the expiry / invalidation
// predicates, the lookup composition of contains_key / get_with_hash / is_expired_entry, the capacity arithmetic and the
// bookkeeping counters. Everything that mutates shared state through `&self` (DashMap, atomics, Mutex, channels) is
// OUTSIDE: it appears below as assumed `external_body` functions whose results are uninterpreted functions of `&self`
// ("the value this call happened to read"); no obligation here says anything about interleavings.
use vstd::prelude::*;
verus! {
pub mod env {
use vstd::prelude::*;
use std::time::Duration;
use std::sync::Arc;
use std::borrow::Borrow;
use std::hash::{BuildHasher, Hash};

pub type KeyId = int;
pub uninterp spec fn kid<Q: ?Sized>(q: &Q) -> KeyId;

#[derive(Clone, Copy)]
#[verifier::external_body]
pub struct Instant { x: u64 }
impl Instant { pub uninterp spec fn t(&self) -> int; }
pub uninterp spec fn dur_ns(d: Duration) -> int;
pub open spec fn max_dur_ns() -> int { 1000int * 365 * 24 * 3600 * 1_000_000_000 }
pub broadcast axiom fn axiom_dur_nonneg(d: Duration) ensures #[trigger] dur_ns(d) >= 0;
pub assume_specification [Duration::is_zero] (d: &Duration) -> (r: bool) ensures r == (dur_ns(*d) == 0);
impl PartialEq for Instant {
    #[verifier::external_body]
    fn eq(&self, o: &Instant) -> (r: bool) ensures r == (self.t() == o.t()) { unimplemented!() }
}
impl PartialOrd for Instant {
    #[verifier::external_body]
    fn partial_cmp(&self, o: &Instant) -> (r: Option<std::cmp::Ordering>) { unimplemented!() }
    #[verifier::external_body]
    fn le(&self, o: &Instant) -> (r: bool) ensures r == (self.t() <= o.t()) { unimplemented!() }
    #[verifier::external_body]
    fn lt(&self, o: &Instant) -> (r: bool) ensures r == (self.t() < o.t()) { unimplemented!() }
    #[verifier::external_body]
    fn ge(&self, o: &Instant) -> (r: bool) ensures r == (self.t() >= o.t()) { unimplemented!() }
    #[verifier::external_body]
    fn gt(&self, o: &Instant) -> (r: bool) ensures r == (self.t() > o.t()) { unimplemented!() }
}
impl Instant {
    #[verifier::external_body]
    pub fn checked_add(&self, d: Duration) -> (r: Option<Instant>)
        ensures dur_ns(d) <= max_dur_ns() ==> r.is_some() && r.unwrap().t() == self.t() + dur_ns(d) //@ [C08]
    { unimplemented!() }
}
pub trait AccessTime {
    spec fn sp_last_accessed(&self) -> Option<Instant>;
    spec fn sp_last_modified(&self) -> Option<Instant>;
    fn last_accessed(&self) -> (r: Option<Instant>) ensures r == self.sp_last_accessed();
    fn last_modified(&self) -> (r: Option<Instant>) ensures r == self.sp_last_modified();
}

#[verifier::allow(undeclared_external_trait)]
pub assume_specification<T> [std::mem::drop] (_0: T) where T: std::marker::Destruct;

/// triomphe::Arc
#[verifier::external_body]
#[verifier::reject_recursive_types(T)]
pub struct TrioArc<T> { p: std::marker::PhantomData<T> }
impl<T> TrioArc<T> {
    pub uninterp spec fn view(&self) -> T;
    #[verifier::external_body]
    pub fn clone(this: &Self) -> (r: Self) ensures r@ == this@ { unimplemented!() }
}
impl<T> std::ops::Deref for TrioArc<T> {
    type Target = T;
    #[verifier::external_body]
    fn deref(&self) -> (r: &T) ensures *r == self@ { unimplemented!() }
}

#[verifier::external_body]
#[verifier::reject_recursive_types(K)]
pub struct EntryInfo<K> { k: std::marker::PhantomData<K> }
#[verifier::reject_recursive_types(K)]
pub struct ValueEntry<K, V> { pub value: V, pub info: EntryInfo<K> }
impl<K, V> ValueEntry<K, V> {
    /// the timestamps are atomics shared with the list nodes: "what this call reads" is an uninterpreted function of the entry
    pub uninterp spec fn ta(&self) -> Option<Instant>;
    pub uninterp spec fn tm(&self) -> Option<Instant>;
    pub uninterp spec fn dirty(&self) -> bool;
//@@ SIG file=src/common/concurrent.rs owner=ValueEntry name=is_dirty
    #[verifier::external_body]
    pub fn is_dirty(&self) -> (r: bool) ensures r == self.dirty() { unimplemented!() }
//@@ END
}
impl<K, V> AccessTime for TrioArc<ValueEntry<K, V>> {
    open spec fn sp_last_accessed(&self) -> Option<Instant> { self@.ta() }
    open spec fn sp_last_modified(&self) -> Option<Instant> { self@.tm() }
    #[verifier::external_body]
    fn last_accessed(&self) -> (r: Option<Instant>) { unimplemented!() }
    #[verifier::external_body]
    fn last_modified(&self) -> (r: Option<Instant>) { unimplemented!() }
}

/// dashmap::mapref::one::Ref
#[verifier::external_body]
#[verifier::reject_recursive_types(K)]
#[verifier::reject_recursive_types(V)]
pub struct CacheEntryRef<'a, K, V> { p: std::marker::PhantomData<&'a (K, V)> }
impl<'a, K, V> CacheEntryRef<'a, K, V> { pub uninterp spec fn view(&self) -> TrioArc<ValueEntry<K, V>>; }
impl<'a, K, V> std::ops::Deref for CacheEntryRef<'a, K, V> {
    type Target = TrioArc<ValueEntry<K, V>>;
    #[verifier::external_body]
    fn deref(&self) -> (r: &TrioArc<ValueEntry<K, V>>) ensures *r == self@ { unimplemented!() }
}

#[verifier::external_body]
pub struct AtomicInstant { x: u64 }

#[verifier::reject_recursive_types(K)]
#[verifier::reject_recursive_types(V)]
pub enum ReadOp<K, V> {
    Hit(u64, TrioArc<ValueEntry<K, V>>, Instant),
    Miss(u64),
}
#[verifier::external_body]
#[verifier::reject_recursive_types(T)]
pub struct TrySendError<T> { p: std::marker::PhantomData<T> }
impl<T> std::fmt::Debug for TrySendError<T> {
    #[verifier::external_body]
    fn fmt(&self, f: &mut std::fmt::Formatter<'_>) -> std::fmt::Result { unimplemented!() }
}

#[verifier::external_body]
pub struct Policy { x: u64 }
impl Policy {
    pub uninterp spec fn sp_max_capacity(&self) -> Option<u64>;
    pub uninterp spec fn sp_ttl(&self) -> Option<Duration>;
    pub uninterp spec fn sp_tti(&self) -> Option<Duration>;
    /// contract proved in the `config` unit on the real text of src/policy.rs
//@@ SIG file=src/policy.rs owner=Policy name=new types=loose
    #[verifier::external_body]
    pub fn new(max_capacity: Option<u64>, time_to_live: Option<Duration>, time_to_idle: Option<Duration>) -> (r: Policy)
        ensures r.sp_max_capacity() == max_capacity, r.sp_ttl() == time_to_live, r.sp_tti() == time_to_idle
    { unimplemented!() }
//@@ END
}
} // mod env

pub mod code {
use vstd::prelude::*;
use std::time::Duration;
use std::sync::Arc;
use std::borrow::Borrow;
use std::hash::{BuildHasher, Hash};
use super::env::*;
broadcast use {axiom_dur_nonneg};

/// C05 / C07 (concurrent cache), from the property statements: hidden iff written STRICTLY before the invalidate_all
/// watermark, or the time-to-live has elapsed
pub open spec fn sp_expired_wo(ttl: Option<Duration>, va: Option<Instant>, tm: Option<Instant>, now: Instant) -> bool {
    tm.is_some() && ((va.is_some() && tm.unwrap().t() < va.unwrap().t()) || (ttl.is_some() && tm.unwrap().t() + dur_ns(ttl.unwrap()) <= now.t()))
}
/// C06 / C07: the same for the idle timer
pub open spec fn sp_expired_ao(tti: Option<Duration>, va: Option<Instant>, ta: Option<Instant>, now: Instant) -> bool {
    ta.is_some() && ((va.is_some() && ta.unwrap().t() < va.unwrap().t()) || (tti.is_some() && ta.unwrap().t() + dur_ns(tti.unwrap()) <= now.t()))
}
/// what a lookup answers for an entry it has read, at reading `now`
pub open spec fn sp_hidden<K, V>(ttl: Option<Duration>, tti: Option<Duration>, va: Option<Instant>, e: TrioArc<ValueEntry<K, V>>, now: Instant) -> bool {
    sp_expired_wo(ttl, va, e@.tm(), now) || sp_expired_ao(tti, va, e@.ta(), now)
}

//@@ FN file=src/sync/base_cache.rs owner=- name=is_expired_entry_ao tags=C06,C07
fn is_expired_entry_ao(
    time_to_idle: &Option<Duration>,
    valid_after: &Option<Instant>,
    entry: &impl AccessTime,
    now: Instant,
) -> /*@+*/(r:/*@-*/ bool/*@+*/)/*@-*/
    requires time_to_idle.is_some() ==> dur_ns(time_to_idle.unwrap()) <= max_dur_ns(), //@ [C08]
    ensures r == sp_expired_ao(*time_to_idle, *valid_after, entry.sp_last_accessed(), now), //@ [C06,C07,C01,C03]
{
    if let Some(ts) = entry.last_accessed() {
        if let Some(va) = valid_after {
            if ts < *va {
                return true;
            }
        }
        if let Some(tti) = time_to_idle {
            let checked_add = ts.checked_add(*tti);
            if checked_add.is_none() {
                panic!("ttl overflow")
            }
            return checked_add.unwrap() <= now;
        }
    }
    false
}
//@@ END

//@@ FN file=src/sync/base_cache.rs owner=- name=is_expired_entry_wo tags=C05,C07
fn is_expired_entry_wo(
    time_to_live: &Option<Duration>,
    valid_after: &Option<Instant>,
    entry: &impl AccessTime,
    now: Instant,
) -> /*@+*/(r:/*@-*/ bool/*@+*/)/*@-*/
    requires time_to_live.is_some() ==> dur_ns(time_to_live.unwrap()) <= max_dur_ns(), //@ [C08]
    ensures r == sp_expired_wo(*time_to_live, *valid_after, entry.sp_last_modified(), now), //@ [C05,C07,C01,C03]
{
    if let Some(ts) = entry.last_modified() {
        if let Some(va) = valid_after {
            if ts < *va {
                return true;
            }
        }
        if let Some(ttl) = time_to_live {
            let checked_add = ts.checked_add(*ttl);
            if checked_add.is_none() {
                panic!("ttl overflow");
            }
            return checked_add.unwrap() <= now;
        }
    }
    false
}
//@@ END

//@@ STRUCT file=src/sync/base_cache.rs name=EvictionCounters
pub struct EvictionCounters {
    pub entry_count: u64,
    pub weighted_size: u64,
}
//@@ END

impl EvictionCounters {
//@@ FN file=src/sync/base_cache.rs owner=EvictionCounters name=new tags=C10
    fn new(entry_count: u64, weighted_size: u64) -> /*@+*/(r:/*@-*/ Self/*@+*/)/*@-*/
        ensures r.entry_count == entry_count, r.weighted_size == weighted_size //@ [C10]
    {
        Self {
            entry_count,
            weighted_size,
        }
    }
//@@ END

//@@ FN file=src/sync/base_cache.rs owner=EvictionCounters name=saturating_add tags=C10
    fn saturating_add(&mut self, entry_count: u64, weight: u32)
        requires old(self).entry_count + entry_count <= u64::MAX, //@ [C08]
        ensures final(self).entry_count == old(self).entry_count + entry_count, //@ [C10]
            final(self).weighted_size == if old(self).weighted_size + weight <= u64::MAX { (old(self).weighted_size + weight) as u64 } else { u64::MAX }, //@ [C10,C04]
    {
        self.entry_count += entry_count;
        let total = &mut self.weighted_size;
        *total = total.saturating_add(weight as u64);
    }
//@@ END

//@@ FN file=src/sync/base_cache.rs owner=EvictionCounters name=saturating_sub tags=C10
    fn saturating_sub(&mut self, entry_count: u64, weight: u32)
        requires old(self).entry_count >= entry_count, //@ [C08,C10]
        ensures final(self).entry_count == old(self).entry_count - entry_count, //@ [C10]
            final(self).weighted_size == if old(self).weighted_size >= weight { (old(self).weighted_size - weight) as u64 } else { 0 }, //@ [C10,C03]
    {
        self.entry_count -= entry_count;
        let total = &mut self.weighted_size;
        *total = total.saturating_sub(weight as u64);
    }
//@@ END
}

/// only the fields the functions under contract read are declared (a renamed or retyped field makes the unit fail to
/// compile: reported as undecided)
#[verifier::reject_recursive_types(K)]
#[verifier::reject_recursive_types(V)]
#[verifier::reject_recursive_types(S)]
pub struct Inner<K, V, S> {
    pub max_capacity: Option<u64>,
    pub time_to_live: Option<Duration>,
    pub time_to_idle: Option<Duration>,
    pub valid_after: AtomicInstant,
    pub build_hasher: S,
    pub kv: std::marker::PhantomData<(K, V)>,
}

impl<K, V, S> Inner<K, V, S> {
    /// the map content / watermark / clock value THIS call happens to read (shared state: uninterpreted functions of `&self`)
    pub uninterp spec fn sp_get(&self, k: KeyId) -> Option<TrioArc<ValueEntry<K, V>>>;
    pub uninterp spec fn sp_valid_after(&self) -> Option<Instant>;
    pub uninterp spec fn sp_now(&self) -> Instant;
    pub open spec fn cfg_ok(&self) -> bool {
        &&& (self.time_to_live.is_some() ==> dur_ns(self.time_to_live.unwrap()) <= max_dur_ns())
        &&& (self.time_to_idle.is_some() ==> dur_ns(self.time_to_idle.unwrap()) <= max_dur_ns())
    }

    // ---- assumed: shared state behind `&self` ----
//@@ SIG file=src/sync/base_cache.rs owner=Inner name=get
    #[verifier::external_body]
    pub fn get<Q>(&self, key: &Q) -> (r: Option<CacheEntryRef<'_, K, V>>)
    where Arc<K>: Borrow<Q>, Q: Hash + Eq + ?Sized
        ensures match r { Some(e) => self.sp_get(kid(key)) == Some(e@), None => self.sp_get(kid(key)).is_none() }
    { unimplemented!() }
//@@ END
//@@ SIG file=src/sync/base_cache.rs owner=Inner name=valid_after
    #[verifier::external_body]
    pub fn valid_after(&self) -> (r: Option<Instant>) ensures r == self.sp_valid_after() { unimplemented!() }
//@@ END
//@@ SIG file=src/sync/base_cache.rs owner=Inner name=current_time_from_expiration_clock
    #[verifier::external_body]
    pub fn current_time_from_expiration_clock(&self) -> (r: Instant) ensures r == self.sp_now() { unimplemented!() }
//@@ END
    /// C07: the watermark handed to the shared cell must be this call's clock reading
//@@ SIG file=src/sync/base_cache.rs owner=Inner name=set_valid_after
    #[verifier::external_body]
    pub fn set_valid_after(&self, timestamp: Instant)
        requires timestamp == self.sp_now(), //@ [C07]
    { unimplemented!() }
//@@ END

//@@ FN file=src/sync/base_cache.rs owner=Inner name=time_to_live tags=C05,C17
    fn time_to_live(&self) -> /*@+*/(r:/*@-*/ Option<Duration>/*@+*/)/*@-*/
        ensures r == self.time_to_live //@ [C05,C17]
    {
        self.time_to_live
    }
//@@ END

//@@ FN file=src/sync/base_cache.rs owner=Inner name=time_to_idle tags=C06,C17
    fn time_to_idle(&self) -> /*@+*/(r:/*@-*/ Option<Duration>/*@+*/)/*@-*/
        ensures r == self.time_to_idle //@ [C06,C17]
    {
        self.time_to_idle
    }
//@@ END

//@@ FN file=src/sync/base_cache.rs owner=Inner name=policy tags=C17
    fn policy(&self) -> /*@+*/(r:/*@-*/ Policy/*@+*/)/*@-*/
        ensures r.sp_max_capacity() == self.max_capacity, r.sp_ttl() == self.time_to_live, r.sp_tti() == self.time_to_idle //@ [C17]
    {
        Policy::new(self.max_capacity, self.time_to_live, self.time_to_idle)
    }
//@@ END

//@@ FN file=src/sync/base_cache.rs owner=Inner name=has_expiry tags=C05,C06
    fn has_expiry(&self) -> /*@+*/(r:/*@-*/ bool/*@+*/)/*@-*/
        ensures r == (self.time_to_live.is_some() || self.time_to_idle.is_some()) //@ [C05,C06,C17]
    {
        self.time_to_live.is_some() || self.time_to_idle.is_some()
    }
//@@ END

//@@ FN file=src/sync/base_cache.rs owner=Inner name=is_write_order_queue_enabled tags=C05
    fn is_write_order_queue_enabled(&self) -> /*@+*/(r:/*@-*/ bool/*@+*/)/*@-*/
        ensures r == self.time_to_live.is_some() //@ [C05]
    {
        self.time_to_live.is_some()
    }
//@@ END

//@@ FN file=src/sync/base_cache.rs owner=Inner name=has_enough_capacity tags=C03,C04
    fn has_enough_capacity(&self, candidate_weight: u32, counters: &EvictionCounters) -> /*@+*/(r:/*@-*/ bool/*@+*/)/*@-*/
        requires counters.weighted_size + candidate_weight <= u64::MAX, //@ [C08]
        ensures r == match self.max_capacity { Some(limit) => counters.weighted_size + candidate_weight <= limit, None => true } //@ [C03,C04,C17]
    {
        self.max_capacity
            .map(|limit| /*@+*/-> (b: bool) ensures b == (counters.weighted_size + candidate_weight <= limit) {/*@-*/ counters.weighted_size + candidate_weight as u64 <= limit /*@+*/}/*@-*/)
            .unwrap_or(true)
    }
//@@ END

//@@ FN file=src/sync/base_cache.rs owner=Inner name=weights_to_evict tags=C04,C03
    fn weights_to_evict(&self, counters: &EvictionCounters) -> /*@+*/(r:/*@-*/ u64/*@+*/)/*@-*/
        ensures r == match self.max_capacity { Some(l) => if counters.weighted_size > l { (counters.weighted_size - l) as u64 } else { 0 }, None => 0 } //@ [C04,C03,C12,C17]
    {
        self.max_capacity
            .map(|limit| /*@+*/-> (x: u64) ensures x == if counters.weighted_size > limit { (counters.weighted_size - limit) as u64 } else { 0 } {/*@-*/ counters.weighted_size.saturating_sub(limit) /*@+*/}/*@-*/)
            .unwrap_or_default()
    }
//@@ END
}

#[verifier::reject_recursive_types(K)]
#[verifier::reject_recursive_types(V)]
#[verifier::reject_recursive_types(S)]
pub struct BaseCache<K, V, S> {
    pub inner: Arc<Inner<K, V, S>>,
}

impl<K, V, S> BaseCache<K, V, S> {
    /// queues the read record (crossbeam channel: outside). The recorded access time of a hit must be this call's reading (C06).
    #[verifier::external_body]
    fn record_read_op(&self, op: ReadOp<K, V>, now: Instant) -> (r: Result<(), TrySendError<ReadOp<K, V>>>)
        requires match op { ReadOp::Hit(_, _, ts) => ts == now, ReadOp::Miss(_) => true }, //@ [C06]
        ensures r.is_ok(),
    { unimplemented!() }

//@@ FN file=src/sync/base_cache.rs owner=BaseCache name=contains_key tags=C01,C15
    pub(crate) fn contains_key<Q>(&self, key: &Q) -> /*@+*/(r:/*@-*/ bool/*@+*/)/*@-*/
    where
        Arc<K>: Borrow<Q>,
        Q: Hash + Eq + ?Sized,
        requires self.inner.cfg_ok(), //@
        ensures // C01/C05/C06/C07: present in the map and neither expired nor written before the watermark, at this call's reading //@
            r == match self.inner.sp_get(kid(key)) { //@ [C01,C03,C05,C06,C07]
                Some(e) => !sp_hidden(self.inner.time_to_live, self.inner.time_to_idle, self.inner.sp_valid_after(), e, self.inner.sp_now()), //@
                None => false, //@
            }, //@
    {
        match self.inner.get(key) {
            None => false,
            Some(entry) => {
                let i = &self.inner;
                let (ttl, tti, va) = (&i.time_to_live(), &i.time_to_idle(), &i.valid_after());
                let now = i.current_time_from_expiration_clock();
                let entry = &*entry;

                !is_expired_entry_wo(ttl, va, entry, now)
                    && !is_expired_entry_ao(tti, va, entry, now)
            }
        }
    }
//@@ END

//@@ FN file=src/sync/base_cache.rs owner=BaseCache name=is_expired_entry tags=C01,C05,C06
    pub(crate) fn is_expired_entry(&self, entry: &TrioArc<ValueEntry<K, V>>) -> /*@+*/(r:/*@-*/ bool/*@+*/)/*@-*/
        requires self.inner.cfg_ok(), //@
        ensures r == sp_hidden(self.inner.time_to_live, self.inner.time_to_idle, self.inner.sp_valid_after(), *entry, self.inner.sp_now()), //@ [C01,C05,C06,C07]
    {
        let i = &self.inner;
        let (ttl, tti, va) = (&i.time_to_live(), &i.time_to_idle(), &i.valid_after());
        let now = i.current_time_from_expiration_clock();

        is_expired_entry_wo(ttl, va, entry, now) || is_expired_entry_ao(tti, va, entry, now)
    }
//@@ END

//@@ FN file=src/sync/base_cache.rs owner=BaseCache name=invalidate_all tags=C07
    pub(crate) fn invalidate_all(&self)
    {
        let now = self.inner.current_time_from_expiration_clock();
        self.inner.set_valid_after(now);
    }
//@@ END
}

impl<K, V: Clone, S> BaseCache<K, V, S> {
//@@ FN file=src/sync/base_cache.rs owner=BaseCache name=get_with_hash tags=C01,C06
    pub(crate) fn get_with_hash<Q>(&self, key: &Q, hash: u64) -> /*@+*/(r:/*@-*/ Option<V>/*@+*/)/*@-*/
    where
        Arc<K>: Borrow<Q>,
        Q: Hash + Eq + ?Sized,
        requires self.inner.cfg_ok(), //@
        ensures // C01/C05/C06/C07: a value is returned iff the entry read from the map is neither expired nor invalidated at this reading //@
            r.is_some() == match self.inner.sp_get(kid(key)) { //@ [C01,C03,C05,C06,C07]
                Some(e) => !sp_hidden(self.inner.time_to_live, self.inner.time_to_idle, self.inner.sp_valid_after(), e, self.inner.sp_now()), //@
                None => false, //@
            }, //@
    {
        let record = |op, now| /*@+*/-> (u: ()) requires (match op { ReadOp::Hit(_, _, ts) => ts == now, ReadOp::Miss(_) => true })/*@-*/ {
            self.record_read_op(op, now)
                .expect("Failed to record a get op");
        };
        let now = self.inner.current_time_from_expiration_clock();

        match self.inner.get(key) {
            None => {
                record(ReadOp::Miss(hash), now);
                None
            }
            Some(entry) => {
                let i = &self.inner;
                let (ttl, tti, va) = (&i.time_to_live(), &i.time_to_idle(), &i.valid_after());
                let arc_entry = &*entry;

                if is_expired_entry_wo(ttl, va, arc_entry, now)
                    || is_expired_entry_ao(tti, va, arc_entry, now)
                {
                    // Drop the entry to avoid to deadlock with record_read_op.
                    std::mem::drop(entry);
                    // Expired or invalidated entry. Record this access as a cache miss
                    // rather than a hit.
                    record(ReadOp::Miss(hash), now);
                    None
                } else {
                    // Valid entry.
                    let v = arc_entry.value.clone();
                    let e = TrioArc::clone(arc_entry);
                    // Drop the entry to avoid to deadlock with record_read_op.
                    std::mem::drop(entry);
                    record(ReadOp::Hit(hash, e, now), now);
                    Some(v)
                }
            }
        }
    }
//@@ END
}
} // mod code

// vacuity guard
pub mod canary {
use vstd::prelude::*;
use super::env::*;
broadcast use {axiom_dur_nonneg};
pub proof fn verif_canary_sync() ensures false {}
}
}
fn main() {}
