#![feature(sized_hierarchy)]
#![feature(allocator_api)]
// Contract unit for the SEQUENTIAL leaf functions of the concurrent cache (src/sync/base_cache.rs).
// Only what a single call decides on values it has already read is under contract: the expiry / invalidation
// predicates, the lookup composition of contains_key / get_with_hash / is_expired_entry, the capacity arithmetic and the
// bookkeeping counters. Everything that mutates shared state through `&self` (DashMap, atomics, Mutex, channels) is
// OUTSIDE: it appears below as assumed `external_body` functions whose results are uninterpreted functions of `&self`
// ("the value this call happened to read"); no obligation here says anything about interleavings.
// The public FRONT END of the concurrent cache (src/sync/cache.rs: policy, entry_count, weighted_size, contains_key, get,
// insert, insert_with_hash, invalidate, invalidate_all, schedule_write_op) and the BaseCache delegations are under contract for
// WHAT THEY HAND ON: a lookup answers exactly what the lookup composition answers; an insert queues exactly the `Upsert` record
// the map update produced (same key, hash, value); an invalidate that took an entry out of the map queues its `Remove` record;
// schedule_write_op returns only after exactly the record it was given is in the queue (its busy-wait has no variant:
// termination unchecked, C09 not applicable). The map update itself (`do_insert_with_hash`: DashMap entry API with closures
// capturing `&mut`) and the channel are assumed.
use vstd::prelude::*;
verus! {
pub mod env {
use vstd::prelude::*;
use std::time::Duration;
use std::sync::Arc;
use std::borrow::Borrow;
use std::hash::{BuildHasher, Hash};

pub type KeyId = int;
pub uninterp spec fn kid<Q: ?Sized>(q: &Q) -> KeyId;

#[derive(Clone, Copy)]
#[verifier::external_body]
pub struct Instant { x: u64 }
impl Instant { pub uninterp spec fn t(&self) -> int; }
pub uninterp spec fn dur_ns(d: Duration) -> int;
pub open spec fn max_dur_ns() -> int { 1000int * 365 * 24 * 3600 * 1_000_000_000 }
pub broadcast axiom fn axiom_dur_nonneg(d: Duration) ensures #[trigger] dur_ns(d) >= 0;
pub assume_specification [Duration::is_zero] (d: &Duration) -> (r: bool) ensures r == (dur_ns(*d) == 0);
impl PartialEq for Instant {
    #[verifier::external_body]
    fn eq(&self, o: &Instant) -> (r: bool) ensures r == (self.t() == o.t()) { unimplemented!() }
}
impl PartialOrd for Instant {
    #[verifier::external_body]
    fn partial_cmp(&self, o: &Instant) -> (r: Option<std::cmp::Ordering>) { unimplemented!() }
    #[verifier::external_body]
    fn le(&self, o: &Instant) -> (r: bool) ensures r == (self.t() <= o.t()) { unimplemented!() }
    #[verifier::external_body]
    fn lt(&self, o: &Instant) -> (r: bool) ensures r == (self.t() < o.t()) { unimplemented!() }
    #[verifier::external_body]
    fn ge(&self, o: &Instant) -> (r: bool) ensures r == (self.t() >= o.t()) { unimplemented!() }
    #[verifier::external_body]
    fn gt(&self, o: &Instant) -> (r: bool) ensures r == (self.t() > o.t()) { unimplemented!() }
}
impl Instant {
    #[verifier::external_body]
    pub fn checked_add(&self, d: Duration) -> (r: Option<Instant>)
        ensures dur_ns(d) <= max_dur_ns() ==> r.is_some() && r.unwrap().t() == self.t() + dur_ns(d) //@ [C08]
    { unimplemented!() }
}
pub trait AccessTime {
    spec fn sp_last_accessed(&self) -> Option<Instant>;
    spec fn sp_last_modified(&self) -> Option<Instant>;
    fn last_accessed(&self) -> (r: Option<Instant>) ensures r == self.sp_last_accessed();
    fn last_modified(&self) -> (r: Option<Instant>) ensures r == self.sp_last_modified();
}

#[verifier::allow(undeclared_external_trait)]
pub assume_specification<T> [std::mem::drop] (_0: T) where T: std::marker::Destruct;

/// triomphe::Arc
#[verifier::external_body]
#[verifier::reject_recursive_types(T)]
pub struct TrioArc<T> { p: std::marker::PhantomData<T> }
impl<T> TrioArc<T> {
    pub uninterp spec fn view(&self) -> T;
    #[verifier::external_body]
    pub fn clone(this: &Self) -> (r: Self) ensures r == *this { unimplemented!() }
    #[verifier::external_body]
    pub fn new(data: T) -> (r: Self) ensures r@ == data { unimplemented!() }
}
impl<T> std::ops::Deref for TrioArc<T> {
    type Target = T;
    #[verifier::external_body]
    fn deref(&self) -> (r: &T) ensures *r == self@ { unimplemented!() }
}

/// src/common/concurrent/entry_info.rs (atomics and a Mutex, shared through `&self`): ASSUMED here; the sequential meaning of
/// every accessor is checked on the real code by the Kani harnesses `entry_info_*` (complete for one thread). `sp_*()` = what
/// the slot holds when this call reads it; a setter through `&self` cannot appear in a postcondition, what it gives is the FACT
/// that this value has been stored (`sp_wrote_*`, uninterpreted, only ever established by the setter itself).
#[verifier::external_body]
#[verifier::reject_recursive_types(K)]
pub struct EntryInfo<K> { k: std::marker::PhantomData<K> }
impl<K> EntryInfo<K> {
    pub uninterp spec fn sp_admitted(&self) -> bool;
    pub uninterp spec fn sp_dirty(&self) -> bool;
    pub uninterp spec fn sp_w(&self) -> u32;
    pub uninterp spec fn sp_ta(&self) -> Option<Instant>;
    pub uninterp spec fn sp_tm(&self) -> Option<Instant>;
    pub uninterp spec fn sp_wrote_dirty(&self, v: bool) -> bool;
    pub uninterp spec fn sp_wrote_w(&self, w: u32) -> bool;
    pub uninterp spec fn sp_wrote_ta(&self, t: Instant) -> bool;
    pub uninterp spec fn sp_wrote_tm(&self, t: Instant) -> bool;
//@@ SIG file=src/common/concurrent/entry_info.rs owner=EntryInfo name=new
    #[verifier::external_body]
    pub fn new(timestamp: Instant, policy_weight: u32) -> (r: Self)
        ensures !r.sp_admitted(), r.sp_dirty(), r.sp_w() == policy_weight, r.sp_ta() == Some(timestamp), r.sp_tm() == Some(timestamp)
    { unimplemented!() }
//@@ END
//@@ SIG file=src/common/concurrent/entry_info.rs owner=EntryInfo name=set_dirty
    #[verifier::external_body]
    pub fn set_dirty(&self, value: bool) ensures self.sp_wrote_dirty(value) { unimplemented!() }
//@@ END
//@@ SIG file=src/common/concurrent/entry_info.rs owner=EntryInfo name=set_policy_weight
    #[verifier::external_body]
    pub fn set_policy_weight(&self, size: u32) ensures self.sp_wrote_w(size) { unimplemented!() }
//@@ END
//@@ SIG file=src/common/concurrent/entry_info.rs owner=EntryInfo name=policy_weight
    #[verifier::external_body]
    pub fn policy_weight(&self) -> (r: u32) ensures r == self.sp_w() { unimplemented!() }
//@@ END
    /// `impl AccessTime for EntryInfo`
    #[verifier::external_body]
    pub fn set_last_accessed(&self, timestamp: Instant) ensures self.sp_wrote_ta(timestamp) { unimplemented!() }
    #[verifier::external_body]
    pub fn set_last_modified(&self, timestamp: Instant) ensures self.sp_wrote_tm(timestamp) { unimplemented!() }
}
/// src/common/concurrent.rs (its accessors are proved on the real text in unit `sync_maint`)
#[verifier::reject_recursive_types(K)]
pub struct ValueEntry<K, V> { pub value: V, pub info: TrioArc<EntryInfo<K>> }
impl<K, V> ValueEntry<K, V> {
    /// the timestamps are atomics shared with the list nodes: "what this call reads"
    pub open spec fn ta(&self) -> Option<Instant> { self.info@.sp_ta() }
    pub open spec fn tm(&self) -> Option<Instant> { self.info@.sp_tm() }
    pub open spec fn dirty(&self) -> bool { self.info@.sp_dirty() }
//@@ SIG file=src/common/concurrent.rs owner=ValueEntry name=is_dirty
    #[verifier::external_body]
    pub fn is_dirty(&self) -> (r: bool) ensures r == self.dirty() { unimplemented!() }
//@@ END
//@@ SIG file=src/common/concurrent.rs owner=ValueEntry name=new
    #[verifier::external_body]
    pub fn new(value: V, entry_info: TrioArc<EntryInfo<K>>) -> (r: Self) ensures r.value == value, r.info == entry_info { unimplemented!() }
//@@ END
//@@ SIG file=src/common/concurrent.rs owner=ValueEntry name=entry_info
    #[verifier::external_body]
    pub fn entry_info(&self) -> (r: &TrioArc<EntryInfo<K>>) ensures *r == self.info { unimplemented!() }
//@@ END
//@@ SIG file=src/common/concurrent.rs owner=ValueEntry name=policy_weight
    #[verifier::external_body]
    pub fn policy_weight(&self) -> (r: u32) ensures r == self.info@.sp_w() { unimplemented!() }
//@@ END
}
impl<K, V> AccessTime for TrioArc<ValueEntry<K, V>> {
    open spec fn sp_last_accessed(&self) -> Option<Instant> { self@.ta() }
    open spec fn sp_last_modified(&self) -> Option<Instant> { self@.tm() }
    #[verifier::external_body]
    fn last_accessed(&self) -> (r: Option<Instant>) { unimplemented!() }
    #[verifier::external_body]
    fn last_modified(&self) -> (r: Option<Instant>) { unimplemented!() }
}

/// dashmap::mapref::one::Ref
#[verifier::external_body]
#[verifier::reject_recursive_types(K)]
#[verifier::reject_recursive_types(V)]
pub struct CacheEntryRef<'a, K, V> { p: std::marker::PhantomData<&'a (K, V)> }
impl<'a, K, V> CacheEntryRef<'a, K, V> { pub uninterp spec fn view(&self) -> TrioArc<ValueEntry<K, V>>; }
impl<'a, K, V> std::ops::Deref for CacheEntryRef<'a, K, V> {
    type Target = TrioArc<ValueEntry<K, V>>;
    #[verifier::external_body]
    fn deref(&self) -> (r: &TrioArc<ValueEntry<K, V>>) ensures *r == self@ { unimplemented!() }
}

#[verifier::external_body]
pub struct AtomicInstant { x: u64 }

#[verifier::reject_recursive_types(K)]
#[verifier::reject_recursive_types(V)]
pub enum ReadOp<K, V> {
    Hit(u64, TrioArc<ValueEntry<K, V>>, Instant),
    Miss(u64),
}
/// crossbeam_channel::TrySendError
#[verifier::reject_recursive_types(T)]
pub enum TrySendError<T> { Full(T), Disconnected(T) }
impl<T> std::fmt::Debug for TrySendError<T> {
    #[verifier::external_body]
    fn fmt(&self, f: &mut std::fmt::Formatter<'_>) -> std::fmt::Result { unimplemented!() }
}
/// crossbeam_channel::Sender, shared through `&self`: `sp_sent(x)` = "this call has put record x into the channel". ASSUMED:
/// a full channel hands the record back unchanged; the channel is never disconnected while the cache lives (the receiving end
/// is a field of `Inner`, which every handle keeps alive through an `Arc`).
#[verifier::external_body]
#[verifier::reject_recursive_types(T)]
pub struct Sender<T> { p: std::marker::PhantomData<T> }
impl<T> Sender<T> {
    pub uninterp spec fn sp_sent(&self, x: T) -> bool;
    #[verifier::external_body]
    pub fn try_send(&self, msg: T) -> (r: Result<(), TrySendError<T>>)
        ensures match r { Ok(_) => self.sp_sent(msg), Err(TrySendError::Full(m)) => m == msg, Err(TrySendError::Disconnected(_)) => false }
    { unimplemented!() }
    #[verifier::external_body]
    pub fn len(&self) -> (r: usize) { unimplemented!() }
}
/// dashmap::mapref::multiple::RefMulti and dashmap::iter::Iter (ASSUMED): the iterator hands out references to bindings of the
/// map; `sp_rem` shrinks with every item. Which bindings, how often and under which interleavings is dashmap's contract and
/// NOT modelled (C16 is not applicable).
#[verifier::external_body]
#[verifier::reject_recursive_types(K)]
#[verifier::reject_recursive_types(V)]
pub struct DashMapRef<'a, K, V> { p: std::marker::PhantomData<&'a (K, V)> }
impl<'a, K, V> DashMapRef<'a, K, V> {
    pub uninterp spec fn sp_key(&self) -> Arc<K>;
    pub uninterp spec fn sp_value(&self) -> TrioArc<ValueEntry<K, V>>;
    #[verifier::external_body]
    pub fn key(&self) -> (r: &Arc<K>) ensures *r == self.sp_key() { unimplemented!() }
    #[verifier::external_body]
    pub fn value(&self) -> (r: &TrioArc<ValueEntry<K, V>>) ensures *r == self.sp_value() { unimplemented!() }
}
#[verifier::external_body]
#[verifier::reject_recursive_types(K)]
#[verifier::reject_recursive_types(V)]
#[verifier::reject_recursive_types(S)]
pub struct DashMapIter<'a, K, V, S> { p: std::marker::PhantomData<&'a (K, V, S)> }
impl<'a, K, V, S> DashMapIter<'a, K, V, S> {
    pub uninterp spec fn sp_rem(&self) -> nat;
    #[verifier::external_body]
    pub fn next(&mut self) -> (r: Option<DashMapRef<'a, K, V>>)
        ensures r.is_some() ==> final(self).sp_rem() < old(self).sp_rem()
        no_unwind
    { unimplemented!() }
}
// ---- opaque field types of `Inner` (shared state behind `&self`): only construction is specified ----
#[verifier::external_body]
#[verifier::reject_recursive_types(T)]
pub struct AtomicCell<T> { p: std::marker::PhantomData<T> }
impl<T: Default> Default for AtomicCell<T> { #[verifier::external_body] fn default() -> Self { unimplemented!() } }
#[verifier::external_body]
#[verifier::reject_recursive_types(T)]
pub struct Mutex<T> { p: std::marker::PhantomData<T> }
impl<T> Mutex<T> { #[verifier::external_body] pub fn new(t: T) -> Self { unimplemented!() } }
#[verifier::external_body]
#[verifier::reject_recursive_types(T)]
pub struct RwLock<T> { p: std::marker::PhantomData<T> }
impl<T> RwLock<T> {
    /// what the lock holds when it is created (afterwards: shared state)
    pub uninterp spec fn sp_init(&self) -> T;
    #[verifier::external_body] pub fn new(t: T) -> (r: Self) ensures r.sp_init() == t { unimplemented!() }
}
#[verifier::external_body]
pub struct AtomicBool { x: u8 }
impl AtomicBool {
    /// the value the flag is created with (afterwards: shared state)
    pub uninterp spec fn sp_init(&self) -> bool;
    #[verifier::external_body] pub fn new(v: bool) -> (r: Self) ensures r.sp_init() == v { unimplemented!() }
}
impl Default for AtomicBool { #[verifier::external_body] fn default() -> (r: Self) ensures !r.sp_init() { unimplemented!() } }
impl Default for AtomicInstant { #[verifier::external_body] fn default() -> Self { unimplemented!() } }
/// src/common/concurrent/atomic_time.rs (RwLock<Option<Instant>>): ASSUMED here; sequential meaning checked on the real code by
/// the Kani harness `atomic_instant_roundtrip`. `sp_instant()` = what this call reads.
impl AtomicInstant {
    pub uninterp spec fn sp_instant(&self) -> Option<Instant>;
    pub uninterp spec fn sp_wrote(&self, t: Instant) -> bool;
//@@ SIG file=src/common/concurrent/atomic_time.rs owner=AtomicInstant name=instant
    #[verifier::external_body]
    pub fn instant(&self) -> (r: Option<Instant>) ensures r == self.sp_instant() { unimplemented!() }
//@@ END
//@@ SIG file=src/common/concurrent/atomic_time.rs owner=AtomicInstant name=is_set
    #[verifier::external_body]
    pub fn is_set(&self) -> (r: bool) ensures r == self.sp_instant().is_some() { unimplemented!() }
//@@ END
//@@ SIG file=src/common/concurrent/atomic_time.rs owner=AtomicInstant name=set_instant
    #[verifier::external_body]
    pub fn set_instant(&self, instant: Instant) ensures self.sp_wrote(instant) { unimplemented!() }
//@@ END
}
impl<T: Copy> AtomicCell<T> {
    pub uninterp spec fn sp_val(&self) -> T;
    #[verifier::external_body]
    pub fn load(&self) -> (r: T) ensures r == self.sp_val() { unimplemented!() }
}
#[verifier::external_body]
#[verifier::reject_recursive_types(K)]
pub struct Deques<K> { p: std::marker::PhantomData<K> }
impl<K> Default for Deques<K> { #[verifier::external_body] fn default() -> Self { unimplemented!() } }
#[verifier::external_body]
pub struct FrequencySketch { x: u64 }
pub uninterp spec fn sketch_default() -> FrequencySketch;
impl Default for FrequencySketch { #[verifier::external_body] fn default() -> (r: Self) ensures r == sketch_default() { unimplemented!() } }
impl FrequencySketch {
    pub uninterp spec fn ensured(&self, cap: u32) -> FrequencySketch;
//@@ SIG file=src/common/frequency_sketch.rs owner=FrequencySketch name=ensure_capacity
    #[verifier::external_body]
    pub fn ensure_capacity(&mut self, cap: u32) ensures *final(self) == old(self).ensured(cap) { unimplemented!() }
//@@ END
}
pub mod common {
    use vstd::prelude::*;
    /// Kani harness `sketch_capacity_clamps` (complete)
//@@ SIG file=src/common.rs owner=- name=sketch_capacity
    #[verifier::external_body]
    pub fn sketch_capacity(max_capacity: u64) -> (r: u32) ensures r >= 128 { unimplemented!() }
//@@ END
}
#[verifier::external_body]
pub struct Clock { x: u64 }
/// `Arc<dyn Fn(&K, &V) -> u32 + Send + Sync>` (Verus rejects `dyn` with more than one trait): opaque
#[verifier::external_body]
#[verifier::reject_recursive_types(K)]
#[verifier::reject_recursive_types(V)]
pub struct Weigher<K, V> { p: std::marker::PhantomData<(K, V)> }
#[verifier::external_body]
#[verifier::reject_recursive_types(T)]
pub struct Receiver<T> { p: std::marker::PhantomData<T> }
pub mod dashmap {
    use vstd::prelude::*;
    #[verifier::external_body]
    #[verifier::reject_recursive_types(K)]
    #[verifier::reject_recursive_types(V)]
    #[verifier::reject_recursive_types(S)]
    pub struct DashMap<K, V, S> { p: std::marker::PhantomData<(K, V, S)> }
    impl<K, V, S> DashMap<K, V, S> {
        /// an empty map; the capacity hint is unobservable
        #[verifier::external_body]
        pub fn with_capacity_and_hasher(capacity: usize, hasher: S) -> Self { unimplemented!() }
    }
    /// lookups through `&self`: `sp_get(k)` = the binding THIS call finds (shared state)
    impl<K, V, S> DashMap<std::sync::Arc<K>, super::TrioArc<super::ValueEntry<K, V>>, S> {
        pub uninterp spec fn sp_get(&self, k: super::KeyId) -> Option<super::TrioArc<super::ValueEntry<K, V>>>;
        #[verifier::external_body]
        pub fn get<Q: ?Sized>(&self, key: &Q) -> (r: Option<super::CacheEntryRef<'_, K, V>>)
            ensures match r { Some(e) => self.sp_get(super::kid(key)) == Some(e@), None => self.sp_get(super::kid(key)).is_none() }
        { unimplemented!() }
        #[verifier::external_body]
        pub fn iter(&self) -> (r: super::DashMapIter<'_, K, V, S>) { unimplemented!() }
    }
}
pub mod crossbeam_channel {
    use vstd::prelude::*;
    #[verifier::external_body]
    pub fn bounded<T>(cap: usize) -> (super::Sender<T>, super::Receiver<T>) { unimplemented!() }
}
impl Default for Housekeeper { #[verifier::external_body] fn default() -> Self { unimplemented!() } }
/// src/common/concurrent/housekeeper.rs
pub trait InnerSync {
    fn sync(&self, max_sync_repeats: usize);
    fn now(&self) -> Instant;
}
/// sequential meaning checked on the real code by the Kani harnesses `housekeeper_*`; when maintenance runs is a schedule
/// matter (C09 not applicable): no postcondition here
impl Housekeeper {
//@@ SIG file=src/common/concurrent/housekeeper.rs owner=Housekeeper name=should_apply_reads
    #[verifier::external_body]
    pub fn should_apply_reads(&self, ch_len: usize, now: Instant) -> bool { unimplemented!() }
//@@ END
//@@ SIG file=src/common/concurrent/housekeeper.rs owner=Housekeeper name=should_apply_writes
    #[verifier::external_body]
    pub fn should_apply_writes(&self, ch_len: usize, now: Instant) -> bool { unimplemented!() }
//@@ END
//@@ SIG file=src/common/concurrent/housekeeper.rs owner=Housekeeper name=try_sync
    #[verifier::external_body]
    pub fn try_sync<T: InnerSync>(&self, cache: &T) -> bool { unimplemented!() }
//@@ END
}
/// std's default hasher state: opaque
#[verifier::external_body]
pub struct RandomState { x: u64 }
impl Default for RandomState { #[verifier::external_body] fn default() -> Self { unimplemented!() } }
impl Clone for RandomState { #[verifier::external_body] fn clone(&self) -> Self { unimplemented!() } }
/// src/common/concurrent/housekeeper.rs (atomics): opaque
#[verifier::external_body]
pub struct Housekeeper { x: u64 }
pub assume_specification [std::thread::sleep] (dur: Duration);
pub assume_specification [Duration::from_micros] (micros: u64) -> Duration;
pub uninterp spec fn arc_reads<T: std::marker::MetaSized + ?Sized, A: std::alloc::Allocator>(a: &std::sync::Arc<T, A>, r: &T) -> bool;
pub assume_specification<T, A> [<std::sync::Arc<T, A> as std::convert::AsRef<T>>::as_ref] (a: &std::sync::Arc<T, A>) -> (r: &T)
    where A: std::alloc::Allocator, T: std::marker::MetaSized + ?Sized
    ensures arc_reads(a, r);
pub broadcast axiom fn axiom_arc_reads<T>(a: &Arc<T>, r: &T)
    ensures #[trigger] arc_reads(a, r) ==> *r == **a;

#[verifier::external_body]
pub struct Policy { x: u64 }
impl Policy {
    pub uninterp spec fn sp_max_capacity(&self) -> Option<u64>;
    pub uninterp spec fn sp_ttl(&self) -> Option<Duration>;
    pub uninterp spec fn sp_tti(&self) -> Option<Duration>;
    /// contract proved in the `config` unit on the real text of src/policy.rs
//@@ SIG file=src/policy.rs owner=Policy name=new types=loose
    #[verifier::external_body]
    pub fn new(max_capacity: Option<u64>, time_to_live: Option<Duration>, time_to_idle: Option<Duration>) -> (r: Policy)
        ensures r.sp_max_capacity() == max_capacity, r.sp_ttl() == time_to_live, r.sp_tti() == time_to_idle
    { unimplemented!() }
//@@ END
}
} // mod env

pub mod code {
use vstd::prelude::*;
use std::time::Duration;
use std::sync::Arc;
use std::borrow::Borrow;
use std::hash::{BuildHasher, Hash};
use super::env::*;
broadcast use {axiom_dur_nonneg, axiom_arc_reads};

/// C05 / C07 (concurrent cache), from the property statements: hidden iff written STRICTLY before the invalidate_all
/// watermark, or the time-to-live has elapsed
pub open spec fn sp_expired_wo(ttl: Option<Duration>, va: Option<Instant>, tm: Option<Instant>, now: Instant) -> bool {
    tm.is_some() && ((va.is_some() && tm.unwrap().t() < va.unwrap().t()) || (ttl.is_some() && tm.unwrap().t() + dur_ns(ttl.unwrap()) <= now.t()))
}
/// C06 / C07: the same for the idle timer
pub open spec fn sp_expired_ao(tti: Option<Duration>, va: Option<Instant>, ta: Option<Instant>, now: Instant) -> bool {
    ta.is_some() && ((va.is_some() && ta.unwrap().t() < va.unwrap().t()) || (tti.is_some() && ta.unwrap().t() + dur_ns(tti.unwrap()) <= now.t()))
}
/// what a lookup answers for an entry it has read, at reading `now`
pub open spec fn sp_hidden<K, V>(ttl: Option<Duration>, tti: Option<Duration>, va: Option<Instant>, e: TrioArc<ValueEntry<K, V>>, now: Instant) -> bool {
    sp_expired_wo(ttl, va, e@.tm(), now) || sp_expired_ao(tti, va, e@.ta(), now)
}

//@@ FN file=src/sync/base_cache.rs owner=- name=is_expired_entry_ao tags=C06,C07
fn is_expired_entry_ao(
    time_to_idle: &Option<Duration>,
    valid_after: &Option<Instant>,
    entry: &impl AccessTime,
    now: Instant,
) -> /*@+*/(r:/*@-*/ bool/*@+*/)/*@-*/
    requires time_to_idle.is_some() ==> dur_ns(time_to_idle.unwrap()) <= max_dur_ns(), //@ [C08]
    ensures r == sp_expired_ao(*time_to_idle, *valid_after, entry.sp_last_accessed(), now), //@ [C06,C07,C01,C03]
{
    if let Some(ts) = entry.last_accessed() {
        if let Some(va) = valid_after {
            if ts < *va {
                return true;
            }
        }
        if let Some(tti) = time_to_idle {
            let checked_add = ts.checked_add(*tti);
            if checked_add.is_none() {
                panic!("ttl overflow")
            }
            return checked_add.unwrap() <= now;
        }
    }
    false
}
//@@ END

//@@ FN file=src/sync/base_cache.rs owner=- name=is_expired_entry_wo tags=C05,C07
fn is_expired_entry_wo(
    time_to_live: &Option<Duration>,
    valid_after: &Option<Instant>,
    entry: &impl AccessTime,
    now: Instant,
) -> /*@+*/(r:/*@-*/ bool/*@+*/)/*@-*/
    requires time_to_live.is_some() ==> dur_ns(time_to_live.unwrap()) <= max_dur_ns(), //@ [C08]
    ensures r == sp_expired_wo(*time_to_live, *valid_after, entry.sp_last_modified(), now), //@ [C05,C07,C01,C03]
{
    if let Some(ts) = entry.last_modified() {
        if let Some(va) = valid_after {
            if ts < *va {
                return true;
            }
        }
        if let Some(ttl) = time_to_live {
            let checked_add = ts.checked_add(*ttl);
            if checked_add.is_none() {
                panic!("ttl overflow");
            }
            return checked_add.unwrap() <= now;
        }
    }
    false
}
//@@ END

//@@ STRUCT file=src/sync/base_cache.rs name=EvictionCounters
pub struct EvictionCounters {
    pub entry_count: u64,
    pub weighted_size: u64,
}
//@@ END

impl EvictionCounters {
//@@ FN file=src/sync/base_cache.rs owner=EvictionCounters name=new tags=C10
    fn new(entry_count: u64, weighted_size: u64) -> /*@+*/(r:/*@-*/ Self/*@+*/)/*@-*/
        ensures r.entry_count == entry_count, r.weighted_size == weighted_size //@ [C10]
    {
        Self {
            entry_count,
            weighted_size,
        }
    }
//@@ END

//@@ FN file=src/sync/base_cache.rs owner=EvictionCounters name=saturating_add tags=C10
    fn saturating_add(&mut self, entry_count: u64, weight: u32)
        requires old(self).entry_count + entry_count <= u64::MAX, //@ [C08]
        ensures final(self).entry_count == old(self).entry_count + entry_count, //@ [C10]
            final(self).weighted_size == if old(self).weighted_size + weight <= u64::MAX { (old(self).weighted_size + weight) as u64 } else { u64::MAX }, //@ [C10,C04]
    {
        self.entry_count += entry_count;
        let total = &mut self.weighted_size;
        *total = total.saturating_add(weight as u64);
    }
//@@ END

//@@ FN file=src/sync/base_cache.rs owner=EvictionCounters name=saturating_sub tags=C10
    fn saturating_sub(&mut self, entry_count: u64, weight: u32)
        requires old(self).entry_count >= entry_count, //@ [C08,C10]
        ensures final(self).entry_count == old(self).entry_count - entry_count, //@ [C10]
            final(self).weighted_size == if old(self).weighted_size >= weight { (old(self).weighted_size - weight) as u64 } else { 0 }, //@ [C10,C03]
    {
        self.entry_count -= entry_count;
        let total = &mut self.weighted_size;
        *total = total.saturating_sub(weight as u64);
    }
//@@ END
}

type CacheStore<K, V, S> = dashmap::DashMap<Arc<K>, TrioArc<ValueEntry<K, V>>, S>;
//@@ CONST file=src/common/concurrent/constants.rs name=MAX_SYNC_REPEATS
//@@ CONST file=src/common/concurrent/constants.rs name=READ_LOG_FLUSH_POINT
//@@ CONST file=src/common/concurrent/constants.rs name=READ_LOG_SIZE
//@@ CONST file=src/common/concurrent/constants.rs name=WRITE_LOG_FLUSH_POINT
//@@ CONST file=src/common/concurrent/constants.rs name=WRITE_LOG_SIZE
//@@ STRUCT file=src/sync/base_cache.rs name=Inner
#[verifier::reject_recursive_types(K)]
#[verifier::reject_recursive_types(V)]
#[verifier::reject_recursive_types(S)]
pub struct Inner<K, V, S> {
    pub max_capacity: Option<u64>,
    pub entry_count: AtomicCell<u64>,
    pub weighted_size: AtomicCell<u64>,
    pub cache: CacheStore<K, V, S>,
    pub build_hasher: S,
    pub deques: Mutex<Deques<K>>,
    pub frequency_sketch: RwLock<FrequencySketch>,
    pub frequency_sketch_enabled: AtomicBool,
    pub read_op_ch: Receiver<ReadOp<K, V>>,
    pub write_op_ch: Receiver<WriteOp<K, V>>,
    pub time_to_live: Option<Duration>,
    pub time_to_idle: Option<Duration>,
    pub valid_after: AtomicInstant,
    pub weigher: Option<Weigher<K, V>>,
    pub has_expiration_clock: AtomicBool,
    pub expiration_clock: RwLock<Option<Clock>>,
}
//@@ END

impl<K, V, S: Clone> Inner<K, V, S> {
    /// the configuration a cache was built with (C17)
    pub open spec fn built_with(&self, max_capacity: Option<u64>, build_hasher: S, weigher: Option<Weigher<K, V>>, time_to_live: Option<Duration>, time_to_idle: Option<Duration>) -> bool {
        self.max_capacity == max_capacity && self.build_hasher == build_hasher && self.weigher == weigher && self.time_to_live == time_to_live && self.time_to_idle == time_to_idle
    }
//@@ FN file=src/sync/base_cache.rs owner=Inner name=new tags=C17
    fn new(
        max_capacity: Option<u64>,
        initial_capacity: Option<usize>,
        build_hasher: S,
        weigher: Option<Weigher<K, V>>,
        read_op_ch: Receiver<ReadOp<K, V>>,
        write_op_ch: Receiver<WriteOp<K, V>>,
        time_to_live: Option<Duration>,
        time_to_idle: Option<Duration>,
    ) -> /*@+*/(r:/*@-*/ Self/*@+*/)/*@-*/
        // ASSUMPTION on the configuration: the initial capacity plus the write-log size fits in usize (a larger request makes the
        // map constructor of the dependency panic on the same input in any case: dashmap / hashbrown "capacity overflow")
        requires initial_capacity.is_some() ==> initial_capacity.unwrap() + WRITE_LOG_SIZE <= usize::MAX, //@ [C08]
        // C17: every knob is stored exactly as given, whatever the initial capacity
        ensures r.built_with(max_capacity, build_hasher, weigher, time_to_live, time_to_idle), r.read_op_ch == read_op_ch, r.write_op_ch == write_op_ch, //@ [C17]
            // ... and the cache starts with the popularity estimator off and untouched, whatever `initial_capacity` is
            !r.frequency_sketch_enabled.sp_init(), r.frequency_sketch.sp_init() == sketch_default(), //@ [C17,C14,C13]
    {
        let initial_capacity = initial_capacity
            .map(|cap| /*@+*/-> (c: usize) requires cap + WRITE_LOG_SIZE <= usize::MAX {/*@-*/ cap + WRITE_LOG_SIZE /*@+*/}/*@-*/)
            .unwrap_or_default();
        let cache =
            dashmap::DashMap::with_capacity_and_hasher(initial_capacity, build_hasher.clone());

        Self {
            max_capacity,
            entry_count: Default::default(),
            weighted_size: Default::default(),
            cache,
            build_hasher,
            deques: Mutex::new(Default::default()),
            frequency_sketch: RwLock::new(Default::default()),
            frequency_sketch_enabled: Default::default(),
            read_op_ch,
            write_op_ch,
            time_to_live,
            time_to_idle,
            valid_after: Default::default(),
            weigher,
            has_expiration_clock: AtomicBool::new(false),
            expiration_clock: RwLock::new(None),
        }
    }
//@@ END
}

impl<K, V, S> Inner<K, V, S> {
    /// the map content / watermark / counters THIS call happens to read: functions of the shared fields; the clock reading stays
    /// an uninterpreted function of `&self`
    pub open spec fn sp_get(&self, k: KeyId) -> Option<TrioArc<ValueEntry<K, V>>> { self.cache.sp_get(k) }
    pub open spec fn sp_valid_after(&self) -> Option<Instant> { self.valid_after.sp_instant() }
    pub open spec fn sp_entry_count(&self) -> u64 { self.entry_count.sp_val() }
    pub open spec fn sp_weighted_size(&self) -> u64 { self.weighted_size.sp_val() }
    pub uninterp spec fn sp_now(&self) -> Instant;
    pub open spec fn cfg_ok(&self) -> bool {
        &&& (self.time_to_live.is_some() ==> dur_ns(self.time_to_live.unwrap()) <= max_dur_ns())
        &&& (self.time_to_idle.is_some() ==> dur_ns(self.time_to_idle.unwrap()) <= max_dur_ns())
    }

//@@ FN file=src/sync/base_cache.rs owner=Inner name=get tags=C01
    fn get<Q>(&self, key: &Q) -> /*@+*/(r:/*@-*/ Option<CacheEntryRef<'_, K, V>>/*@+*/)/*@-*/
    where
        Arc<K>: Borrow<Q>,
        Q: Hash + Eq + ?Sized,
        ensures match r { Some(e) => self.sp_get(kid(key)) == Some(e@), None => self.sp_get(kid(key)).is_none() } //@ [C01]
    {
        self.cache.get(key)
    }
//@@ END
//@@ FN file=src/sync/base_cache.rs owner=Inner name=valid_after tags=C07
    fn valid_after(&self) -> /*@+*/(r:/*@-*/ Option<Instant>/*@+*/)/*@-*/
        ensures r == self.sp_valid_after() //@ [C07]
    {
        self.valid_after.instant()
    }
//@@ END
//@@ FN file=src/sync/base_cache.rs owner=Inner name=has_valid_after tags=C07
    fn has_valid_after(&self) -> /*@+*/(r:/*@-*/ bool/*@+*/)/*@-*/
        ensures r == self.sp_valid_after().is_some() //@ [C07]
    {
        self.valid_after.is_set()
    }
//@@ END
    /// C07: the watermark handed to the shared cell must be this call's clock reading, and it is stored
//@@ FN file=src/sync/base_cache.rs owner=Inner name=set_valid_after tags=C07
    fn set_valid_after(&self, timestamp: Instant)
        requires timestamp == self.sp_now(), //@ [C07]
        ensures self.valid_after.sp_wrote(timestamp) //@ [C07]
    {
        self.valid_after.set_instant(timestamp);
    }
//@@ END
    /// `self.build_hasher.hash_one(key)` (std): ASSUMED a function of the key
    pub uninterp spec fn sp_hash<Q: ?Sized>(&self, key: &Q) -> u64;
//@@ SIG file=src/sync/base_cache.rs owner=Inner name=hash
    #[verifier::external_body]
    pub fn hash<Q>(&self, key: &Q) -> (r: u64)
    where Arc<K>: Borrow<Q>, Q: Hash + Eq + ?Sized
        ensures r == self.sp_hash(key)
    { unimplemented!() }
//@@ END
//@@ SIG file=src/sync/base_cache.rs owner=Inner name=current_time_from_expiration_clock
    #[verifier::external_body]
    pub fn current_time_from_expiration_clock(&self) -> (r: Instant) ensures r == self.sp_now() { unimplemented!() }
//@@ END
//@@ FN file=src/sync/base_cache.rs owner=Inner name=entry_count tags=C10
    fn entry_count(&self) -> /*@+*/(r:/*@-*/ u64/*@+*/)/*@-*/
        ensures r == self.sp_entry_count() //@ [C10]
    {
        self.entry_count.load()
    }
//@@ END
//@@ FN file=src/sync/base_cache.rs owner=Inner name=weighted_size tags=C10
    pub(crate) fn weighted_size(&self) -> /*@+*/(r:/*@-*/ u64/*@+*/)/*@-*/
        ensures r == self.sp_weighted_size() //@ [C10]
    {
        self.weighted_size.load()
    }
//@@ END
    /// DashMap::remove through `&self`: hands out the binding this call found under the key (the one `sp_get` names), if any
//@@ SIG file=src/sync/base_cache.rs owner=Inner name=remove_entry
    #[verifier::external_body]
    pub fn remove_entry<Q>(&self, key: &Q) -> (r: Option<KvEntry<K, V>>)
    where Arc<K>: Borrow<Q>, Q: Hash + Eq + ?Sized
        ensures match r { Some(kv) => self.sp_get(kid(key)) == Some(kv.entry) && kid::<K>(&*kv.key) == kid(key), None => self.sp_get(kid(key)).is_none() }
    { unimplemented!() }
//@@ END

//@@ FN file=src/sync/base_cache.rs owner=Inner name=time_to_live tags=C05,C17
    fn time_to_live(&self) -> /*@+*/(r:/*@-*/ Option<Duration>/*@+*/)/*@-*/
        ensures r == self.time_to_live //@ [C05,C17]
    {
        self.time_to_live
    }
//@@ END

//@@ FN file=src/sync/base_cache.rs owner=Inner name=time_to_idle tags=C06,C17
    fn time_to_idle(&self) -> /*@+*/(r:/*@-*/ Option<Duration>/*@+*/)/*@-*/
        ensures r == self.time_to_idle //@ [C06,C17]
    {
        self.time_to_idle
    }
//@@ END

//@@ FN file=src/sync/base_cache.rs owner=Inner name=policy tags=C17
    fn policy(&self) -> /*@+*/(r:/*@-*/ Policy/*@+*/)/*@-*/
        ensures r.sp_max_capacity() == self.max_capacity, r.sp_ttl() == self.time_to_live, r.sp_tti() == self.time_to_idle //@ [C17]
    {
        Policy::new(self.max_capacity, self.time_to_live, self.time_to_idle)
    }
//@@ END

//@@ FN file=src/sync/base_cache.rs owner=Inner name=has_expiry tags=C05,C06
    fn has_expiry(&self) -> /*@+*/(r:/*@-*/ bool/*@+*/)/*@-*/
        ensures r == (self.time_to_live.is_some() || self.time_to_idle.is_some()) //@ [C05,C06,C17]
    {
        self.time_to_live.is_some() || self.time_to_idle.is_some()
    }
//@@ END

//@@ FN file=src/sync/base_cache.rs owner=Inner name=is_write_order_queue_enabled tags=C05
    fn is_write_order_queue_enabled(&self) -> /*@+*/(r:/*@-*/ bool/*@+*/)/*@-*/
        ensures r == self.time_to_live.is_some() //@ [C05]
    {
        self.time_to_live.is_some()
    }
//@@ END

//@@ FN file=src/sync/base_cache.rs owner=Inner name=has_enough_capacity tags=C03,C04
    fn has_enough_capacity(&self, candidate_weight: u32, counters: &EvictionCounters) -> /*@+*/(r:/*@-*/ bool/*@+*/)/*@-*/
        requires counters.weighted_size + candidate_weight <= u64::MAX, //@ [C08]
        ensures r == match self.max_capacity { Some(limit) => counters.weighted_size + candidate_weight <= limit, None => true } //@ [C03,C04,C17]
    {
        self.max_capacity
            .map(|limit| /*@+*/-> (b: bool) ensures b == (counters.weighted_size + candidate_weight <= limit) {/*@-*/ counters.weighted_size + candidate_weight as u64 <= limit /*@+*/}/*@-*/)
            .unwrap_or(true)
    }
//@@ END

//@@ FN file=src/sync/base_cache.rs owner=Inner name=weights_to_evict tags=C04,C03
    fn weights_to_evict(&self, counters: &EvictionCounters) -> /*@+*/(r:/*@-*/ u64/*@+*/)/*@-*/
        ensures r == match self.max_capacity { Some(l) => if counters.weighted_size > l { (counters.weighted_size - l) as u64 } else { 0 }, None => 0 } //@ [C04,C03,C12,C17]
    {
        self.max_capacity
            .map(|limit| /*@+*/-> (x: u64) ensures x == if counters.weighted_size > limit { (counters.weighted_size - limit) as u64 } else { 0 } {/*@-*/ counters.weighted_size.saturating_sub(limit) /*@+*/}/*@-*/)
            .unwrap_or_default()
    }
//@@ END
}

#[verifier::reject_recursive_types(K)]
#[verifier::reject_recursive_types(V)]
#[verifier::reject_recursive_types(S)]
pub struct BaseCache<K, V, S> {
    pub inner: Arc<Inner<K, V, S>>,
    pub read_op_ch: Sender<ReadOp<K, V>>,
    pub write_op_ch: Sender<WriteOp<K, V>>,
    pub housekeeper: Option<Arc<Housekeeper>>,
}

// ---------------- the records of the write queue (src/common/concurrent.rs) ----------------
//@@ STRUCT file=src/common/concurrent.rs name=KeyHash
#[verifier::reject_recursive_types(K)]
pub struct KeyHash<K> {
    pub key: Arc<K>,
    pub hash: u64,
}
//@@ END
//@@ STRUCT file=src/common/concurrent.rs name=KvEntry
#[verifier::reject_recursive_types(K)]
#[verifier::reject_recursive_types(V)]
pub struct KvEntry<K, V> {
    pub key: Arc<K>,
    pub entry: TrioArc<ValueEntry<K, V>>,
}
//@@ END
//@@ ENUM file=src/common/concurrent.rs name=WriteOp
#[verifier::reject_recursive_types(K)]
#[verifier::reject_recursive_types(V)]
pub enum WriteOp<K, V> {
    Upsert {
        key_hash: KeyHash<K>,
        value_entry: TrioArc<ValueEntry<K, V>>,
        old_weight: u32,
        new_weight: u32,
    },
    Remove(KvEntry<K, V>),
}
//@@ END
//@@ CONST file=src/common/concurrent/constants.rs name=WRITE_RETRY_INTERVAL_MICROS
impl<K, V, S> InnerSync for Inner<K, V, S> {
    #[verifier::external_body]
    fn sync(&self, max_sync_repeats: usize) { unimplemented!() }
    #[verifier::external_body]
    fn now(&self) -> Instant { unimplemented!() }
}

impl<K, V, S> BaseCache<K, V, S> {
    // ---- assumed: hasher, the map update of an insert (closures capturing `&mut`: rejected by Verus), the housekeeper hook ----
    pub open spec fn sp_hash<Q: ?Sized>(&self, key: &Q) -> u64 { self.inner.sp_hash(key) }
//@@ FN file=src/sync/base_cache.rs owner=BaseCache name=hash tags=C14
    pub(crate) fn hash<Q>(&self, key: &Q) -> /*@+*/(r:/*@-*/ u64/*@+*/)/*@-*/
    where
        Arc<K>: Borrow<Q>,
        Q: Hash + Eq + ?Sized,
        ensures r == self.sp_hash(key) //@ [C14]
    {
        self.inner.hash(key)
    }
//@@ END
    /// ASSUMED (DashMap entry API with two closures that capture `&mut`): writes the map and returns the write record for the
    /// maintenance queue: an `Upsert` for this key and hash carrying the new value, and this call's clock reading
//@@ SIG file=src/sync/base_cache.rs owner=BaseCache name=do_insert_with_hash
    #[verifier::external_body]
    pub(crate) fn do_insert_with_hash(&self, key: Arc<K>, hash: u64, value: V) -> (r: (WriteOp<K, V>, Instant))
        ensures r.1 == self.inner.sp_now(), Self::is_upsert_of(r.0, kid::<K>(&*key), hash, value),
    { unimplemented!() }
//@@ END
    pub open spec fn is_upsert_of(op: WriteOp<K, V>, k: KeyId, hash: u64, value: V) -> bool {
        match op {
            WriteOp::Upsert { key_hash, value_entry, old_weight, new_weight } => kid::<K>(&*key_hash.key) == k && key_hash.hash == hash && value_entry@.value == value,
            WriteOp::Remove(_) => false,
        }
    }
//@@ FN file=src/sync/base_cache.rs owner=BaseCache name=apply_reads_writes_if_needed tags=C08
    pub(crate) fn apply_reads_writes_if_needed(
        inner: &impl InnerSync,
        ch: &Sender<WriteOp<K, V>>,
        now: Instant,
        housekeeper: Option<&Arc<Housekeeper>>,
    ) {
        let w_len = ch.len();

        if let Some(hk) = housekeeper {
            if hk.should_apply_writes(w_len, now) {
                hk.try_sync(inner);
            }
        }
    }
//@@ END
//@@ FN file=src/sync/base_cache.rs owner=BaseCache name=apply_reads_if_needed tags=C08
    fn apply_reads_if_needed(&self, inner: &impl InnerSync, now: Instant) {
        let len = self.read_op_ch.len();

        if let Some(hk) = &self.housekeeper {
            if hk.should_apply_reads(len, now) {
                if let Some(h) = &self.housekeeper {
                    h.try_sync(inner);
                }
            }
        }
    }
//@@ END
//@@ FN file=src/sync/base_cache.rs owner=BaseCache name=current_time_from_expiration_clock tags=C05,C06
    pub(crate) fn current_time_from_expiration_clock(&self) -> /*@+*/(r:/*@-*/ Instant/*@+*/)/*@-*/
        ensures r == self.inner.sp_now() //@ [C05,C06,C07]
    {
        self.inner.current_time_from_expiration_clock()
    }
//@@ END

//@@ FN file=src/sync/base_cache.rs owner=BaseCache name=new_value_entry tags=C01,C05,C06,C10
    fn new_value_entry(
        &self,
        value: V,
        timestamp: Instant,
        policy_weight: u32,
    ) -> /*@+*/(r:/*@-*/ TrioArc<ValueEntry<K, V>>/*@+*/)/*@-*/
        // C01 / C05 / C06 / C10: a first insert carries the value, both stamps are the reading of the insert, the weight is the
        // weigher's; it is dirty (its write record is not applied yet) and not admitted
        ensures r@.value == value, r@.ta() == Some(timestamp), r@.tm() == Some(timestamp), r@.info@.sp_w() == policy_weight, //@ [C01,C05,C06,C10]
            r@.dirty(), !r@.info@.sp_admitted(), //@ [C12,C10]
    {
        let info = TrioArc::new(EntryInfo::new(timestamp, policy_weight));
        TrioArc::new(ValueEntry::new(value, info))
    }
//@@ END

//@@ FN file=src/sync/base_cache.rs owner=BaseCache name=new_value_entry_from tags=C01,C05,C06,C10
    fn new_value_entry_from(
        &self,
        value: V,
        timestamp: Instant,
        policy_weight: u32,
        other: &ValueEntry<K, V>,
    ) -> /*@+*/(r:/*@-*/ TrioArc<ValueEntry<K, V>>/*@+*/)/*@-*/
        // an update: the new entry carries the new value and SHARES the bookkeeping record of the old one, into which the dirty
        // flag, both stamps (C05 / C06: an update restarts both intervals, whatever the configuration) and the new weight (C10)
        // have been stored
        ensures r@.value == value, r@.info == other.info, //@ [C01,C11]
            r@.info@.sp_wrote_dirty(true), //@ [C12,C11]
            r@.info@.sp_wrote_ta(timestamp), //@ [C06,C03]
            r@.info@.sp_wrote_tm(timestamp), //@ [C05,C07,C03]
            r@.info@.sp_wrote_w(policy_weight), //@ [C10,C04]
    {
        let info = TrioArc::clone(other.entry_info());
        // To prevent this updated ValueEntry from being evicted by an expiration policy,
        // set the dirty flag to true. It will be reset to false when the write is applied.
        info.set_dirty(true);
        info.set_last_accessed(timestamp);
        info.set_last_modified(timestamp);
        info.set_policy_weight(policy_weight);
        TrioArc::new(ValueEntry::new(value, info))
    }
//@@ END

//@@ FN file=src/sync/base_cache.rs owner=BaseCache name=policy tags=C17
    pub(crate) fn policy(&self) -> /*@+*/(r:/*@-*/ Policy/*@+*/)/*@-*/
        ensures r.sp_max_capacity() == self.inner.max_capacity, r.sp_ttl() == self.inner.time_to_live, r.sp_tti() == self.inner.time_to_idle //@ [C17]
    {
        self.inner.policy()
    }
//@@ END

//@@ FN file=src/sync/base_cache.rs owner=BaseCache name=entry_count tags=C10
    pub(crate) fn entry_count(&self) -> /*@+*/(r:/*@-*/ u64/*@+*/)/*@-*/
        ensures r == self.inner.sp_entry_count() //@ [C10]
    {
        self.inner.entry_count()
    }
//@@ END

//@@ FN file=src/sync/base_cache.rs owner=BaseCache name=weighted_size tags=C10
    pub(crate) fn weighted_size(&self) -> /*@+*/(r:/*@-*/ u64/*@+*/)/*@-*/
        ensures r == self.inner.sp_weighted_size() //@ [C10]
    {
        self.inner.weighted_size()
    }
//@@ END

//@@ FN file=src/sync/base_cache.rs owner=BaseCache name=remove_entry tags=C07,C10
    pub(crate) fn remove_entry<Q>(&self, key: &Q) -> /*@+*/(r:/*@-*/ Option<KvEntry<K, V>>/*@+*/)/*@-*/
    where
        Arc<K>: Borrow<Q>,
        Q: Hash + Eq + ?Sized,
        ensures match r { Some(kv) => self.inner.sp_get(kid(key)) == Some(kv.entry) && kid::<K>(&*kv.key) == kid(key), None => self.inner.sp_get(kid(key)).is_none() } //@ [C07,C10,C11]
    {
        self.inner.remove_entry(key)
    }
//@@ END

    /// queues the read record. The recorded access time of a hit must be this call's reading (C06); the record is handed to the
    /// channel at most once (C14: a get is recorded at most once), a full channel drops it, and the call never fails.
//@@ FN file=src/sync/base_cache.rs owner=BaseCache name=record_read_op tags=C06,C14
    fn record_read_op(
        &self,
        op: ReadOp<K, V>,
        now: Instant,
    ) -> /*@+*/(r:/*@-*/ Result<(), TrySendError<ReadOp<K, V>>>/*@+*/)/*@-*/
        requires match op { ReadOp::Hit(_, _, ts) => ts == now, ReadOp::Miss(_) => true }, //@ [C06]
        ensures r.is_ok(), //@ [C08,C14]
    {
        self.apply_reads_if_needed(self.inner.as_ref(), now);
        let ch = &self.read_op_ch;
        match ch.try_send(op) {
            // Discard the ReadOp when the channel is full.
            Ok(()) | Err(TrySendError::Full(_)) => Ok(()),
            Err(e @ TrySendError::Disconnected(_)) => Err(e),
        }
    }
//@@ END

//@@ FN file=src/sync/base_cache.rs owner=BaseCache name=contains_key tags=C01,C15
    pub(crate) fn contains_key<Q>(&self, key: &Q) -> /*@+*/(r:/*@-*/ bool/*@+*/)/*@-*/
    where
        Arc<K>: Borrow<Q>,
        Q: Hash + Eq + ?Sized,
        requires self.inner.cfg_ok(), //@
        ensures // C01/C05/C06/C07: present in the map and neither expired nor written before the watermark, at this call's reading //@
            r == match self.inner.sp_get(kid(key)) { //@ [C01,C03,C05,C06,C07]
                Some(e) => !sp_hidden(self.inner.time_to_live, self.inner.time_to_idle, self.inner.sp_valid_after(), e, self.inner.sp_now()), //@
                None => false, //@
            }, //@
    {
        match self.inner.get(key) {
            None => false,
            Some(entry) => {
                let i = &self.inner;
                let (ttl, tti, va) = (&i.time_to_live(), &i.time_to_idle(), &i.valid_after());
                let now = i.current_time_from_expiration_clock();
                let entry = &*entry;

                !is_expired_entry_wo(ttl, va, entry, now)
                    && !is_expired_entry_ao(tti, va, entry, now)
            }
        }
    }
//@@ END

//@@ FN file=src/sync/base_cache.rs owner=BaseCache name=is_expired_entry tags=C01,C05,C06
    pub(crate) fn is_expired_entry(&self, entry: &TrioArc<ValueEntry<K, V>>) -> /*@+*/(r:/*@-*/ bool/*@+*/)/*@-*/
        requires self.inner.cfg_ok(), //@
        ensures r == sp_hidden(self.inner.time_to_live, self.inner.time_to_idle, self.inner.sp_valid_after(), *entry, self.inner.sp_now()), //@ [C01,C05,C06,C07]
    {
        let i = &self.inner;
        let (ttl, tti, va) = (&i.time_to_live(), &i.time_to_idle(), &i.valid_after());
        let now = i.current_time_from_expiration_clock();

        is_expired_entry_wo(ttl, va, entry, now) || is_expired_entry_ao(tti, va, entry, now)
    }
//@@ END

//@@ FN file=src/sync/base_cache.rs owner=BaseCache name=invalidate_all tags=C07
    pub(crate) fn invalidate_all(&self)
    {
        let now = self.inner.current_time_from_expiration_clock();
        self.inner.set_valid_after(now);
    }
//@@ END
}

impl<K, V, S: Clone> BaseCache<K, V, S> {
//@@ FN file=src/sync/base_cache.rs owner=BaseCache name=new tags=C17
    pub(crate) fn new(
        max_capacity: Option<u64>,
        initial_capacity: Option<usize>,
        build_hasher: S,
        weigher: Option<Weigher<K, V>>,
        time_to_live: Option<Duration>,
        time_to_idle: Option<Duration>,
    ) -> /*@+*/(r:/*@-*/ Self/*@+*/)/*@-*/
        requires initial_capacity.is_some() ==> initial_capacity.unwrap() + WRITE_LOG_SIZE <= usize::MAX, //@ [C08]
        ensures r.inner.built_with(max_capacity, build_hasher, weigher, time_to_live, time_to_idle), //@ [C17]
    {
        let (r_snd, r_rcv) = crossbeam_channel::bounded(READ_LOG_SIZE);
        let (w_snd, w_rcv) = crossbeam_channel::bounded(WRITE_LOG_SIZE);

        let inner = Inner::new(
            max_capacity,
            initial_capacity,
            build_hasher,
            weigher,
            r_rcv,
            w_rcv,
            time_to_live,
            time_to_idle,
        );
        Self {
            #[cfg_attr(beta_clippy, allow(clippy::arc_with_non_send_sync))]
            inner: Arc::new(inner),
            read_op_ch: r_snd,
            write_op_ch: w_snd,
            housekeeper: Some(Arc::new(Housekeeper::default())),
        }
    }
//@@ END
}
impl<K, V: Clone, S> BaseCache<K, V, S> {
//@@ FN file=src/sync/base_cache.rs owner=BaseCache name=get_with_hash tags=C01,C06
    pub(crate) fn get_with_hash<Q>(&self, key: &Q, hash: u64) -> /*@+*/(r:/*@-*/ Option<V>/*@+*/)/*@-*/
    where
        Arc<K>: Borrow<Q>,
        Q: Hash + Eq + ?Sized,
        requires self.inner.cfg_ok(), //@
        ensures // C01/C05/C06/C07: a value is returned iff the entry read from the map is neither expired nor invalidated at this reading //@
            r.is_some() == match self.inner.sp_get(kid(key)) { //@ [C01,C03,C05,C06,C07]
                Some(e) => !sp_hidden(self.inner.time_to_live, self.inner.time_to_idle, self.inner.sp_valid_after(), e, self.inner.sp_now()), //@
                None => false, //@
            }, //@
    {
        let record = |op, now| /*@+*/-> (u: ()) requires (match op { ReadOp::Hit(_, _, ts) => ts == now, ReadOp::Miss(_) => true })/*@-*/ {
            self.record_read_op(op, now)
                .expect("Failed to record a get op");
        };
        let now = self.inner.current_time_from_expiration_clock();

        match self.inner.get(key) {
            None => {
                record(ReadOp::Miss(hash), now);
                None
            }
            Some(entry) => {
                let i = &self.inner;
                let (ttl, tti, va) = (&i.time_to_live(), &i.time_to_idle(), &i.valid_after());
                let arc_entry = &*entry;

                if is_expired_entry_wo(ttl, va, arc_entry, now)
                    || is_expired_entry_ao(tti, va, arc_entry, now)
                {
                    // Drop the entry to avoid to deadlock with record_read_op.
                    std::mem::drop(entry);
                    // Expired or invalidated entry. Record this access as a cache miss
                    // rather than a hit.
                    record(ReadOp::Miss(hash), now);
                    None
                } else {
                    // Valid entry.
                    let v = arc_entry.value.clone();
                    let e = TrioArc::clone(arc_entry);
                    // Drop the entry to avoid to deadlock with record_read_op.
                    std::mem::drop(entry);
                    record(ReadOp::Hit(hash, e, now), now);
                    Some(v)
                }
            }
        }
    }
//@@ END
}

// ---------------- src/sync/cache.rs: the public front end (C01, C07, C10, C17: what each call hands on) ----------------
//@@ STRUCT file=src/sync/cache.rs name=Cache
#[verifier::reject_recursive_types(K)]
#[verifier::reject_recursive_types(V)]
#[verifier::reject_recursive_types(S)]
pub struct Cache<K, V, S = RandomState> {
    base: BaseCache<K, V, S>,
}
//@@ END
impl<K, V, S> Cache<K, V, S> {
    pub closed spec fn sp_base(&self) -> BaseCache<K, V, S> { self.base }

//@@ FN file=src/sync/cache.rs owner=Cache name=policy tags=C17
    pub fn policy(&self) -> /*@+*/(r:/*@-*/ Policy/*@+*/)/*@-*/
        // C17: reports exactly the three knobs stored at construction
        ensures r.sp_max_capacity() == self.sp_base().inner.max_capacity, r.sp_ttl() == self.sp_base().inner.time_to_live, r.sp_tti() == self.sp_base().inner.time_to_idle //@ [C17]
    {
        self.base.policy()
    }
//@@ END

//@@ FN file=src/sync/cache.rs owner=Cache name=entry_count tags=C10
    pub fn entry_count(&self) -> /*@+*/(r:/*@-*/ u64/*@+*/)/*@-*/
        ensures r == self.sp_base().inner.sp_entry_count() //@ [C10]
    {
        self.base.entry_count()
    }
//@@ END

//@@ FN file=src/sync/cache.rs owner=Cache name=weighted_size tags=C10
    pub fn weighted_size(&self) -> /*@+*/(r:/*@-*/ u64/*@+*/)/*@-*/
        ensures r == self.sp_base().inner.sp_weighted_size() //@ [C10]
    {
        self.base.weighted_size()
    }
//@@ END

//@@ FN file=src/sync/cache.rs owner=Cache name=contains_key tags=C01,C15
    pub fn contains_key<Q>(&self, key: &Q) -> /*@+*/(r:/*@-*/ bool/*@+*/)/*@-*/
    where
        Arc<K>: Borrow<Q>,
        Q: Hash + Eq + ?Sized,
        requires self.sp_base().inner.cfg_ok(), //@
        ensures r == match self.sp_base().inner.sp_get(kid(key)) { //@ [C01,C03,C05,C06,C07]
                Some(e) => !sp_hidden(self.sp_base().inner.time_to_live, self.sp_base().inner.time_to_idle, self.sp_base().inner.sp_valid_after(), e, self.sp_base().inner.sp_now()), //@
                None => false, //@
            }, //@
    {
        self.base.contains_key(key)
    }
//@@ END

//@@ FN file=src/sync/cache.rs owner=Cache name=invalidate_all tags=C07
    pub fn invalidate_all(&self)
    {
        self.base.invalidate_all();
    }
//@@ END

    /// the busy-wait of `schedule_write_op` has no variant (C09 is not applicable): termination unchecked for this function
//@@ FN file=src/sync/cache.rs owner=Cache name=schedule_write_op tags=C10,C07,C01
    #[verifier::exec_allows_no_decreases_clause] //@
    fn schedule_write_op(
        inner: &impl InnerSync,
        ch: &Sender<WriteOp<K, V>>,
        op: WriteOp<K, V>,
        now: Instant,
        housekeeper: Option<&Arc<Housekeeper>>,
    ) -> /*@+*/(r:/*@-*/ Result<(), TrySendError<WriteOp<K, V>>>/*@+*/)/*@-*/
        // C10 / C07 / C01: when the call returns, exactly the record it was given is in the maintenance queue
        ensures r.is_ok(), ch.sp_sent(op), //@ [C10,C07,C01,C11]
    {
        let mut op = op;
        let ghost op0 = op; //@

        // NOTES:
        // - This will block when the channel is full.
        // - We are doing a busy-loop here. We were originally calling `ch.send(op)?`,
        //   but we got a notable performance degradation.
        loop
            invariant op == op0, //@ [C10,C07,C01]
            ensures ch.sp_sent(op0), //@ [C10,C07,C01,C11]
        {
            BaseCache::<K, V, S>::apply_reads_writes_if_needed(inner, ch, now, housekeeper);
            match ch.try_send(op) {
                Ok(()) => break,
                Err(TrySendError::Full(op1)) => {
                    op = op1;
                    std::thread::sleep(Duration::from_micros(WRITE_RETRY_INTERVAL_MICROS));
                }
                Err(e @ TrySendError::Disconnected(_)) => return Err(e),
            }
        }
        Ok(())
    }
//@@ END

//@@ FN file=src/sync/cache.rs owner=Cache name=insert_with_hash tags=C01,C10
    pub(crate) fn insert_with_hash(&self, key: Arc<K>, hash: u64, value: V)
        // C01 / C10: the record queued for maintenance is the `Upsert` of this key, hash and value that the map update produced
        ensures exists|op: WriteOp<K, V>| #[trigger] self.sp_base().write_op_ch.sp_sent(op) && BaseCache::<K, V, S>::is_upsert_of(op, kid::<K>(&*key), hash, value), //@ [C01,C10,C12]
    {
        let (op, now) = self.base.do_insert_with_hash(key, hash, value);
        let hk = self.base.housekeeper.as_ref();
        Self::schedule_write_op(
            self.base.inner.as_ref(),
            &self.base.write_op_ch,
            op,
            now,
            hk,
        )
        .expect("Failed to insert");
    }
//@@ END

//@@ FN file=src/sync/cache.rs owner=Cache name=invalidate tags=C07,C10,C11
    pub fn invalidate<Q>(&self, key: &Q)
    where
        Arc<K>: Borrow<Q>,
        Q: Hash + Eq + ?Sized,
        // C07 / C10 / C11: an entry taken out of the map is always followed by its `Remove` record, so that maintenance gives
        // back its share of the counters and its list nodes
        ensures match self.sp_base().inner.sp_get(kid(key)) { //@ [C07,C10,C11]
            Some(e) => exists|kv: KvEntry<K, V>| kv.entry == e && #[trigger] self.sp_base().write_op_ch.sp_sent(WriteOp::Remove(kv)), //@
            None => true, //@
        }, //@
    {
        if let Some(kv) = self.base.remove_entry(key) {
            let op = WriteOp::Remove(kv);
            let now = self.base.current_time_from_expiration_clock();
            let hk = self.base.housekeeper.as_ref();
            Self::schedule_write_op(
                self.base.inner.as_ref(),
                &self.base.write_op_ch,
                op,
                now,
                hk,
            )
            .expect("Failed to remove");
        }
    }
//@@ END
}
impl<K, V, S: Clone> Cache<K, V, S> {
//@@ FN file=src/sync/cache.rs owner=Cache name=with_everything tags=C17
    pub(crate) fn with_everything(
        max_capacity: Option<u64>,
        initial_capacity: Option<usize>,
        build_hasher: S,
        weigher: Option<Weigher<K, V>>,
        time_to_live: Option<Duration>,
        time_to_idle: Option<Duration>,
    ) -> /*@+*/(r:/*@-*/ Self/*@+*/)/*@-*/
        requires initial_capacity.is_some() ==> initial_capacity.unwrap() + WRITE_LOG_SIZE <= usize::MAX, //@ [C08]
        // C17: the cache is built with exactly the given knobs; `initial_capacity` is not one of them
        ensures r.sp_base().inner.built_with(max_capacity, build_hasher, weigher, time_to_live, time_to_idle), //@ [C17]
    {
        Self {
            base: BaseCache::new(
                max_capacity,
                initial_capacity,
                build_hasher,
                weigher,
                time_to_live,
                time_to_idle,
            ),
        }
    }
//@@ END
}
impl<K, V> Cache<K, V, RandomState> {
//@@ FN file=src/sync/cache.rs owner=Cache name=new tags=C17
    pub fn new(max_capacity: u64) -> /*@+*/(r:/*@-*/ Self/*@+*/)/*@-*/
        // C17: `new(n)` is the cache the builder gives for `max_capacity(n)` and nothing else
        ensures exists|h: RandomState| #[trigger] r.sp_base().inner.built_with(Some(max_capacity), h, None, None, None), //@ [C17]
    {
        let build_hasher = RandomState::default();
        Self::with_everything(Some(max_capacity), None, build_hasher, None, None, None)
    }
//@@ END
}
impl<K: Hash + Eq, V: Clone, S> Cache<K, V, S> {
//@@ FN file=src/sync/cache.rs owner=Cache name=get tags=C01,C06,C14
    pub fn get<Q>(&self, key: &Q) -> /*@+*/(r:/*@-*/ Option<V>/*@+*/)/*@-*/
    where
        Arc<K>: Borrow<Q>,
        Q: Hash + Eq + ?Sized,
        requires self.sp_base().inner.cfg_ok(), //@
        ensures r.is_some() == match self.sp_base().inner.sp_get(kid(key)) { //@ [C01,C03,C05,C06,C07]
                Some(e) => !sp_hidden(self.sp_base().inner.time_to_live, self.sp_base().inner.time_to_idle, self.sp_base().inner.sp_valid_after(), e, self.sp_base().inner.sp_now()), //@
                None => false, //@
            }, //@
    {
        self.base.get_with_hash(key, self.base.hash(key))
    }
//@@ END

//@@ FN file=src/sync/cache.rs owner=Cache name=insert tags=C01,C10
    pub fn insert(&self, key: K, value: V)
        ensures exists|op: WriteOp<K, V>| #[trigger] self.sp_base().write_op_ch.sp_sent(op) && BaseCache::<K, V, S>::is_upsert_of(op, kid::<K>(&key), self.sp_base().sp_hash(&key), value), //@ [C01,C10,C14]
    {
        let hash = self.base.hash(&key);
        let key = Arc::new(key);
        self.insert_with_hash(key, hash, value)
    }
//@@ END
}

// ---------------- src/sync/mapref.rs and src/sync/iter.rs: iteration over the concurrent cache (C01, C05, C06, C07) ----------------
//@@ STRUCT file=src/sync/mapref.rs name=EntryRef degrade=1
#[verifier::reject_recursive_types(K)]
#[verifier::reject_recursive_types(V)]
pub struct EntryRef<'a, K, V>(DashMapRef<'a, K, V>);
//@@ END
impl<'a, K, V> EntryRef<'a, K, V> {
    /// the map binding this reference stands for
    pub closed spec fn sp_ref(&self) -> DashMapRef<'a, K, V> { self.0 }
}
impl<'a, K, V> EntryRef<'a, K, V>
where
    K: Eq + Hash,
{
//@@ FN file=src/sync/mapref.rs owner=EntryRef name=new tags=C01
    pub(crate) fn new(map_ref: DashMapRef<'a, K, V>) -> /*@+*/(r:/*@-*/ Self/*@+*/)/*@-*/
        ensures r.sp_ref() == map_ref //@ [C01]
    {
        Self(map_ref)
    }
//@@ END

//@@ FN file=src/sync/mapref.rs owner=EntryRef name=key tags=C01
    pub fn key(&self) -> /*@+*/(r:/*@-*/ &K/*@+*/)/*@-*/
        ensures *r == *self.sp_ref().sp_key() //@ [C01]
    {
        self.0.key()
    }
//@@ END

//@@ FN file=src/sync/mapref.rs owner=EntryRef name=value tags=C01
    pub fn value(&self) -> /*@+*/(r:/*@-*/ &V/*@+*/)/*@-*/
        // C01: the value handed out is the value of the binding the iterator yielded
        ensures *r == self.sp_ref().sp_value()@.value //@ [C01]
    {
        &self.0.value().value
    }
//@@ END

//@@ FN file=src/sync/mapref.rs owner=EntryRef name=pair tags=C01
    pub fn pair(&self) -> /*@+*/(r:/*@-*/ (&K, &V)/*@+*/)/*@-*/
        ensures *r.0 == *self.sp_ref().sp_key(), *r.1 == self.sp_ref().sp_value()@.value //@ [C01]
    {
        (self.key(), self.value())
    }
//@@ END
}
impl<'a, K, V> std::ops::Deref for EntryRef<'a, K, V>
where
    K: Eq + Hash,
{
    type Target = V;

//@@ FN file=src/sync/mapref.rs owner=std :: ops :: Deref for EntryRef name=deref tags=C01
    fn deref(&self) -> /*@+*/(r:/*@-*/ &V/*@+*/)/*@-*/
        ensures *r == self.sp_ref().sp_value()@.value //@ [C01]
    {
        self.value()
    }
//@@ END
}

//@@ STRUCT file=src/sync/iter.rs name=Iter degrade=1
#[verifier::reject_recursive_types(K)]
#[verifier::reject_recursive_types(V)]
#[verifier::reject_recursive_types(S)]
pub struct Iter<'a, K, V, S> {
    cache: &'a BaseCache<K, V, S>,
    map_iter: DashMapIter<'a, K, V, S>,
}
//@@ END
impl<'a, K, V, S> Iter<'a, K, V, S> {
    /// the expiry durations of the cache the iterator filters with are within the builder's 1000-year limit (= `cfg_ok`,
    /// written out because a type invariant must not add trait bounds); established by `Iter::new`'s precondition
    #[verifier::type_invariant]
    pub closed spec fn inv(&self) -> bool {
        &&& (self.cache.inner.time_to_live.is_some() ==> dur_ns(self.cache.inner.time_to_live.unwrap()) <= max_dur_ns())
        &&& (self.cache.inner.time_to_idle.is_some() ==> dur_ns(self.cache.inner.time_to_idle.unwrap()) <= max_dur_ns())
    }
    pub closed spec fn sp_cache(&self) -> BaseCache<K, V, S> { *self.cache }
//@@ FN file=src/sync/iter.rs owner=Iter name=new tags=C01,C05,C06
    pub(crate) fn new(cache: &'a BaseCache<K, V, S>, map_iter: DashMapIter<'a, K, V, S>) -> /*@+*/(r:/*@-*/ Self/*@+*/)/*@-*/
        requires cache.inner.cfg_ok(), //@
        ensures r.sp_cache() == *cache //@ [C01]
    {
        Self { cache, map_iter }
    }
//@@ END
}
impl<'a, K: Eq + Hash, V, S: BuildHasher + Clone> vstd::std_specs::iter::IteratorSpecImpl for Iter<'a, K, V, S> {
    /// vstd's prophetic for-loop protocol is not used for this iterator (its laws are conditional on this flag)
    open spec fn obeys_prophetic_iter_laws(&self) -> bool { false }
    uninterp spec fn remaining(&self) -> Seq<Self::Item>;
    uninterp spec fn will_return_none(&self) -> bool;
    uninterp spec fn decrease(&self) -> Option<nat>;
    uninterp spec fn peek(&self, i: int) -> Option<Self::Item>;
}
impl<'a, K, V, S> Iterator for Iter<'a, K, V, S>
where
    K: Eq + Hash,
    S: BuildHasher + Clone,
{
    type Item = EntryRef<'a, K, V>;

//@@ FN file=src/sync/iter.rs owner=Iterator for Iter name=next tags=C01,C05,C06,C07 rewrites=forbyref2loop
    fn next(&mut self) -> /*@+*/(r:/*@-*/ Option<Self::Item>/*@+*/)/*@-*/
        ensures //@
            final(self).sp_cache() == old(self).sp_cache(), //@
            // C01 / C05 / C06 / C07: what iteration yields is a binding the map iterator handed out, and its entry is neither expired
            // nor older than the invalidate_all watermark at the clock reading taken for this very item
            match r { //@ [C01,C05,C06,C07]
                Some(er) => ({ let i = old(self).sp_cache().inner; //@
                    !sp_hidden(i.time_to_live, i.time_to_idle, i.sp_valid_after(), er.sp_ref().sp_value(), i.sp_now()) }), //@
                None => true, //@
            }, //@
    {
        proof { use_type_invariant(&*self); } //@
        loop
            invariant self.cache == old(self).cache, self.cache.inner.cfg_ok(), //@
            decreases self.map_iter.sp_rem(), //@
        { match self.map_iter.next() { Some(map_ref) => {
            if !self.cache.is_expired_entry(map_ref.value()) {
                return Some(EntryRef::new(map_ref));
            }
        } None => break, } }

        None
    }
//@@ END
}
impl<K, V, S> Inner<K, V, S> {
//@@ FN file=src/sync/base_cache.rs owner=Inner name=iter tags=C01
    fn iter(&self) -> /*@+*/(r:/*@-*/ DashMapIter<'_, K, V, S>/*@+*/)/*@-*/
    {
        self.cache.iter()
    }
//@@ END
}
impl<K, V, S> BaseCache<K, V, S> {
//@@ FN file=src/sync/base_cache.rs owner=BaseCache name=iter tags=C01,C15
    pub(crate) fn iter(&self) -> /*@+*/(r:/*@-*/ Iter<'_, K, V, S>/*@+*/)/*@-*/
        requires self.inner.cfg_ok(), //@
        ensures r.sp_cache() == *self //@ [C01,C15]
    {
        Iter::new(self, self.inner.iter())
    }
//@@ END
}
impl<K, V, S> Cache<K, V, S> {
//@@ FN file=src/sync/cache.rs owner=Cache name=iter tags=C01,C15
    pub fn iter(&self) -> /*@+*/(r:/*@-*/ Iter<'_, K, V, S>/*@+*/)/*@-*/
        requires self.sp_base().inner.cfg_ok(), //@
        ensures r.sp_cache() == self.sp_base() //@ [C01,C15]
    {
        self.base.iter()
    }
//@@ END
}
} // mod code

// vacuity guard
pub mod canary {
use vstd::prelude::*;
use super::env::*;
broadcast use {axiom_dur_nonneg};
pub proof fn verif_canary_sync() ensures false {}
}
}
fn main() {}
