#![feature(sized_hierarchy)]
#![feature(allocator_api)]
// Contract unit for the bookkeeping steps of the CONCURRENT cache's maintenance that work on `&mut` state: the tagged-pointer
// layer `src/common/concurrent/deques.rs`, the `ValueEntry` / `KeyHash` / `KeyDate` / `KeyHashDate` accessors of
// `src/common/concurrent.rs`, and `Inner::handle_admit / handle_remove / handle_remove_with_deques` of `src/sync/base_cache.rs`
// (counters and lists after one admission / removal).
//
// READING OF SHARED STATE. An entry's flags, weight and node slots live in an `EntryInfo` behind a `TrioArc` (atomics and a
// `Mutex`), written through `&self`. Verus frames by ownership, so a write through `&` cannot appear in a postcondition. The
// model used here: `EntryInfo::sp_*()` is "what the slot holds when this call reads it" (quiescent case: nobody else writes
// during one maintenance step); every function under contract reads each slot AT MOST ONCE (checked by eye: `take_*` and the
// getters are each called once per path), and nothing is claimed about the slot contents afterwards. What IS claimed: the
// effect on the lists (`&mut Deques`) and the counters (`&mut EvictionCounters`) as a function of the values read.
//
// `Inner::handle_upsert` (one queued write record applied) is under contract for the QUIESCENT STATE `coupled`: every probation
// node belongs to the admitted entry the map holds under the node's key, one to one, and entry_count is the length of the
// list. The map is read and written through `&self`: its view is its content when the step starts, `remove` answers from that
// view (sound while a key is removed at most once per step: the victims of one admission are distinct nodes with distinct
// keys). Proved under these assumptions: the five-way case analysis of the property statements (update / fits / oversize /
// admitted iff more popular than the shortest sufficient LRU prefix, which is exactly what goes / rejected, nobody touched)
// for the lists and the counters. NOT covered: records queued behind other records of the same key, invalidations in flight
// (the family KF-SYNC-1 lives exactly there), the map content afterwards.
// The three scans of the maintenance pass are under contract for the same quiescent state (plus `quiet` / `info_coupled` /
// `coupled_wo`: no update in flight, stamps present, a node shares its entry's bookkeeping record): `evict_lru_entries` (the
// shortest sufficient LRU prefix leaves, counters give back exactly its weight), `remove_expired_ao`, `remove_expired_wo`
// (exactly the maximal expired prefix of the list leaves, up to the batch size; only expired entries are removed) and their
// glue `evict_expired`. The branches that skip updated / invalidated entries (`try_skip_updated_entry`, the dirty re-queue)
// are proved UNREACHABLE in that state; `try_skip_updated_entry` itself is under contract (what it does to the two lists as a
// function of what the map holds under the key).
// `Inner::apply_reads` (the recorded reads applied to the recency order and the popularity estimator) is under contract for
// ARBITRARY queue contents: the channel hands out arbitrary records that satisfy the quiescent-state condition `rd_wf`; the
// recency order afterwards is the received records replayed in order (C12), every record is counted exactly once in the
// estimator (C14, loop invariant over the write guard's value), and the last-accessed stamp is only ever moved forward (the
// setter's precondition `stamp_forward`: defect D12). `Inner::apply_writes` is under contract for ONE record per call
// (`count <= 1`): dispatch to the step function of the record's kind with the record's own fields. The twelve `AccessTime`
// functions of `src/common/concurrent.rs` and the three functions that switch the estimator on are under contract too.
// Locks (`RwLock` guards with prophecy-style `DerefMut`), the channels (`sp_queued`) and `AtomicBool` are assumed.
// Declared rewrites used here (tools/extract.py): wildcard closure parameters `|_, v|` are named (`wild`); in
// `evict_lru_entries` the loop `for _ in 0..batch_size` is written as a `while` loop with an explicit counter because Verus
// does not support `continue` in `for` loops (`for2while`); the `&mut`-capturing closure of `evict_expired` is inlined.
use vstd::prelude::*;
verus! {
pub mod env {
use vstd::prelude::*;
use vstd::std_specs::iter::IteratorSpec;
use vstd::std_specs::ops::{MulSpec, DivSpec};
use std::sync::Arc;
use std::ptr::NonNull;
use super::code::{KeyDate, KeyHashDate};

pub type KeyId = int;
pub uninterp spec fn kid<Q: ?Sized>(q: &Q) -> KeyId;
pub open spec fn kid_arc<K>(k: Arc<K>) -> KeyId { kid::<K>(&*k) }
pub broadcast axiom fn axiom_kid_arc<K>(k: Arc<K>)
    ensures #[trigger] kid::<Arc<K>>(&k) == kid::<K>(&*k);

pub struct N { pub id: int, pub key: KeyId, pub hash: u64 }

// ---- time (as in the `sync` unit) ----
#[derive(Clone, Copy)]
#[verifier::external_body]
pub struct Instant { x: u64 }
impl Instant { pub uninterp spec fn t(&self) -> int; }
pub uninterp spec fn dur_ns(d: std::time::Duration) -> int;
pub open spec fn max_dur_ns() -> int { 1000int * 365 * 24 * 3600 * 1_000_000_000 }
/// C05 / C06 / C07 (concurrent cache), from the property statements (the same definitions as in the `sync` unit)
pub open spec fn sp_expired_wo(ttl: Option<std::time::Duration>, va: Option<Instant>, tm: Option<Instant>, now: Instant) -> bool {
    tm.is_some() && ((va.is_some() && tm.unwrap().t() < va.unwrap().t()) || (ttl.is_some() && tm.unwrap().t() + dur_ns(ttl.unwrap()) <= now.t()))
}
pub open spec fn sp_expired_ao(tti: Option<std::time::Duration>, va: Option<Instant>, ta: Option<Instant>, now: Instant) -> bool {
    ta.is_some() && ((va.is_some() && ta.unwrap().t() < va.unwrap().t()) || (tti.is_some() && ta.unwrap().t() + dur_ns(tti.unwrap()) <= now.t()))
}
impl PartialEq for Instant {
    #[verifier::external_body]
    fn eq(&self, o: &Instant) -> (r: bool) ensures r == (self.t() == o.t()) { unimplemented!() }
}
impl PartialOrd for Instant {
    #[verifier::external_body]
    fn partial_cmp(&self, o: &Instant) -> (r: Option<std::cmp::Ordering>) { unimplemented!() }
    #[verifier::external_body]
    fn lt(&self, o: &Instant) -> (r: bool) ensures r == (self.t() < o.t()) { unimplemented!() }
}
/// `src/common/concurrent.rs`. The setters write shared state through `&self` (nothing is claimed about it afterwards); what
/// IS stated is when they may be called: `sp_may_set_*` is `false` for the node kinds whose setter is `unreachable!()`, and for
/// the bookkeeping record the last-accessed stamp may only move FORWARD (C06 / C03: "read ops applied late must not move
/// timestamps backwards", defect D12) -- a caller under contract has to establish that.
pub trait AccessTime {
    spec fn sp_last_accessed(&self) -> Option<Instant>;
    spec fn sp_last_modified(&self) -> Option<Instant>;
    spec fn sp_may_set_accessed(&self, timestamp: Instant) -> bool;
    spec fn sp_may_set_modified(&self, timestamp: Instant) -> bool;
    fn last_accessed(&self) -> (r: Option<Instant>) ensures r == self.sp_last_accessed();
    fn set_last_accessed(&self, timestamp: Instant) requires self.sp_may_set_accessed(timestamp);
    fn last_modified(&self) -> (r: Option<Instant>) ensures r == self.sp_last_modified();
    fn set_last_modified(&self, timestamp: Instant) requires self.sp_may_set_modified(timestamp);
}
/// a stamp only ever moves forward
pub open spec fn stamp_forward(cur: Option<Instant>, timestamp: Instant) -> bool { cur.is_none() || cur.unwrap().t() < timestamp.t() }
#[verifier::allow(undeclared_external_trait)]
pub assume_specification<T, U, F> [std::option::Option::<T>::map_or] (o: std::option::Option<T>, d: U, f: F) -> (r: U)
    where F: std::ops::FnOnce(T,) -> U + std::marker::Destruct, U: std::marker::Destruct,
    requires o.is_some() ==> f.requires((o.unwrap(),)),
    ensures o.is_none() ==> r == d, o.is_some() ==> f.ensures((o.unwrap(),), r);
pub open spec fn has_id(s: Seq<N>, id: int) -> bool { exists|i: int| 0 <= i < s.len() && (#[trigger] s[i]).id == id }
pub open spec fn index_of_id(s: Seq<N>, id: int) -> int { choose|i: int| 0 <= i < s.len() && (#[trigger] s[i]).id == id }
pub open spec fn moved_to_back(s: Seq<N>, i: int) -> Seq<N> { s.remove(i).push(s[i]) }
/// `post` is `pre` with one fresh node for (key, hash) appended
pub open spec fn pushed(pre: Seq<N>, post: Seq<N>, key: KeyId, hash: u64) -> bool {
    post.len() == pre.len() + 1 && post.drop_last() =~= pre && post.last().key == key && post.last().hash == hash && !has_id(pre, post.last().id)
}

#[verifier::external_type_specification]
#[verifier::external_body]
#[verifier::accept_recursive_types(T)]
pub struct ExNonNull<T: std::marker::PointeeSized>(NonNull<T>);
pub uninterp spec fn nid<T>(p: NonNull<T>) -> int;
pub uninterp spec fn ptr_reads<T: std::marker::PointeeSized>(p: &NonNull<T>, r: &T) -> bool;
pub assume_specification<T, 'a> [std::ptr::NonNull::<T>::as_ref] (p: &std::ptr::NonNull<T>) -> (r: &'a T)
    where T: std::marker::PointeeSized
    ensures ptr_reads(p, r);
pub broadcast axiom fn axiom_node_ref<T>(p: &NonNull<DeqNode<T>>, r: &DeqNode<T>)
    ensures #[trigger] ptr_reads(p, r) ==> r.node_id() == nid(*p);

/// the 2-bit tag <-> region mapping (`src/common.rs`): Kani harness `cache_region_roundtrip` (complete on 0..4)
//@@ ENUM file=src/common.rs name=CacheRegion rewrites=default_discriminants
#[derive(Clone, Copy)]
pub enum CacheRegion {
    Window,
    MainProbation,
    MainProtected,
    Other,
}
//@@ END
impl From<usize> for CacheRegion {
    #[verifier::external_body]
    fn from(n: usize) -> (r: Self) ensures n < 4 ==> r as usize == n { unimplemented!() }
}
impl PartialEq<usize> for CacheRegion {
    #[verifier::external_body]
    fn eq(&self, other: &usize) -> (r: bool) ensures r == (*self as usize == *other) { unimplemented!() }
}

/// triomphe::Arc
#[verifier::external_body]
#[verifier::reject_recursive_types(T)]
pub struct TrioArc<T> { p: std::marker::PhantomData<T> }
impl<T> TrioArc<T> {
    pub uninterp spec fn view(&self) -> T;
    #[verifier::external_body]
    pub fn clone(this: &Self) -> (r: Self) ensures r == *this { unimplemented!() }
}
impl<T> std::ops::Deref for TrioArc<T> {
    type Target = T;
    #[verifier::external_body]
    fn deref(&self) -> (r: &T) ensures *r == self@ { unimplemented!() }
}

/// a list node: `next` / `prev` are private to deque.rs and not modelled; `ident` is a ghost identity (the address), so that two
/// nodes with equal elements are still different values
#[verifier::reject_recursive_types(T)]
pub struct DeqNode<T> { pub element: T, pub ident: Ghost<int> }
impl<T> DeqNode<T> {
    pub open spec fn node_id(&self) -> int { self.ident@ }
    pub open spec fn elem(&self) -> T { self.element }
//@@ SIG file=src/common/deque.rs owner=DeqNode name=new
    #[verifier::external_body]
    pub fn new(element: T) -> (r: Self) ensures r.elem() == element { unimplemented!() }
//@@ END
}
/// FROZEN HEAP (sound for the immutable fields key / hash of nodes that are still linked): what a node pointer reads
pub uninterp spec fn heap_deref<T>(p: NonNull<T>) -> T;
pub broadcast axiom fn axiom_ptr_reads<T>(p: &NonNull<T>, r: &T)
    ensures #[trigger] ptr_reads(p, r) ==> *r == heap_deref(*p);
pub open spec fn frozen<K>(s: Seq<N>) -> bool {
    forall|p: NonNull<DeqNode<KeyHashDate<K>>>, i: int| 0 <= i < s.len() && nid(p) == (#[trigger] s[i]).id ==> {
        &&& kid_arc(#[trigger] heap_deref(p).element.key) == s[i].key
        &&& heap_deref(p).element.hash == s[i].hash
    }
}
pub axiom fn axiom_frozen<K>(d: &Deque<KeyHashDate<K>>) ensures frozen::<K>(d@);

pub trait Array { type Item; }
impl<T, const N: usize> Array for [T; N] { type Item = T; }
#[verifier::reject_recursive_types(A)]
pub struct SmallVec<A: Array> { pub v: Vec<A::Item> }
impl<A: Array> Default for SmallVec<A> {
    fn default() -> (r: Self) ensures r.v@.len() == 0 { SmallVec { v: Vec::new() } }
}
impl<A: Array> SmallVec<A> {
    pub fn push(&mut self, x: A::Item) ensures final(self).v@ == old(self).v@.push(x) { self.v.push(x) }
}
impl<A: Array> IntoIterator for SmallVec<A> {
    type Item = A::Item;
    type IntoIter = std::vec::IntoIter<A::Item>;
    fn into_iter(self) -> (r: Self::IntoIter)
        ensures r.remaining() == self.v@, r.decrease() is Some, r.obeys_prophetic_iter_laws(),
    { self.v.into_iter() }
}

#[verifier::external_body]
pub struct FrequencySketch { x: u64 }
impl FrequencySketch {
    pub uninterp spec fn freq(&self, hash: u64) -> u8;
    /// contract proved in the `sketch` unit
//@@ SIG file=src/common/frequency_sketch.rs owner=FrequencySketch name=frequency
    #[verifier::external_body]
    pub fn frequency(&self, hash: u64) -> (r: u8) ensures r == self.freq(hash), r <= 15 { unimplemented!() }
//@@ END
    /// the sketch after one more recorded lookup of `hash` (contract proved in the `sketch` unit, incl. the aging step)
    pub uninterp spec fn incremented(&self, hash: u64) -> FrequencySketch;
//@@ SIG file=src/common/frequency_sketch.rs owner=FrequencySketch name=increment
    #[verifier::external_body]
    pub fn increment(&mut self, hash: u64) ensures *final(self) == old(self).incremented(hash) { unimplemented!() }
//@@ END
    /// (re)sizing: forgets all counts or does nothing -- never a recording (contract proved in the `sketch` unit)
    pub uninterp spec fn ensured(&self, cap: u32) -> FrequencySketch;
//@@ SIG file=src/common/frequency_sketch.rs owner=FrequencySketch name=ensure_capacity
    #[verifier::external_body]
    pub fn ensure_capacity(&mut self, cap: u32) ensures *final(self) == old(self).ensured(cap) { unimplemented!() }
//@@ END
}

/// std::sync::RwLock, read and written through `&self`. The guards are owned values: `guard@` is the protected value while
/// this call holds the lock (for a write guard it follows the writes made through it). What the lock holds before and after
/// is shared state and NOT specified.
#[verifier::external_body]
#[verifier::reject_recursive_types(T)]
pub struct RwLock<T> { t: std::marker::PhantomData<T> }
#[verifier::external_body]
#[verifier::reject_recursive_types(T)]
pub struct RwLockWriteGuard<'a, T> { t: std::marker::PhantomData<&'a mut T> }
#[verifier::external_body]
#[verifier::reject_recursive_types(T)]
pub struct RwLockReadGuard<'a, T> { t: std::marker::PhantomData<&'a T> }
pub struct PoisonError {}
impl std::fmt::Debug for PoisonError {
    #[verifier::external_body]
    fn fmt(&self, f: &mut std::fmt::Formatter<'_>) -> std::fmt::Result { unimplemented!() }
}
impl<'a, T> RwLockWriteGuard<'a, T> { pub uninterp spec fn view(&self) -> T; }
impl<'a, T> RwLockReadGuard<'a, T> { pub uninterp spec fn view(&self) -> T; }
impl<'a, T> std::ops::Deref for RwLockWriteGuard<'a, T> {
    type Target = T;
    #[verifier::external_body]
    fn deref(&self) -> (r: &T) ensures *r == self@ { unimplemented!() }
}
impl<'a, T> std::ops::DerefMut for RwLockWriteGuard<'a, T> {
    #[verifier::external_body]
    fn deref_mut(&mut self) -> (r: &mut T) ensures *r == old(self)@, *final(r) == final(self)@ { unimplemented!() }
}
impl<'a, T> std::ops::Deref for RwLockReadGuard<'a, T> {
    type Target = T;
    #[verifier::external_body]
    fn deref(&self) -> (r: &T) ensures *r == self@ { unimplemented!() }
}
impl<T> RwLock<T> {
    /// poisoning (a panic of another thread while it held the lock) is outside the model: the `expect("lock poisoned")` arms
    #[verifier::external_body]
    pub fn write(&self) -> (r: Result<RwLockWriteGuard<'_, T>, PoisonError>) ensures r.is_ok() { unimplemented!() }
    #[verifier::external_body]
    pub fn read(&self) -> (r: Result<RwLockReadGuard<'_, T>, PoisonError>) ensures r.is_ok() { unimplemented!() }
}

/// std::sync::atomic::AtomicBool, shared through `&self`: `sp_val()` = what this call reads; a store is not specified
#[verifier::external_body]
pub struct AtomicBool { x: u8 }
impl AtomicBool {
    pub uninterp spec fn sp_val(&self) -> bool;
    #[verifier::external_body]
    pub fn load(&self, order: std::sync::atomic::Ordering) -> (r: bool) ensures r == self.sp_val() { unimplemented!() }
    #[verifier::external_body]
    pub fn store(&self, val: bool, order: std::sync::atomic::Ordering) { unimplemented!() }
}
/// `Arc<dyn Fn(&K, &V) -> u32 + Send + Sync>` (Verus rejects `dyn` with more than one trait): opaque
#[verifier::external_body]
#[verifier::reject_recursive_types(K)]
#[verifier::reject_recursive_types(V)]
pub struct Weigher<K, V> { k: std::marker::PhantomData<(K, V)> }
/// f64 `*` and `/` never trap in Rust (vstd leaves their preconditions unspecified)
pub broadcast axiom fn axiom_f64_mul_ok(a: f64, b: f64) ensures #[trigger] a.mul_req(b);
pub broadcast axiom fn axiom_f64_div_ok(a: f64, b: f64) ensures #[trigger] a.div_req(b);
pub mod common {
    use vstd::prelude::*;
    /// `max_capacity.try_into().unwrap_or(u32::MAX).max(128)`: Kani harness `sketch_capacity_clamps` (complete)
//@@ SIG file=src/common.rs owner=- name=sketch_capacity
    #[verifier::external_body]
    pub fn sketch_capacity(max_capacity: u64) -> (r: u32) ensures r >= 128 { unimplemented!() }
//@@ END
}

/// crossbeam_channel::Receiver, shared through `&self`: `sp_queued(x)` = "x is a record some producer has put into this
/// channel"; `try_recv` hands out such a record or reports the channel empty. Order and multiplicity are NOT modelled.
#[verifier::external_body]
#[verifier::reject_recursive_types(T)]
pub struct Receiver<T> { t: std::marker::PhantomData<T> }
pub struct TryRecvError {}
impl<T> Receiver<T> {
    pub uninterp spec fn sp_queued(&self, x: T) -> bool;
    #[verifier::external_body]
    pub fn try_recv(&self) -> (r: Result<T, TryRecvError>) ensures match r { Ok(x) => self.sp_queued(x), Err(_) => true } { unimplemented!() }
    #[verifier::external_body]
    pub fn len(&self) -> (r: usize) { unimplemented!() }
}

/// dashmap::mapref::one::Ref
#[verifier::external_body]
#[verifier::reject_recursive_types(K)]
#[verifier::reject_recursive_types(V)]
pub struct CacheEntryRef<'a, K, V> { p: std::marker::PhantomData<&'a (K, V)> }
impl<'a, K, V> CacheEntryRef<'a, K, V> { pub uninterp spec fn view(&self) -> TrioArc<super::code::ValueEntry<K, V>>; }
impl<'a, K, V> std::ops::Deref for CacheEntryRef<'a, K, V> {
    type Target = TrioArc<super::code::ValueEntry<K, V>>;
    #[verifier::external_body]
    fn deref(&self) -> (r: &TrioArc<super::code::ValueEntry<K, V>>) ensures *r == self@ { unimplemented!() }
}

/// dashmap::DashMap<Arc<K>, TrioArc<ValueEntry<K, V>>, S>, read and written through `&self`: `view` is its content when the
/// maintenance step starts (quiescent: nobody else writes); `remove` answers from that content, which is sound as long as a
/// key is removed at most once during the step (the victims of one admission are distinct nodes with distinct keys)
#[verifier::external_body]
#[verifier::reject_recursive_types(K)]
#[verifier::reject_recursive_types(V)]
#[verifier::reject_recursive_types(S)]
pub struct CacheStore<K, V, S> { k: std::marker::PhantomData<(K, V, S)> }
impl<K, V, S> CacheStore<K, V, S> {
    pub uninterp spec fn view(&self) -> Map<KeyId, TrioArc<super::code::ValueEntry<K, V>>>;
    #[verifier::external_body]
    pub fn get<Q: ?Sized>(&self, key: &Q) -> (r: Option<CacheEntryRef<'_, K, V>>)
        ensures match r { Some(e) => self@.contains_key(kid(key)) && e@ == self@[kid(key)], None => !self@.contains_key(kid(key)) }
    { unimplemented!() }
    /// dashmap `remove_if`: the entry under `key` is removed iff the predicate holds for it
    #[verifier::external_body]
    pub fn remove_if<F: FnOnce(&Arc<K>, &TrioArc<super::code::ValueEntry<K, V>>) -> bool>(&self, key: &Arc<K>, f: F) -> (r: Option<(Arc<K>, TrioArc<super::code::ValueEntry<K, V>>)>)
        requires forall|k: &Arc<K>, v: &TrioArc<super::code::ValueEntry<K, V>>| f.requires((k, v)),
        ensures match r {
            Some(kv) => self@.contains_key(kid_arc(*key)) && kv.1 == self@[kid_arc(*key)] && exists|k: &Arc<K>| #[trigger] f.ensures((k, &kv.1), true),
            None => !self@.contains_key(kid_arc(*key)) || exists|k: &Arc<K>| #[trigger] f.ensures((k, &self@[kid_arc(*key)]), false),
        }
    { unimplemented!() }
    #[verifier::external_body]
    pub fn remove(&self, key: &Arc<K>) -> (r: Option<(Arc<K>, TrioArc<super::code::ValueEntry<K, V>>)>)
        ensures match r { Some(kv) => self@.contains_key(kid_arc(*key)) && kv.1 == self@[kid_arc(*key)], None => !self@.contains_key(kid_arc(*key)) }
    { unimplemented!() }
}
impl<T> std::fmt::Debug for DeqNode<T> {
    #[verifier::external_body]
    fn fmt(&self, f: &mut std::fmt::Formatter<'_>) -> std::fmt::Result { unimplemented!() }
}

/// tagptr::TagNonNull<T, 2>
#[verifier::external_body]
#[verifier::reject_recursive_types(T)]
pub struct TagNonNull<T, const B: usize> { p: std::marker::PhantomData<T> }
impl<T, const B: usize> Clone for TagNonNull<T, B> { #[verifier::external_body] fn clone(&self) -> (r: Self) ensures r == *self { unimplemented!() } }
impl<T, const B: usize> Copy for TagNonNull<T, B> {}
impl<T, const B: usize> TagNonNull<T, B> {
    pub uninterp spec fn tn_id(&self) -> int;
    pub uninterp spec fn tn_tag(&self) -> usize;
    #[verifier::external_body]
    pub fn compose(ptr: NonNull<T>, tag: usize) -> (r: Self)
        requires tag < 4,
        ensures r.tn_id() == nid(ptr), r.tn_tag() == tag
    { unimplemented!() }
    #[verifier::external_body]
    pub fn decompose(self) -> (r: (NonNull<T>, usize)) ensures nid(r.0) == self.tn_id(), r.1 == self.tn_tag(), r.1 < 4 { unimplemented!() }
    #[verifier::external_body]
    pub fn decompose_tag(self) -> (r: usize) ensures r == self.tn_tag(), r < 4 { unimplemented!() }
}

pub type KeyDeqNodeAo<K> = TagNonNull<DeqNode<KeyHashDate<K>>, 2>;
pub type KeyDeqNodeWo<K> = NonNull<DeqNode<KeyDate<K>>>;

/// src/common/concurrent/entry_info.rs: atomics and a Mutex: ASSUMED. `sp_*` = what the slot holds when this call reads it.
#[verifier::external_body]
#[verifier::reject_recursive_types(K)]
pub struct EntryInfo<K> { k: std::marker::PhantomData<K> }
impl<K> EntryInfo<K> {
    pub uninterp spec fn sp_admitted(&self) -> bool;
    pub uninterp spec fn sp_dirty(&self) -> bool;
    pub uninterp spec fn sp_w(&self) -> u32;
    pub uninterp spec fn sp_ao(&self) -> Option<KeyDeqNodeAo<K>>;
    pub uninterp spec fn sp_wo(&self) -> Option<KeyDeqNodeWo<K>>;
    pub uninterp spec fn sp_ta(&self) -> Option<Instant>;
    pub uninterp spec fn sp_tm(&self) -> Option<Instant>;
//@@ SIG file=src/common/concurrent/entry_info.rs owner=EntryInfo name=is_admitted
    #[verifier::external_body]
    pub fn is_admitted(&self) -> (r: bool) ensures r == self.sp_admitted() { unimplemented!() }
//@@ END
//@@ SIG file=src/common/concurrent/entry_info.rs owner=EntryInfo name=set_admitted
    #[verifier::external_body]
    pub fn set_admitted(&self, value: bool) { unimplemented!() }
//@@ END
//@@ SIG file=src/common/concurrent/entry_info.rs owner=EntryInfo name=is_dirty
    #[verifier::external_body]
    pub fn is_dirty(&self) -> (r: bool) ensures r == self.sp_dirty() { unimplemented!() }
//@@ END
//@@ SIG file=src/common/concurrent/entry_info.rs owner=EntryInfo name=set_dirty
    #[verifier::external_body]
    pub fn set_dirty(&self, value: bool) { unimplemented!() }
//@@ END
//@@ SIG file=src/common/concurrent/entry_info.rs owner=EntryInfo name=policy_weight
    #[verifier::external_body]
    pub fn policy_weight(&self) -> (r: u32) ensures r == self.sp_w() { unimplemented!() }
//@@ END
//@@ SIG file=src/common/concurrent/entry_info.rs owner=EntryInfo name=access_order_q_node
    #[verifier::external_body]
    pub fn access_order_q_node(&self) -> (r: Option<KeyDeqNodeAo<K>>) ensures r == self.sp_ao() { unimplemented!() }
//@@ END
//@@ SIG file=src/common/concurrent/entry_info.rs owner=EntryInfo name=set_access_order_q_node
    #[verifier::external_body]
    pub fn set_access_order_q_node(&self, node: Option<KeyDeqNodeAo<K>>) { unimplemented!() }
//@@ END
//@@ SIG file=src/common/concurrent/entry_info.rs owner=EntryInfo name=take_access_order_q_node
    #[verifier::external_body]
    pub fn take_access_order_q_node(&self) -> (r: Option<KeyDeqNodeAo<K>>) ensures r == self.sp_ao() { unimplemented!() }
//@@ END
//@@ SIG file=src/common/concurrent/entry_info.rs owner=EntryInfo name=write_order_q_node
    #[verifier::external_body]
    pub fn write_order_q_node(&self) -> (r: Option<KeyDeqNodeWo<K>>) ensures r == self.sp_wo() { unimplemented!() }
//@@ END
//@@ SIG file=src/common/concurrent/entry_info.rs owner=EntryInfo name=set_write_order_q_node
    #[verifier::external_body]
    pub fn set_write_order_q_node(&self, node: Option<KeyDeqNodeWo<K>>) { unimplemented!() }
//@@ END
//@@ SIG file=src/common/concurrent/entry_info.rs owner=EntryInfo name=take_write_order_q_node
    #[verifier::external_body]
    pub fn take_write_order_q_node(&self) -> (r: Option<KeyDeqNodeWo<K>>) ensures r == self.sp_wo() { unimplemented!() }
//@@ END
//@@ SIG file=src/common/concurrent/entry_info.rs owner=EntryInfo name=unset_q_nodes
    #[verifier::external_body]
    pub fn unset_q_nodes(&self) { unimplemented!() }
//@@ END
}
/// `src/common/concurrent/entry_info.rs`: `AtomicInstant`s: ASSUMED
impl<K> AccessTime for EntryInfo<K> {
    open spec fn sp_last_accessed(&self) -> Option<Instant> { self.sp_ta() }
    open spec fn sp_last_modified(&self) -> Option<Instant> { self.sp_tm() }
    open spec fn sp_may_set_accessed(&self, timestamp: Instant) -> bool { stamp_forward(self.sp_ta(), timestamp) }
    open spec fn sp_may_set_modified(&self, timestamp: Instant) -> bool { true }
    #[verifier::external_body]
    fn last_accessed(&self) -> (r: Option<Instant>) { unimplemented!() }
    #[verifier::external_body]
    fn set_last_accessed(&self, timestamp: Instant) { unimplemented!() }
    #[verifier::external_body]
    fn last_modified(&self) -> (r: Option<Instant>) { unimplemented!() }
    #[verifier::external_body]
    fn set_last_modified(&self, timestamp: Instant) { unimplemented!() }
}
/// the bookkeeping record a list node shares with its entry (`KeyHashDate.entry_info`, an `Arc` clone of the entry's `info`)
pub uninterp spec fn node_info<K>(id: int) -> TrioArc<EntryInfo<K>>;

/// THE LIST (src/common/deque.rs): assumed here, checked by the Kani window harnesses
#[verifier::external_body]
#[verifier::reject_recursive_types(T)]
pub struct Deque<T> { k: std::marker::PhantomData<T> }
impl<T> Deque<T> {
    pub uninterp spec fn view(&self) -> Seq<N>;
    pub uninterp spec fn sp_region(&self) -> CacheRegion;
//@@ SIG file=src/common/deque.rs owner=Deque name=new
    #[verifier::external_body]
    pub fn new(region: CacheRegion) -> (r: Self) ensures r@.len() == 0, r.sp_region() == region { unimplemented!() }
//@@ END
//@@ SIG file=src/common/deque.rs owner=Deque name=region
    #[verifier::external_body]
    pub fn region(&self) -> (r: CacheRegion) ensures r == self.sp_region() { unimplemented!() }
//@@ END
//@@ SIG file=src/common/deque.rs owner=Deque name=contains
    #[verifier::external_body]
    pub fn contains(&self, node: &DeqNode<T>) -> (b: bool) ensures b == has_id(self@, node.node_id()) { unimplemented!() }
//@@ END
//@@ SIG file=src/common/deque.rs owner=Deque name=move_to_back
    #[verifier::external_body]
    pub unsafe fn move_to_back(&mut self, node: NonNull<DeqNode<T>>)
        requires has_id(old(self)@, nid(node)), //@ [C08]
        ensures final(self)@ == moved_to_back(old(self)@, index_of_id(old(self)@, nid(node))), final(self).sp_region() == old(self).sp_region()
    { unimplemented!() }
//@@ END
//@@ SIG file=src/common/deque.rs owner=Deque name=unlink_and_drop
    #[verifier::external_body]
    pub unsafe fn unlink_and_drop(&mut self, node: NonNull<DeqNode<T>>)
        requires has_id(old(self)@, nid(node)), //@ [C08,C11]
        ensures final(self)@ == old(self)@.remove(index_of_id(old(self)@, nid(node))), final(self).sp_region() == old(self).sp_region()
    { unimplemented!() }
//@@ END
}
impl<K> Deque<KeyHashDate<K>> {
//@@ SIG file=src/common/deque.rs owner=Deque name=move_front_to_back
    #[verifier::external_body]
    pub fn move_front_to_back(&mut self)
        ensures final(self)@ == (if old(self)@.len() > 0 { moved_to_back(old(self)@, 0) } else { old(self)@ }), final(self).sp_region() == old(self).sp_region()
    { unimplemented!() }
//@@ END
//@@ SIG file=src/common/deque.rs owner=Deque name=peek_front types=loose
    #[verifier::external_body]
    pub fn peek_front(&self) -> (r: Option<&DeqNode<KeyHashDate<K>>>)
        ensures match r {
            Some(n) => self@.len() > 0 && n.node_id() == self@[0].id && kid_arc(n.element.key) == self@[0].key && n.element.hash == self@[0].hash
                && n.element.entry_info == node_info::<K>(self@[0].id),
            None => self@.len() == 0,
        }
    { unimplemented!() }
//@@ END
//@@ SIG file=src/common/deque.rs owner=Deque name=push_back types=loose
    #[verifier::external_body]
    pub fn push_back(&mut self, node: Box<DeqNode<KeyHashDate<K>>>) -> (r: NonNull<DeqNode<KeyHashDate<K>>>)
        ensures !has_id(old(self)@, nid(r)), final(self).sp_region() == old(self).sp_region(),
            final(self)@ == old(self)@.push(N { id: nid(r), key: kid_arc(node.elem().key), hash: node.elem().hash })
    { unimplemented!() }
//@@ END
}
impl<K> Deque<KeyDate<K>> {
//@@ SIG file=src/common/deque.rs owner=Deque name=peek_front types=loose
    #[verifier::external_body]
    pub fn peek_front(&self) -> (r: Option<&DeqNode<KeyDate<K>>>)
        ensures match r {
            Some(n) => self@.len() > 0 && n.node_id() == self@[0].id && kid_arc(n.element.key) == self@[0].key && n.element.entry_info == node_info::<K>(self@[0].id),
            None => self@.len() == 0,
        }
    { unimplemented!() }
//@@ END
//@@ SIG file=src/common/deque.rs owner=Deque name=move_front_to_back
    #[verifier::external_body]
    pub fn move_front_to_back(&mut self) { unimplemented!() }
//@@ END
//@@ SIG file=src/common/deque.rs owner=Deque name=push_back types=loose
    #[verifier::external_body]
    pub fn push_back(&mut self, node: Box<DeqNode<KeyDate<K>>>) -> (r: NonNull<DeqNode<KeyDate<K>>>)
        ensures !has_id(old(self)@, nid(r)), final(self).sp_region() == old(self).sp_region(),
            final(self)@ == old(self)@.push(N { id: nid(r), key: kid_arc(node.elem().key), hash: 0 })
    { unimplemented!() }
//@@ END
}
} // mod env

pub mod cspec {
use vstd::prelude::*;
use super::env::*;
use super::code::ValueEntry;
/// the weights of the entries the map holds
pub open spec fn wmap<K, V>(m: Map<KeyId, TrioArc<ValueEntry<K, V>>>) -> Map<KeyId, u32> { m.map_values(|e: TrioArc<ValueEntry<K, V>>| e@.w()) }
pub open spec fn wsum(s: Seq<N>, m: Map<KeyId, u32>) -> int
    decreases s.len()
{ if s.len() == 0 { 0 } else { wsum(s.drop_last(), m) + m[s.last().key] as int } }
pub open spec fn fsum(s: Seq<N>, sk: FrequencySketch) -> int
    decreases s.len()
{ if s.len() == 0 { 0 } else { fsum(s.drop_last(), sk) + sk.freq(s.last().hash) as int } }
pub open spec fn least_prefix(p: Seq<N>, m: Map<KeyId, u32>, cw: int, from: int) -> Option<int>
    decreases p.len() - from
{
    if from < 0 || from > p.len() { None }
    else if wsum(p.take(from), m) >= cw { Some(from) }
    else if from == p.len() { None }
    else { least_prefix(p, m, cw, from + 1) }
}
/// C13, from the property statement
pub open spec fn spec_admit(cw: int, cf: int, p: Seq<N>, m: Map<KeyId, u32>, sk: FrequencySketch) -> bool {
    match least_prefix(p, m, cw, 0) { Some(n) => cf > fsum(p.take(n), sk), None => false }
}
pub proof fn lemma_least_prefix(p: Seq<N>, m: Map<KeyId, u32>, cw: int, from: int)
    requires 0 <= from <= p.len(), forall|i: int| 0 <= i < from ==> wsum(#[trigger] p.take(i), m) < cw
    ensures match least_prefix(p, m, cw, from) {
        Some(n) => from <= n <= p.len() && wsum(p.take(n), m) >= cw && forall|i: int| 0 <= i < n ==> wsum(#[trigger] p.take(i), m) < cw,
        None => forall|i: int| 0 <= i <= p.len() ==> wsum(#[trigger] p.take(i), m) < cw,
    }
    decreases p.len() - from
{
    if wsum(p.take(from), m) >= cw { } else if from == p.len() { } else { lemma_least_prefix(p, m, cw, from + 1); }
}
pub proof fn lemma_wsum_bound(s: Seq<N>, m: Map<KeyId, u32>)
    ensures 0 <= wsum(s, m) <= s.len() * 0xFFFF_FFFF
    decreases s.len()
{ if s.len() > 0 { lemma_wsum_bound(s.drop_last(), m); } }
pub open spec fn sat_sub(a: u64, w: u32) -> u64 { if a >= w { (a - w) as u64 } else { 0 } }
/// the running total after giving back, one after the other, the weights of the entries of the nodes `s`
pub open spec fn sat_sub_seq(a: u64, s: Seq<N>, m: Map<KeyId, u32>) -> u64
    decreases s.len()
{ if s.len() == 0 { a } else { sat_sub(sat_sub_seq(a, s.drop_last(), m), m[s.last().key]) } }
pub open spec fn distinct_ids(s: Seq<N>) -> bool { forall|i: int, j: int| 0 <= i < j < s.len() ==> (#[trigger] s[i]).id != (#[trigger] s[j]).id }
pub proof fn lemma_index_of_id(s: Seq<N>, i: int)
    requires distinct_ids(s), 0 <= i < s.len()
    ensures has_id(s, s[i].id), index_of_id(s, s[i].id) == i
{
    let j = index_of_id(s, s[i].id);
    assert(0 <= j < s.len() && s[j].id == s[i].id);
    if j < i { assert(s[j].id != s[i].id); } else if i < j { assert(s[i].id != s[j].id); }
}
} // mod cspec

pub mod code {
use vstd::prelude::*;
use std::sync::Arc;
use std::ptr::NonNull;
use std::time::Duration;
use vstd::std_specs::iter::IteratorSpec;
use super::env::*;
use super::cspec::*;
broadcast use {axiom_node_ref, axiom_ptr_reads, axiom_kid_arc, axiom_f64_mul_ok, axiom_f64_div_ok};
use std::sync::atomic::Ordering;

//@@ STRUCT file=src/common/concurrent.rs name=KeyHash
#[verifier::reject_recursive_types(K)]
pub struct KeyHash<K> {
    pub key: Arc<K>,
    pub hash: u64,
}
//@@ END

impl<K> KeyHash<K> {
//@@ FN file=src/common/concurrent.rs owner=KeyHash name=new tags=C12,C13
    pub(crate) fn new(key: Arc<K>, hash: u64) -> /*@+*/(r:/*@-*/ Self/*@+*/)/*@-*/
        ensures r.key == key, r.hash == hash //@ [C12,C13,C14]
    {
        Self { key, hash }
    }
//@@ END
}

//@@ STRUCT file=src/common/concurrent.rs name=KeyDate
#[verifier::reject_recursive_types(K)]
pub struct KeyDate<K> {
    pub key: Arc<K>,
    pub entry_info: TrioArc<EntryInfo<K>>,
}
//@@ END

impl<K> KeyDate<K> {
//@@ FN file=src/common/concurrent.rs owner=KeyDate name=new tags=C05,C11
    pub(crate) fn new(key: Arc<K>, entry_info: &TrioArc<EntryInfo<K>>) -> /*@+*/(r:/*@-*/ Self/*@+*/)/*@-*/
        ensures r.key == key, r.entry_info == *entry_info //@ [C05,C11]
    {
        Self {
            key,
            entry_info: TrioArc::clone(entry_info),
        }
    }
//@@ END

//@@ FN file=src/common/concurrent.rs owner=KeyDate name=key tags=C05
    pub(crate) fn key(&self) -> /*@+*/(r:/*@-*/ &Arc<K>/*@+*/)/*@-*/
        ensures *r == self.key //@ [C05,C01]
    {
        &self.key
    }
//@@ END
}

//@@ STRUCT file=src/common/concurrent.rs name=KeyHashDate
#[verifier::reject_recursive_types(K)]
pub struct KeyHashDate<K> {
    pub key: Arc<K>,
    pub hash: u64,
    pub entry_info: TrioArc<EntryInfo<K>>,
}
//@@ END

impl<K> KeyHashDate<K> {
//@@ FN file=src/common/concurrent.rs owner=KeyHashDate name=new tags=C12,C13
    pub(crate) fn new(kh: KeyHash<K>, entry_info: &TrioArc<EntryInfo<K>>) -> /*@+*/(r:/*@-*/ Self/*@+*/)/*@-*/
        ensures r.key == kh.key, r.hash == kh.hash, r.entry_info == *entry_info //@ [C12,C13,C06,C11]
    {
        Self {
            key: kh.key,
            hash: kh.hash,
            entry_info: TrioArc::clone(entry_info),
        }
    }
//@@ END

//@@ FN file=src/common/concurrent.rs owner=KeyHashDate name=key tags=C12
    pub(crate) fn key(&self) -> /*@+*/(r:/*@-*/ &Arc<K>/*@+*/)/*@-*/
        ensures *r == self.key //@ [C12,C01]
    {
        &self.key
    }
//@@ END

//@@ FN file=src/common/concurrent.rs owner=KeyHashDate name=hash tags=C13
    pub(crate) fn hash(&self) -> /*@+*/(r:/*@-*/ u64/*@+*/)/*@-*/
        ensures r == self.hash //@ [C13,C14]
    {
        self.hash
    }
//@@ END

//@@ FN file=src/common/concurrent.rs owner=KeyHashDate name=entry_info tags=C06
    pub(crate) fn entry_info(&self) -> /*@+*/(r:/*@-*/ &EntryInfo<K>/*@+*/)/*@-*/
        ensures *r == self.entry_info@ //@ [C06,C12]
    {
        &self.entry_info
    }
//@@ END
}

//@@ STRUCT file=src/common/concurrent.rs name=ValueEntry
#[verifier::reject_recursive_types(K)]
pub struct ValueEntry<K, V> {
    pub value: V,
    pub info: TrioArc<EntryInfo<K>>,
}
//@@ END

impl<K, V> ValueEntry<K, V> {
    /// what this call reads from the entry's shared bookkeeping record
    pub open spec fn ao(&self) -> Option<int> { match self.info@.sp_ao() { Some(t) => Some(t.tn_id()), None => None } }
    pub open spec fn ao_tag(&self) -> Option<usize> { match self.info@.sp_ao() { Some(t) => Some(t.tn_tag()), None => None } }
    pub open spec fn wo(&self) -> Option<int> { match self.info@.sp_wo() { Some(p) => Some(nid(p)), None => None } }
    pub open spec fn w(&self) -> u32 { self.info@.sp_w() }
    pub open spec fn admitted(&self) -> bool { self.info@.sp_admitted() }
    pub open spec fn dirty(&self) -> bool { self.info@.sp_dirty() }

//@@ FN file=src/common/concurrent.rs owner=ValueEntry name=new tags=C01,C10
    pub(crate) fn new(value: V, entry_info: TrioArc<EntryInfo<K>>) -> /*@+*/(r:/*@-*/ Self/*@+*/)/*@-*/
        ensures r.value == value, r.info == entry_info //@ [C01,C10,C11]
    {
        Self {
            value,
            info: entry_info,
        }
    }
//@@ END

//@@ FN file=src/common/concurrent.rs owner=ValueEntry name=entry_info tags=C10
    pub(crate) fn entry_info(&self) -> /*@+*/(r:/*@-*/ &TrioArc<EntryInfo<K>>/*@+*/)/*@-*/
        ensures *r == self.info //@ [C10,C11,C05,C06]
    {
        &self.info
    }
//@@ END

//@@ FN file=src/common/concurrent.rs owner=ValueEntry name=is_admitted tags=C10
    pub(crate) fn is_admitted(&self) -> /*@+*/(r:/*@-*/ bool/*@+*/)/*@-*/
        ensures r == self.admitted() //@ [C10,C11,C03]
    {
        self.info.is_admitted()
    }
//@@ END

//@@ FN file=src/common/concurrent.rs owner=ValueEntry name=set_admitted tags=C10
    pub(crate) fn set_admitted(&self, value: bool) {
        self.info.set_admitted(value);
    }
//@@ END

//@@ FN file=src/common/concurrent.rs owner=ValueEntry name=is_dirty tags=C12
    pub(crate) fn is_dirty(&self) -> /*@+*/(r:/*@-*/ bool/*@+*/)/*@-*/
        ensures r == self.dirty() //@ [C12,C05,C06]
    {
        self.info.is_dirty()
    }
//@@ END

//@@ FN file=src/common/concurrent.rs owner=ValueEntry name=set_dirty tags=C12
    pub(crate) fn set_dirty(&self, value: bool) {
        self.info.set_dirty(value);
    }
//@@ END

//@@ FN file=src/common/concurrent.rs owner=ValueEntry name=policy_weight tags=C10
    pub(crate) fn policy_weight(&self) -> /*@+*/(r:/*@-*/ u32/*@+*/)/*@-*/
        ensures r == self.w() //@ [C10,C04]
    {
        self.info.policy_weight()
    }
//@@ END

//@@ FN file=src/common/concurrent.rs owner=ValueEntry name=access_order_q_node tags=C11
    pub(crate) fn access_order_q_node(&self) -> /*@+*/(r:/*@-*/ Option<KeyDeqNodeAo<K>>/*@+*/)/*@-*/
        ensures r == self.info@.sp_ao() //@ [C11,C12]
    {
        self.info.access_order_q_node()
    }
//@@ END

//@@ FN file=src/common/concurrent.rs owner=ValueEntry name=set_access_order_q_node tags=C11
    pub(crate) fn set_access_order_q_node(&self, node: Option<KeyDeqNodeAo<K>>) {
        self.info.set_access_order_q_node(node);
    }
//@@ END

//@@ FN file=src/common/concurrent.rs owner=ValueEntry name=take_access_order_q_node tags=C11
    pub(crate) fn take_access_order_q_node(&self) -> /*@+*/(r:/*@-*/ Option<KeyDeqNodeAo<K>>/*@+*/)/*@-*/
        ensures r == self.info@.sp_ao() //@ [C11,C12]
    {
        self.info.take_access_order_q_node()
    }
//@@ END

//@@ FN file=src/common/concurrent.rs owner=ValueEntry name=write_order_q_node tags=C11
    pub(crate) fn write_order_q_node(&self) -> /*@+*/(r:/*@-*/ Option<KeyDeqNodeWo<K>>/*@+*/)/*@-*/
        ensures r == self.info@.sp_wo() //@ [C11,C05]
    {
        self.info.write_order_q_node()
    }
//@@ END

//@@ FN file=src/common/concurrent.rs owner=ValueEntry name=set_write_order_q_node tags=C11
    pub(crate) fn set_write_order_q_node(&self, node: Option<KeyDeqNodeWo<K>>) {
        self.info.set_write_order_q_node(node)
    }
//@@ END

//@@ FN file=src/common/concurrent.rs owner=ValueEntry name=take_write_order_q_node tags=C11
    pub(crate) fn take_write_order_q_node(&self) -> /*@+*/(r:/*@-*/ Option<KeyDeqNodeWo<K>>/*@+*/)/*@-*/
        ensures r == self.info@.sp_wo() //@ [C11,C05]
    {
        self.info.take_write_order_q_node()
    }
//@@ END

//@@ FN file=src/common/concurrent.rs owner=ValueEntry name=unset_q_nodes tags=C11
    pub(crate) fn unset_q_nodes(&self) {
        self.info.unset_q_nodes();
    }
//@@ END
}

// ---------------- src/common/concurrent.rs: the three AccessTime implementations (real text) ----------------
// The getters are proved to read the stamp of the bookkeeping record the node / entry shares (trait contract `r ==
// sp_last_*()`), the setters to hand the stamp on under the trait's precondition, the two `unreachable!()` arms to be
// unreachable (`sp_may_set_* == false` for that node kind: no caller under contract may call them).
impl<K> AccessTime for DeqNode<KeyDate<K>> {
    open spec fn sp_last_accessed(&self) -> Option<Instant> { None }
    open spec fn sp_last_modified(&self) -> Option<Instant> { self.element.entry_info@.sp_tm() }
    open spec fn sp_may_set_accessed(&self, timestamp: Instant) -> bool { false }
    open spec fn sp_may_set_modified(&self, timestamp: Instant) -> bool { true }
//@@ FN file=src/common/concurrent.rs owner=AccessTime for DeqNode<KeyDate<K>> name=last_accessed tags=C06,C08
    fn last_accessed(&self) -> /*@+*/(r:/*@-*/ Option<Instant>/*@+*/)/*@-*/ {
        None
    }
//@@ END
//@@ FN file=src/common/concurrent.rs owner=AccessTime for DeqNode<KeyDate<K>> name=set_last_accessed tags=C08 never_called=1
    fn set_last_accessed(&self, _timestamp: Instant) {
        unreachable!();
    }
//@@ END
//@@ FN file=src/common/concurrent.rs owner=AccessTime for DeqNode<KeyDate<K>> name=last_modified tags=C05
    fn last_modified(&self) -> /*@+*/(r:/*@-*/ Option<Instant>/*@+*/)/*@-*/ {
        self.element.entry_info.last_modified()
    }
//@@ END
//@@ FN file=src/common/concurrent.rs owner=AccessTime for DeqNode<KeyDate<K>> name=set_last_modified tags=C05
    fn set_last_modified(&self, timestamp: Instant) {
        self.element.entry_info.set_last_modified(timestamp);
    }
//@@ END
}
impl<K> AccessTime for DeqNode<KeyHashDate<K>> {
    open spec fn sp_last_accessed(&self) -> Option<Instant> { self.element.entry_info@.sp_ta() }
    open spec fn sp_last_modified(&self) -> Option<Instant> { None }
    open spec fn sp_may_set_accessed(&self, timestamp: Instant) -> bool { stamp_forward(self.element.entry_info@.sp_ta(), timestamp) }
    open spec fn sp_may_set_modified(&self, timestamp: Instant) -> bool { false }
//@@ FN file=src/common/concurrent.rs owner=AccessTime for DeqNode<KeyHashDate<K>> name=last_accessed tags=C06
    fn last_accessed(&self) -> /*@+*/(r:/*@-*/ Option<Instant>/*@+*/)/*@-*/ {
        self.element.entry_info.last_accessed()
    }
//@@ END
//@@ FN file=src/common/concurrent.rs owner=AccessTime for DeqNode<KeyHashDate<K>> name=set_last_accessed tags=C06
    fn set_last_accessed(&self, timestamp: Instant) {
        self.element.entry_info.set_last_accessed(timestamp);
    }
//@@ END
//@@ FN file=src/common/concurrent.rs owner=AccessTime for DeqNode<KeyHashDate<K>> name=last_modified tags=C05,C08
    fn last_modified(&self) -> /*@+*/(r:/*@-*/ Option<Instant>/*@+*/)/*@-*/ {
        None
    }
//@@ END
//@@ FN file=src/common/concurrent.rs owner=AccessTime for DeqNode<KeyHashDate<K>> name=set_last_modified tags=C08 never_called=1
    fn set_last_modified(&self, _timestamp: Instant) {
        unreachable!();
    }
//@@ END
}
impl<K, V> AccessTime for TrioArc<ValueEntry<K, V>> {
    open spec fn sp_last_accessed(&self) -> Option<Instant> { self@.info@.sp_ta() }
    open spec fn sp_last_modified(&self) -> Option<Instant> { self@.info@.sp_tm() }
    open spec fn sp_may_set_accessed(&self, timestamp: Instant) -> bool { stamp_forward(self@.info@.sp_ta(), timestamp) }
    open spec fn sp_may_set_modified(&self, timestamp: Instant) -> bool { true }
//@@ FN file=src/common/concurrent.rs owner=AccessTime for TrioArc<ValueEntry<K, V>> name=last_accessed tags=C06
    fn last_accessed(&self) -> /*@+*/(r:/*@-*/ Option<Instant>/*@+*/)/*@-*/ {
        self.info.last_accessed()
    }
//@@ END
//@@ FN file=src/common/concurrent.rs owner=AccessTime for TrioArc<ValueEntry<K, V>> name=set_last_accessed tags=C06
    fn set_last_accessed(&self, timestamp: Instant) {
        self.info.set_last_accessed(timestamp);
    }
//@@ END
//@@ FN file=src/common/concurrent.rs owner=AccessTime for TrioArc<ValueEntry<K, V>> name=last_modified tags=C05
    fn last_modified(&self) -> /*@+*/(r:/*@-*/ Option<Instant>/*@+*/)/*@-*/ {
        self.info.last_modified()
    }
//@@ END
//@@ FN file=src/common/concurrent.rs owner=AccessTime for TrioArc<ValueEntry<K, V>> name=set_last_modified tags=C05
    fn set_last_modified(&self, timestamp: Instant) {
        self.info.set_last_modified(timestamp);
    }
//@@ END
}

// ---------------- the records of the two maintenance queues ----------------
//@@ STRUCT file=src/common/concurrent.rs name=KvEntry
#[verifier::reject_recursive_types(K)]
#[verifier::reject_recursive_types(V)]
pub struct KvEntry<K, V> {
    pub key: Arc<K>,
    pub entry: TrioArc<ValueEntry<K, V>>,
}
//@@ END
//@@ ENUM file=src/common/concurrent.rs name=ReadOp
#[verifier::reject_recursive_types(K)]
#[verifier::reject_recursive_types(V)]
pub enum ReadOp<K, V> {
    // u64 is the hash of the key.
    Hit(u64, TrioArc<ValueEntry<K, V>>, Instant),
    Miss(u64),
}
//@@ END
//@@ ENUM file=src/common/concurrent.rs name=WriteOp
#[verifier::reject_recursive_types(K)]
#[verifier::reject_recursive_types(V)]
pub enum WriteOp<K, V> {
    Upsert {
        key_hash: KeyHash<K>,
        value_entry: TrioArc<ValueEntry<K, V>>,
        old_weight: u32,
        new_weight: u32,
    },
    Remove(KvEntry<K, V>),
}
//@@ END

//@@ STRUCT file=src/common/concurrent/deques.rs name=Deques
#[verifier::reject_recursive_types(K)]
pub struct Deques<K> {
    pub window: Deque<KeyHashDate<K>>, //    Not used yet.
    pub probation: Deque<KeyHashDate<K>>,
    pub protected: Deque<KeyHashDate<K>>, // Not used yet.
    pub write_order: Deque<KeyDate<K>>,
}
//@@ END

impl<K> Default for Deques<K> {
//@@ FN file=src/common/concurrent/deques.rs owner=Default for Deques name=default tags=C11,C17
    fn default() -> /*@+*/(r:/*@-*/ Self/*@+*/)/*@-*/
        ensures r.window@.len() == 0, r.probation@.len() == 0, r.protected@.len() == 0, r.write_order@.len() == 0, r.regions_ok() //@ [C11,C17,C08]
    {
        Self {
            window: Deque::new(CacheRegion::Window),
            probation: Deque::new(CacheRegion::MainProbation),
            protected: Deque::new(CacheRegion::MainProtected),
            write_order: Deque::new(CacheRegion::Other),
        }
    }
//@@ END
}

impl<K> Deques<K> {
    /// each list knows its own region (set once, in `default`)
    pub open spec fn regions_ok(&self) -> bool {
        self.window.sp_region() as usize == 0 && self.probation.sp_region() as usize == 1 && self.protected.sp_region() as usize == 2
    }
    pub open spec fn same_regions(&self, o: &Self) -> bool {
        self.window.sp_region() == o.window.sp_region() && self.probation.sp_region() == o.probation.sp_region() && self.protected.sp_region() == o.protected.sp_region()
    }
    pub open spec fn others_same(&self, o: &Self) -> bool { self.window@ == o.window@ && self.protected@ == o.protected@ }
    /// stated invariant of the concurrent cache: every access-order node is tagged MainProbation (the only region
    /// `handle_admit` ever passes to `push_back_ao`)
    pub open spec fn ao_in_probation<V>(e: &ValueEntry<K, V>) -> bool { e.ao_tag().is_some() ==> e.ao_tag().unwrap() == 1 }
    /// what removing the node `id` (if any, and if it is a member) does to a list
    pub open spec fn without(s: Seq<N>, id: Option<int>) -> Seq<N> {
        if id.is_some() && has_id(s, id.unwrap()) { s.remove(index_of_id(s, id.unwrap())) } else { s }
    }
    pub open spec fn to_back(s: Seq<N>, id: Option<int>) -> Seq<N> {
        if id.is_some() && has_id(s, id.unwrap()) { moved_to_back(s, index_of_id(s, id.unwrap())) } else { s }
    }

//@@ FN file=src/common/concurrent/deques.rs owner=Deques name=push_back_ao tags=C11,C12
    pub(crate) fn push_back_ao<V>(
        &mut self,
        region: CacheRegion,
        khd: KeyHashDate<K>,
        entry: &TrioArc<ValueEntry<K, V>>,
    )
        requires region is MainProbation, old(self).regions_ok(), //@ [C08]
        ensures //@
            final(self).others_same(old(self)), final(self).write_order@ == old(self).write_order@, final(self).same_regions(old(self)), //@ [C12,C11]
            pushed(old(self).probation@, final(self).probation@, kid_arc(khd.key), khd.hash), //@ [C12,C11,C13]
    {
        let node = Box::new(DeqNode::new(khd));
        let node = match region {
            CacheRegion::Window => self.window.push_back(node),
            CacheRegion::MainProbation => self.probation.push_back(node),
            CacheRegion::MainProtected => self.protected.push_back(node),
            _ => unreachable!(),
        };
        let tagged_node = TagNonNull::compose(node, region as usize);
        entry.set_access_order_q_node(Some(tagged_node));
    }
//@@ END

//@@ FN file=src/common/concurrent/deques.rs owner=Deques name=push_back_wo tags=C11,C05
    pub(crate) fn push_back_wo<V>(&mut self, kd: KeyDate<K>, entry: &TrioArc<ValueEntry<K, V>>)
        ensures //@
            final(self).others_same(old(self)), final(self).probation@ == old(self).probation@, final(self).same_regions(old(self)), //@ [C12,C11]
            pushed(old(self).write_order@, final(self).write_order@, kid_arc(kd.key), 0), //@ [C05,C11]
    {
        let node = Box::new(DeqNode::new(kd));
        let node = self.write_order.push_back(node);
        entry.set_write_order_q_node(Some(node));
    }
//@@ END

//@@ FN file=src/common/concurrent/deques.rs owner=Deques name=move_to_back_ao tags=C12,C08
    pub(crate) fn move_to_back_ao<V>(&mut self, entry: &TrioArc<ValueEntry<K, V>>)
        requires // the node is a member of the probation list: otherwise the `unreachable!()` arm is reached //@
            entry@.ao().is_some() ==> has_id(old(self).probation@, entry@.ao().unwrap()), Self::ao_in_probation(&entry@), //@ [C08,C11]
        ensures //@
            final(self).others_same(old(self)), final(self).write_order@ == old(self).write_order@, final(self).same_regions(old(self)), //@ [C12]
            final(self).probation@ == Self::to_back(old(self).probation@, entry@.ao()), //@ [C12,C13]
    {
        if let Some(tagged_node) = entry.access_order_q_node() {
            let (node, tag) = tagged_node.decompose();
            let p = unsafe { node.as_ref() };
            match tag.into() {
                CacheRegion::Window if self.window.contains(p) => {
                    unsafe { self.window.move_to_back(node) };
                }
                CacheRegion::MainProbation if self.probation.contains(p) => {
                    unsafe { self.probation.move_to_back(node) };
                }
                CacheRegion::MainProtected if self.protected.contains(p) => {
                    unsafe { self.protected.move_to_back(node) };
                }
                _ => unreachable!(),
            }
        }
    }
//@@ END

//@@ FN file=src/common/concurrent/deques.rs owner=Deques name=move_to_back_ao_in_deque tags=C12,C08
    pub(crate) fn move_to_back_ao_in_deque<V>(
        deq_name: &str,
        deq: &mut Deque<KeyHashDate<K>>,
        entry: &TrioArc<ValueEntry<K, V>>,
    )
        requires // otherwise: `panic!("move_to_back_ao_in_deque - node is not a member of {} deque")` //@
            entry@.ao_tag().is_some() ==> old(deq).sp_region() as usize == entry@.ao_tag().unwrap(), //@ [C08,C11]
        ensures //@
            final(deq)@ == Self::to_back(old(deq)@, entry@.ao()), final(deq).sp_region() == old(deq).sp_region(), //@ [C12,C13]
    {
        if let Some(tagged_node) = entry.access_order_q_node() {
            let (node, tag) = tagged_node.decompose();
            let p = unsafe { node.as_ref() };
            if deq.region() == tag {
                if deq.contains(p) {
                    unsafe { deq.move_to_back(node) };
                }
            } else {
                panic!(
                    "move_to_back_ao_in_deque - node is not a member of {} deque. {:?}",
                    deq_name, p,
                )
            }
        }
    }
//@@ END

//@@ FN file=src/common/concurrent/deques.rs owner=Deques name=move_to_back_wo tags=C05,C08
    pub(crate) fn move_to_back_wo<V>(&mut self, entry: &TrioArc<ValueEntry<K, V>>)
        ensures //@
            final(self).others_same(old(self)), final(self).probation@ == old(self).probation@, final(self).same_regions(old(self)), //@ [C12]
            final(self).write_order@ == Self::to_back(old(self).write_order@, entry@.wo()), //@ [C05]
    {
        if let Some(node) = entry.write_order_q_node() {
            let p = unsafe { node.as_ref() };
            if self.write_order.contains(p) {
                unsafe { self.write_order.move_to_back(node) };
            }
        }
    }
//@@ END

//@@ FN file=src/common/concurrent/deques.rs owner=Deques name=move_to_back_wo_in_deque tags=C05,C08
    pub(crate) fn move_to_back_wo_in_deque<V>(
        deq: &mut Deque<KeyDate<K>>,
        entry: &TrioArc<ValueEntry<K, V>>,
    )
        ensures final(deq)@ == Self::to_back(old(deq)@, entry@.wo()), //@ [C05]
    {
        if let Some(node) = entry.write_order_q_node() {
            let p = unsafe { node.as_ref() };
            if deq.contains(p) {
                unsafe { deq.move_to_back(node) };
            }
        }
    }
//@@ END

//@@ FN file=src/common/concurrent/deques.rs owner=Deques name=unlink_ao tags=C11,C08
    pub(crate) fn unlink_ao<V>(&mut self, entry: &TrioArc<ValueEntry<K, V>>)
        requires Self::ao_in_probation(&entry@), old(self).regions_ok(), //@ [C08,C11]
        ensures //@
            final(self).others_same(old(self)), final(self).write_order@ == old(self).write_order@, final(self).same_regions(old(self)), //@ [C12]
            final(self).probation@ == Self::without(old(self).probation@, entry@.ao()), //@ [C11,C12,C10]
    {
        if let Some(node) = entry.take_access_order_q_node() {
            self.unlink_node_ao(node);
        }
    }
//@@ END

//@@ FN file=src/common/concurrent/deques.rs owner=Deques name=unlink_ao_from_deque tags=C11,C08
    pub(crate) fn unlink_ao_from_deque<V>(
        deq_name: &str,
        deq: &mut Deque<KeyHashDate<K>>,
        entry: &TrioArc<ValueEntry<K, V>>,
    )
        requires entry@.ao_tag().is_some() ==> old(deq).sp_region() as usize == entry@.ao_tag().unwrap(), //@ [C08,C11]
        ensures //@
            final(deq)@ == Self::without(old(deq)@, entry@.ao()), //@ [C11,C12,C10]
            final(deq).sp_region() == old(deq).sp_region(), //@
    {
        if let Some(node) = entry.take_access_order_q_node() {
            unsafe { Self::unlink_node_ao_from_deque(deq_name, deq, node) };
        }
    }
//@@ END

//@@ FN file=src/common/concurrent/deques.rs owner=Deques name=unlink_wo tags=C11,C08
    pub(crate) fn unlink_wo<V>(deq: &mut Deque<KeyDate<K>>, entry: &TrioArc<ValueEntry<K, V>>)
        ensures final(deq)@ == Self::without(old(deq)@, entry@.wo()), //@ [C11,C05]
            final(deq).sp_region() == old(deq).sp_region(), //@
    {
        if let Some(node) = entry.take_write_order_q_node() {
            Self::unlink_node_wo(deq, node);
        }
    }
//@@ END

//@@ FN file=src/common/concurrent/deques.rs owner=Deques name=unlink_node_ao tags=C11,C08
    pub(crate) fn unlink_node_ao(&mut self, tagged_node: TagNonNull<DeqNode<KeyHashDate<K>>, 2>)
        requires tagged_node.tn_tag() == 1, old(self).regions_ok(), //@ [C08,C11]
        ensures //@
            final(self).others_same(old(self)), final(self).write_order@ == old(self).write_order@, final(self).same_regions(old(self)), //@ [C12]
            final(self).probation@ == Self::without(old(self).probation@, Some(tagged_node.tn_id())), //@ [C11,C12]
    {
        unsafe {
            match tagged_node.decompose_tag().into() {
                CacheRegion::Window => {
                    Self::unlink_node_ao_from_deque("window", &mut self.window, tagged_node)
                }
                CacheRegion::MainProbation => {
                    Self::unlink_node_ao_from_deque("probation", &mut self.probation, tagged_node)
                }
                CacheRegion::MainProtected => {
                    Self::unlink_node_ao_from_deque("protected", &mut self.protected, tagged_node)
                }
                _ => unreachable!(),
            }
        }
    }
//@@ END

//@@ FN file=src/common/concurrent/deques.rs owner=Deques name=unlink_node_ao_from_deque tags=C11,C08
    unsafe fn unlink_node_ao_from_deque(
        deq_name: &str,
        deq: &mut Deque<KeyHashDate<K>>,
        tagged_node: TagNonNull<DeqNode<KeyHashDate<K>>, 2>,
    )
        requires // otherwise: `panic!("unlink_node - node is not a member of {} deque")` //@
            old(deq).sp_region() as usize == tagged_node.tn_tag(), //@ [C08,C11]
        ensures final(deq)@ == Self::without(old(deq)@, Some(tagged_node.tn_id())), final(deq).sp_region() == old(deq).sp_region(), //@ [C11,C12]
    {
        let (node, tag) = tagged_node.decompose();
        let p = node.as_ref();
        if deq.region() == tag {
            if deq.contains(p) {
                // https://github.com/moka-rs/moka/issues/64
                deq.unlink_and_drop(node);
            }
        } else {
            panic!(
                "unlink_node - node is not a member of {} deque. {:?}",
                deq_name, p
            )
        }
    }
//@@ END

//@@ FN file=src/common/concurrent/deques.rs owner=Deques name=unlink_node_wo tags=C11,C08
    pub(crate) fn unlink_node_wo(deq: &mut Deque<KeyDate<K>>, node: NonNull<DeqNode<KeyDate<K>>>)
        ensures final(deq)@ == Self::without(old(deq)@, Some(nid(node))), final(deq).sp_region() == old(deq).sp_region(), //@ [C11,C05]
    {
        unsafe {
            let p = node.as_ref();
            if deq.contains(p) {
                // https://github.com/moka-rs/moka/issues/64
                deq.unlink_and_drop(node);
            }
        }
    }
//@@ END
}

//@@ STRUCT file=src/sync/base_cache.rs name=EvictionCounters
pub struct EvictionCounters {
    pub entry_count: u64,
    pub weighted_size: u64,
}
//@@ END

pub open spec fn sat_add(a: u64, w: u32) -> u64 { if a + w <= u64::MAX { (a + w) as u64 } else { u64::MAX } }

impl EvictionCounters {
//@@ FN file=src/sync/base_cache.rs owner=EvictionCounters name=saturating_add tags=C10
    fn saturating_add(&mut self, entry_count: u64, weight: u32)
        requires old(self).entry_count + entry_count <= u64::MAX, //@ [C08]
        ensures final(self).entry_count == old(self).entry_count + entry_count, //@ [C10]
            final(self).weighted_size == sat_add(old(self).weighted_size, weight), //@ [C10,C04]
    {
        self.entry_count += entry_count;
        let total = &mut self.weighted_size;
        *total = total.saturating_add(weight as u64);
    }
//@@ END

//@@ FN file=src/sync/base_cache.rs owner=EvictionCounters name=saturating_sub tags=C10
    fn saturating_sub(&mut self, entry_count: u64, weight: u32)
        requires old(self).entry_count >= entry_count, //@ [C08,C10]
        ensures final(self).entry_count == old(self).entry_count - entry_count, //@ [C10]
            final(self).weighted_size == sat_sub(old(self).weighted_size, weight), //@ [C10,C03]
    {
        self.entry_count -= entry_count;
        let total = &mut self.weighted_size;
        *total = total.saturating_sub(weight as u64);
    }
//@@ END
}

//@@ STRUCT file=src/sync/base_cache.rs name=EntrySizeAndFrequency
#[derive(Default)]
pub struct EntrySizeAndFrequency {
    pub policy_weight: u64,
    pub freq: u32,
}
//@@ END
pub assume_specification [<EntrySizeAndFrequency as Default>::default] () -> (r: EntrySizeAndFrequency)
    ensures r.policy_weight == 0, r.freq == 0;

impl EntrySizeAndFrequency {
//@@ FN file=src/sync/base_cache.rs owner=EntrySizeAndFrequency name=new tags=C13
    fn new(policy_weight: u32) -> /*@+*/(r:/*@-*/ Self/*@+*/)/*@-*/
        ensures r.policy_weight == policy_weight, r.freq == 0 //@ [C13]
    {
        Self {
            policy_weight: policy_weight as u64,
            ..Default::default()
        }
    }
//@@ END

//@@ FN file=src/sync/base_cache.rs owner=EntrySizeAndFrequency name=add_frequency tags=C13
    fn add_frequency(&mut self, freq: &FrequencySketch, hash: u64)
        requires old(self).freq + 15 <= u32::MAX, //@ [C08]
        ensures final(self).freq == old(self).freq + freq.freq(hash), final(self).freq <= old(self).freq + 15, final(self).policy_weight == old(self).policy_weight //@ [C13]
    {
        self.freq += freq.frequency(hash) as u32;
    }
//@@ END
}

// Access-Order Queue Node
type AoqNode<K> = NonNull<DeqNode<KeyHashDate<K>>>;

//@@ ENUM file=src/sync/base_cache.rs name=AdmissionResult
#[verifier::reject_recursive_types(K)]
pub enum AdmissionResult<K> {
    Admitted {
        victim_nodes: SmallVec<[AoqNode<K>; 8]>,
        skipped_nodes: SmallVec<[AoqNode<K>; 4]>,
    },
    Rejected {
        skipped_nodes: SmallVec<[AoqNode<K>; 4]>,
    },
}
//@@ END

pub open spec fn ptr_ids<K>(v: Seq<AoqNode<K>>) -> Seq<int> { v.map_values(|p: AoqNode<K>| nid(p)) }

/// contracts PROVED on the real text in unit `sync`
//@@ SIG file=src/sync/base_cache.rs owner=- name=is_expired_entry_ao
#[verifier::external_body]
fn is_expired_entry_ao(
    time_to_idle: &Option<Duration>,
    valid_after: &Option<Instant>,
    entry: &impl AccessTime,
    now: Instant,
) -> (r: bool)
    requires time_to_idle.is_some() ==> dur_ns(time_to_idle.unwrap()) <= max_dur_ns(),
    ensures r == sp_expired_ao(*time_to_idle, *valid_after, entry.sp_last_accessed(), now),
{ unimplemented!() }
//@@ END
//@@ SIG file=src/sync/base_cache.rs owner=- name=is_expired_entry_wo
#[verifier::external_body]
fn is_expired_entry_wo(
    time_to_live: &Option<Duration>,
    valid_after: &Option<Instant>,
    entry: &impl AccessTime,
    now: Instant,
) -> (r: bool)
    requires time_to_live.is_some() ==> dur_ns(time_to_live.unwrap()) <= max_dur_ns(),
    ensures r == sp_expired_wo(*time_to_live, *valid_after, entry.sp_last_modified(), now),
{ unimplemented!() }
//@@ END

/// only the fields the functions under contract read are declared
#[verifier::reject_recursive_types(K)]
#[verifier::reject_recursive_types(V)]
#[verifier::reject_recursive_types(S)]
pub struct Inner<K, V, S> {
    pub max_capacity: Option<u64>,
    pub time_to_live: Option<Duration>,
    pub time_to_idle: Option<Duration>,
    pub cache: CacheStore<K, V, S>,
    pub frequency_sketch: RwLock<FrequencySketch>,
    pub read_op_ch: Receiver<ReadOp<K, V>>,
    pub write_op_ch: Receiver<WriteOp<K, V>>,
    pub frequency_sketch_enabled: AtomicBool,
    pub weigher: Option<Weigher<K, V>>,
}

impl<K, V, S> Inner<K, V, S> {
//@@ FN file=src/sync/base_cache.rs owner=Inner name=is_write_order_queue_enabled tags=C05
    fn is_write_order_queue_enabled(&self) -> /*@+*/(r:/*@-*/ bool/*@+*/)/*@-*/
        ensures r == self.time_to_live.is_some() //@ [C05]
    {
        self.time_to_live.is_some()
    }
//@@ END

    /// contract PROVED on the real text in unit `sync`
//@@ SIG file=src/sync/base_cache.rs owner=Inner name=has_enough_capacity
    #[verifier::external_body]
    fn has_enough_capacity(&self, candidate_weight: u32, counters: &EvictionCounters) -> (r: bool)
        requires counters.weighted_size + candidate_weight <= u64::MAX,
        ensures r == self.sp_fits(candidate_weight, counters.weighted_size)
    { unimplemented!() }
//@@ END

    pub open spec fn sp_fits(&self, w: u32, ws: u64) -> bool { match self.max_capacity { Some(limit) => ws + w <= limit, None => true } }
    pub open spec fn sp_oversize(&self, w: u32) -> bool { match self.max_capacity { Some(limit) => w > limit, None => false } }

    /// QUIESCENT STATE of the maintenance side (what a sequential history with maintenance applied looks like): every node of
    /// the probation list belongs to the admitted entry the map holds under the node's key, entries and nodes are one to one,
    /// and the entry counter is the length of the list
    pub open spec fn coupled(m: Map<KeyId, TrioArc<ValueEntry<K, V>>>, p: Seq<N>) -> bool {
        &&& distinct_ids(p)
        &&& forall|i: int, j: int| 0 <= i < j < p.len() ==> (#[trigger] p[i]).key != (#[trigger] p[j]).key
        &&& forall|i: int| 0 <= i < p.len() ==> {
            &&& m.contains_key((#[trigger] p[i]).key)
            &&& m[p[i].key]@.admitted()
            &&& m[p[i].key]@.ao() == Some(p[i].id)
            &&& m[p[i].key]@.ao_tag() == Some(1usize)
        }
    }

    /// the admission decision: contract PROVED on the real text in unit `sync_admit` (there over the weights of the entries,
    /// `wmap`); assumed here
//@@ SIG file=src/sync/base_cache.rs owner=Inner name=admit
    #[verifier::external_body]
    fn admit(
        candidate: &EntrySizeAndFrequency,
        cache: &CacheStore<K, V, S>,
        deqs: &Deques<K>,
        freq: &FrequencySketch,
    ) -> (r: AdmissionResult<K>)
        requires
            candidate.policy_weight <= u32::MAX, candidate.freq <= 15,
            forall|i: int| 0 <= i < deqs.probation@.len() ==> cache@.contains_key(#[trigger] deqs.probation@[i].key),
        ensures
            (r is Admitted) <==> spec_admit(candidate.policy_weight as int, candidate.freq as int, deqs.probation@, wmap(cache@), *freq),
            match r {
                AdmissionResult::Admitted { victim_nodes, skipped_nodes } =>
                    least_prefix(deqs.probation@, wmap(cache@), candidate.policy_weight as int, 0) == Some(victim_nodes.v@.len() as int)
                        && ptr_ids(victim_nodes.v@) == deqs.probation@.take(victim_nodes.v@.len() as int).map_values(|x: N| x.id)
                        && skipped_nodes.v@.len() == 0,
                AdmissionResult::Rejected { skipped_nodes } => skipped_nodes.v@.len() == 0,
            },
    { unimplemented!() }
//@@ END

    /// an admitted entry's counters can be given back: at least one entry is accounted for
    pub open spec fn removable(entry: &ValueEntry<K, V>, deqs: &Deques<K>, counters: &EvictionCounters) -> bool {
        entry.admitted() ==> counters.entry_count >= 1 && Deques::<K>::ao_in_probation(entry) && deqs.regions_ok()
    }

//@@ FN file=src/sync/base_cache.rs owner=Inner name=handle_admit tags=C10,C04,C12
    fn handle_admit(
        &self,
        kh: KeyHash<K>,
        entry: &TrioArc<ValueEntry<K, V>>,
        policy_weight: u32,
        deqs: &mut Deques<K>,
        counters: &mut EvictionCounters,
    )
        requires old(counters).entry_count < u64::MAX, old(deqs).regions_ok(), //@ [C08]
        ensures //@
            // C10 / C04: exactly one entry and exactly the weight the write record carries are accounted for
            final(counters).entry_count == old(counters).entry_count + 1, //@ [C10]
            final(counters).weighted_size == sat_add(old(counters).weighted_size, policy_weight), //@ [C10,C04,C03]
            // C12 / C13: the key becomes the most recently used resident
            pushed(old(deqs).probation@, final(deqs).probation@, kid_arc(kh.key), kh.hash), //@ [C12,C13,C11]
            // C05: it joins the write-order list iff a time-to-live is configured
            self.time_to_live.is_some() ==> pushed(old(deqs).write_order@, final(deqs).write_order@, kid_arc(kh.key), 0), //@ [C05,C11]
            self.time_to_live.is_none() ==> final(deqs).write_order@ == old(deqs).write_order@, //@ [C05,C11]
            final(deqs).others_same(old(deqs)), final(deqs).same_regions(old(deqs)), //@ [C11]
    {
        let key = Arc::clone(&kh.key);
        counters.saturating_add(1, policy_weight);
        deqs.push_back_ao(
            CacheRegion::MainProbation,
            KeyHashDate::new(kh, entry.entry_info()),
            entry,
        );
        if self.is_write_order_queue_enabled() {
            deqs.push_back_wo(KeyDate::new(key, entry.entry_info()), entry);
        }
        entry.set_admitted(true);
    }
//@@ END

//@@ FN file=src/sync/base_cache.rs owner=Inner name=handle_remove tags=C10,C11
    fn handle_remove(
        deqs: &mut Deques<K>,
        entry: TrioArc<ValueEntry<K, V>>,
        counters: &mut EvictionCounters,
    )
        requires Self::removable(&entry@, old(deqs), old(counters)), //@ [C08,C10]
        ensures //@
            // an entry that was never admitted holds no node and no share of the counters
            !entry@.admitted() ==> *final(counters) == *old(counters) && final(deqs).probation@ == old(deqs).probation@ && final(deqs).write_order@ == old(deqs).write_order@, //@ [C10,C11,C03]
            // C10: an admitted entry gives back one entry and the weight it is accounted with
            entry@.admitted() ==> final(counters).entry_count == old(counters).entry_count - 1 && final(counters).weighted_size == sat_sub(old(counters).weighted_size, entry@.w()), //@ [C10,C04,C03]
            // C11: and both of its nodes leave the lists
            entry@.admitted() ==> final(deqs).probation@ == Deques::<K>::without(old(deqs).probation@, entry@.ao()) && final(deqs).write_order@ == Deques::<K>::without(old(deqs).write_order@, entry@.wo()), //@ [C11,C12,C05]
            final(deqs).others_same(old(deqs)), final(deqs).same_regions(old(deqs)), //@ [C11]
    {
        if entry.is_admitted() {
            entry.set_admitted(false);
            counters.saturating_sub(1, entry.policy_weight());
            // The following two unlink_* functions will unset the deq nodes.
            deqs.unlink_ao(&entry);
            Deques::unlink_wo(&mut deqs.write_order, &entry);
        } else {
            entry.unset_q_nodes();
        }
    }
//@@ END

//@@ FN file=src/sync/base_cache.rs owner=Inner name=handle_remove_with_deques tags=C10,C11
    fn handle_remove_with_deques(
        ao_deq_name: &str,
        ao_deq: &mut Deque<KeyHashDate<K>>,
        wo_deq: &mut Deque<KeyDate<K>>,
        entry: TrioArc<ValueEntry<K, V>>,
        counters: &mut EvictionCounters,
    )
        requires entry@.admitted() ==> old(counters).entry_count >= 1 && (entry@.ao_tag().is_some() ==> old(ao_deq).sp_region() as usize == entry@.ao_tag().unwrap()), //@ [C08,C10]
        ensures //@
            !entry@.admitted() ==> *final(counters) == *old(counters) && final(ao_deq)@ == old(ao_deq)@ && final(wo_deq)@ == old(wo_deq)@, //@ [C10,C11,C03]
            entry@.admitted() ==> final(counters).entry_count == old(counters).entry_count - 1 && final(counters).weighted_size == sat_sub(old(counters).weighted_size, entry@.w()), //@ [C10,C04,C03]
            entry@.admitted() ==> final(ao_deq)@ == Deques::<K>::without(old(ao_deq)@, entry@.ao()) && final(wo_deq)@ == Deques::<K>::without(old(wo_deq)@, entry@.wo()), //@ [C11,C12,C05]
            final(ao_deq).sp_region() == old(ao_deq).sp_region(), //@
    {
        if entry.is_admitted() {
            entry.set_admitted(false);
            counters.saturating_sub(1, entry.policy_weight());
            // The following two unlink_* functions will unset the deq nodes.
            Deques::unlink_ao_from_deque(ao_deq_name, ao_deq, &entry);
            Deques::unlink_wo(wo_deq, &entry);
        } else {
            entry.unset_q_nodes();
        }
    }
//@@ END

//@@ FN file=src/sync/base_cache.rs owner=Inner name=handle_upsert tags=C10,C04,C12,C13,C03
    #[allow(clippy::too_many_arguments)]
    fn handle_upsert(
        &self,
        kh: KeyHash<K>,
        entry: TrioArc<ValueEntry<K, V>>,
        old_weight: u32,
        new_weight: u32,
        deqs: &mut Deques<K>,
        freq: &FrequencySketch,
        counters: &mut EvictionCounters,
    )
        requires //@
            // QUIESCENT STATE (see `coupled`), counters in step with the list
            Self::coupled(self.cache@, old(deqs).probation@), old(deqs).regions_ok(), //@ [C08,C11]
            old(counters).entry_count == old(deqs).probation@.len(), old(counters).entry_count < u64::MAX, //@ [C10]
            old(counters).weighted_size + new_weight <= u64::MAX, //@ [C08]
            // the entry this record is about: an admitted one owns a probation node; a new one owns none yet
            entry@.admitted() ==> entry@.ao().is_some() && has_id(old(deqs).probation@, entry@.ao().unwrap()) && Deques::<K>::ao_in_probation(&entry@), //@ [C08,C11]
        ensures //@
            final(deqs).others_same(old(deqs)), final(deqs).same_regions(old(deqs)), //@ [C11]
            // an update of an admitted entry: its share of the total is replaced, it becomes most recently used
            entry@.admitted() ==> { //@ [C10,C04,C12]
                &&& final(counters).entry_count == old(counters).entry_count //@
                &&& final(counters).weighted_size == sat_add(sat_sub(old(counters).weighted_size, old_weight), new_weight) //@
                &&& final(deqs).probation@ == Deques::<K>::to_back(old(deqs).probation@, entry@.ao()) //@
                &&& final(deqs).write_order@ == Deques::<K>::to_back(old(deqs).write_order@, entry@.wo()) //@
            }, //@
            // C03: a new entry that fits is admitted, nobody is removed
            !entry@.admitted() && self.sp_fits(new_weight, old(counters).weighted_size) ==> { //@ [C03,C10,C12]
                &&& final(counters).entry_count == old(counters).entry_count + 1 //@
                &&& final(counters).weighted_size == sat_add(old(counters).weighted_size, new_weight) //@
                &&& pushed(old(deqs).probation@, final(deqs).probation@, kid_arc(kh.key), kh.hash) //@
            }, //@
            // C04 / C13: heavier than the whole cache: rejected, counters and lists untouched
            !entry@.admitted() && !self.sp_fits(new_weight, old(counters).weighted_size) && self.sp_oversize(new_weight) ==> //@ [C04,C13,C10]
                *final(counters) == *old(counters) && final(deqs).probation@ == old(deqs).probation@ && final(deqs).write_order@ == old(deqs).write_order@, //@
            // C12 / C13: no room: admitted iff strictly more popular than the shortest sufficient LRU prefix, which is exactly what goes
            !entry@.admitted() && !self.sp_fits(new_weight, old(counters).weighted_size) && !self.sp_oversize(new_weight) //@ [C12,C13,C10,C04]
                && spec_admit(new_weight as int, freq.freq(kh.hash) as int, old(deqs).probation@, wmap(self.cache@), *freq) ==> ({ //@
                let n = least_prefix(old(deqs).probation@, wmap(self.cache@), new_weight as int, 0).unwrap(); //@
                &&& final(counters).entry_count == old(counters).entry_count - n + 1 //@
                &&& final(counters).weighted_size == sat_add(sat_sub_seq(old(counters).weighted_size, old(deqs).probation@.take(n), wmap(self.cache@)), new_weight) //@
                &&& pushed(old(deqs).probation@.skip(n), final(deqs).probation@, kid_arc(kh.key), kh.hash) //@
            }), //@
            // C13: otherwise rejected and no resident is touched
            !entry@.admitted() && !self.sp_fits(new_weight, old(counters).weighted_size) && !self.sp_oversize(new_weight) //@ [C13,C10]
                && !spec_admit(new_weight as int, freq.freq(kh.hash) as int, old(deqs).probation@, wmap(self.cache@), *freq) ==> //@
                *final(counters) == *old(counters) && final(deqs).probation@ == old(deqs).probation@ && final(deqs).write_order@ == old(deqs).write_order@, //@
    {
        let ghost p0 = deqs.probation@; let ghost m = self.cache@; let ghost ec0 = counters.entry_count; let ghost ws0 = counters.weighted_size; //@
        entry.set_dirty(false);

        if entry.is_admitted() {
            // The entry has been already admitted, so treat this as an update.
            counters.saturating_sub(0, old_weight);
            counters.saturating_add(0, new_weight);
            deqs.move_to_back_ao(&entry);
            deqs.move_to_back_wo(&entry);
            return;
        }

        if self.has_enough_capacity(new_weight, counters) {
            // There are enough room in the cache (or the cache is unbounded).
            // Add the candidate to the deques.
            self.handle_admit(kh, &entry, new_weight, deqs, counters);
            return;
        }

        if let Some(max) = self.max_capacity {
            if new_weight as u64 > max {
                // The candidate is too big to fit in the cache. Reject it.
                self.cache.remove(&Arc::clone(&kh.key));
                return;
            }
        }

        let skipped_nodes;
        let mut candidate = EntrySizeAndFrequency::new(new_weight);
        candidate.add_frequency(freq, kh.hash);

        // Try to admit the candidate.
        proof { axiom_frozen(&deqs.probation); } //@
        match Self::admit(&candidate, &self.cache, deqs, freq) {
            AdmissionResult::Admitted {
                victim_nodes,
                skipped_nodes: mut skipped,
            } => {
                let ghost vn = victim_nodes.v@; //@
                let ghost n = vn.len() as int; //@
                proof { lemma_least_prefix(p0, wmap(m), new_weight as int, 0); assert(p0.skip(0) =~= p0); assert(p0.take(0) =~= Seq::<N>::empty()); } //@
                // Try to remove the victims from the cache (hash map).
                for victim in /*@+*/it:/*@-*/ victim_nodes
                    invariant //@
                        it.snapshot@.remaining() == vn, n == vn.len(), n <= p0.len(), it.index@ <= n, //@
                        ptr_ids(vn) == p0.take(n).map_values(|x: N| x.id), //@
                        frozen::<K>(p0), Self::coupled(m, p0), self.cache@ == m, //@
                        skipped.v@.len() == 0, //@
                        deqs.probation@ == p0.skip(it.index@), //@ [C12]
                        deqs.regions_ok(), deqs.others_same(old(deqs)), deqs.same_regions(old(deqs)), //@
                        ec0 == p0.len(), counters.entry_count == ec0 - it.index@, //@ [C10]
                        counters.weighted_size == sat_sub_seq(ws0, p0.take(it.index@), wmap(m)), //@ [C10,C04]
                {
                    let ghost j = it.index@; //@
                    proof { //@
                        assert(nid(victim) == ptr_ids(vn)[j]); //@
                        assert(p0.take(n).map_values(|x: N| x.id)[j] == p0[j].id); //@
                        lemma_index_of_id(p0, j); //@
                    } //@
                    if let Some((_vic_key, vic_entry)) =
                        self.cache.remove(unsafe { victim.as_ref().element.key() })
                    {
                        proof { //@
                            assert(vic_entry == m[p0[j].key]); //@
                            let s = p0.skip(j); //@
                            assert(s[0] == p0[j]); //@
                            assert(distinct_ids(s)) by { assert forall|a: int, b: int| 0 <= a < b < s.len() implies (#[trigger] s[a]).id != (#[trigger] s[b]).id by { assert(p0[a + j].id != p0[b + j].id); } } //@
                            lemma_index_of_id(s, 0); //@
                            assert(s.remove(0) =~= p0.skip(j + 1)); //@
                            assert(p0.take(j + 1).drop_last() =~= p0.take(j)); //@
                            assert(wmap(m)[p0[j].key] == vic_entry@.w()); //@
                        } //@
                        // And then remove the victim from the deques.
                        Self::handle_remove(deqs, vic_entry, counters);
                    } else {
                        // Could not remove the victim from the cache. Skip this
                        // victim node as its ValueEntry might have been
                        // invalidated. Add it to the skipped nodes.
                        skipped.push(victim);
                    }
                }
                skipped_nodes = skipped;

                // Add the candidate to the deques.
                self.handle_admit(kh, &entry, new_weight, deqs, counters);
            }
            AdmissionResult::Rejected { skipped_nodes: s } => {
                skipped_nodes = s;
                // Remove the candidate from the cache (hash map).
                self.cache.remove(&Arc::clone(&kh.key));
            }
        };

        // Move the skipped nodes to the back of the deque. We do not unlink (drop)
        // them because ValueEntries in the write op queue should be pointing them.
        let ghost sk = skipped_nodes.v@; let ghost d1 = *deqs; let ghost c1 = *counters; //@
        for node in /*@+*/it2:/*@-*/ skipped_nodes
            invariant it2.snapshot@.remaining() == sk, sk.len() == 0, *deqs == d1, *counters == c1, //@
        {
            unsafe { deqs.probation.move_to_back(node) };
        }
    }
//@@ END

    /// the part of the quiescent state the scans read: no entry has an update in flight, every entry carries its write stamp,
    /// and the record a node shares with its entry is that entry's record
    pub open spec fn quiet(m: Map<KeyId, TrioArc<ValueEntry<K, V>>>, p: Seq<N>) -> bool {
        forall|i: int| 0 <= i < p.len() ==> {
            &&& !m[(#[trigger] p[i]).key]@.dirty()
            &&& m[p[i].key]@.info@.sp_tm().is_some()
            &&& m[p[i].key]@.info == node_info::<K>(p[i].id)
        }
    }

    pub uninterp spec fn sp_valid_after(&self) -> Option<Instant>;
    pub open spec fn cfg_ok(&self) -> bool {
        &&& (self.time_to_live.is_some() ==> dur_ns(self.time_to_live.unwrap()) <= max_dur_ns())
        &&& (self.time_to_idle.is_some() ==> dur_ns(self.time_to_idle.unwrap()) <= max_dur_ns())
    }
//@@ SIG file=src/sync/base_cache.rs owner=Inner name=valid_after
    #[verifier::external_body]
    fn valid_after(&self) -> (r: Option<Instant>) ensures r == self.sp_valid_after() { unimplemented!() }
//@@ END

    /// an entry's idle deadline has passed (or it is older than the invalidate_all watermark), for the stamp this call reads
    pub open spec fn exp_ao(&self, e: TrioArc<ValueEntry<K, V>>, now: Instant) -> bool {
        sp_expired_ao(self.time_to_idle, self.sp_valid_after(), e@.info@.sp_ta(), now)
    }
    pub open spec fn info_coupled(m: Map<KeyId, TrioArc<ValueEntry<K, V>>>, p: Seq<N>) -> bool {
        forall|i: int| 0 <= i < p.len() ==> m[(#[trigger] p[i]).key]@.info == node_info::<K>(p[i].id)
    }

//@@ FN file=src/sync/base_cache.rs owner=Inner name=remove_expired_ao tags=C06,C10,C03 rewrites=wild
    fn remove_expired_ao(
        &self,
        deq_name: &str,
        deq: &mut Deque<KeyHashDate<K>>,
        write_order_deq: &mut Deque<KeyDate<K>>,
        batch_size: usize,
        now: Instant,
        counters: &mut EvictionCounters,
    )
        requires //@
            self.cfg_ok(), //@ [C08]
            // an unused (empty) list, or the probation list in the quiescent state
            old(deq)@.len() == 0 || (Self::coupled(self.cache@, old(deq)@) && Self::info_coupled(self.cache@, old(deq)@) && old(deq).sp_region() as usize == 1), //@ [C08,C11]
            old(counters).entry_count >= old(deq)@.len(), //@ [C10]
        ensures //@
            final(deq).sp_region() == old(deq).sp_region(), //@
            ({ //@ [C06,C07,C03,C10,C12]
                let p0 = old(deq)@; let m = self.cache@; //@
                let n = p0.len() - final(deq)@.len(); //@
                &&& 0 <= n <= p0.len() && n <= batch_size //@
                // exactly a prefix of the list leaves
                &&& final(deq)@ == p0.skip(n) //@
                // C03: only entries whose idle deadline has passed (or older than the watermark) are removed ...
                &&& forall|i: int| 0 <= i < n ==> self.exp_ao(m[(#[trigger] p0[i]).key], now) //@
                // C06: ... and the purge goes on until the batch is used up or the front entry is still alive
                &&& (n == batch_size || n == p0.len() || !self.exp_ao(m[p0[n].key], now)) //@
                // C10: the counters give back exactly what was removed
                &&& final(counters).entry_count == old(counters).entry_count - n //@
                &&& final(counters).weighted_size == sat_sub_seq(old(counters).weighted_size, p0.take(n), wmap(m)) //@
            }), //@
    {
        let tti = &self.time_to_idle;
        let va = &self.valid_after();
        let ghost p0 = deq@; let ghost m = self.cache@; let ghost wm = wmap(self.cache@); let ghost ec0 = counters.entry_count; let ghost ws0 = counters.weighted_size; //@
        let ghost reg = deq.sp_region(); let ghost mut cnt: int = 0; //@
        proof { assert(p0.skip(0) =~= p0); assert(p0.take(0) =~= Seq::<N>::empty()); } //@
        for _ in /*@+*/it:/*@-*/ 0..batch_size
            invariant_except_break //@
                cnt == it.index@, //@
            invariant //@
                self.cfg_ok(), *tti == self.time_to_idle, *va == self.sp_valid_after(), self.cache@ == m, wm == wmap(m), //@
                p0.len() == 0 || (Self::coupled(m, p0) && Self::info_coupled(m, p0) && reg as usize == 1), //@
                deq.sp_region() == reg, ec0 >= p0.len(), //@
                cnt <= p0.len(), 0 <= cnt, cnt <= batch_size, //@
                deq@ == p0.skip(cnt), //@ [C12]
                forall|i: int| 0 <= i < cnt ==> self.exp_ao(m[(#[trigger] p0[i]).key], now), //@ [C03,C06]
                counters.entry_count == ec0 - cnt, //@ [C10]
                counters.weighted_size == sat_sub_seq(ws0, p0.take(cnt), wm), //@ [C10,C04]
            ensures //@
                cnt == batch_size || cnt == p0.len() || !self.exp_ao(m[p0[cnt].key], now), //@ [C06]
        {
            let ghost j = cnt; //@
            // Peek the front node of the deque and check if it is expired.
            let key = deq.peek_front().and_then(|node| /*@+*/-> (o: Option<Arc<K>>)/*@-*/
                ensures o.is_some() == sp_expired_ao(*tti, *va, node.element.entry_info@.sp_ta(), now), o.is_some() ==> o.unwrap() == node.element.key //@
            {
                // TODO: Skip the entry if it is dirty. See `evict_lru_entries` method as an example.
                if is_expired_entry_ao(tti, va, node, now) {
                    Some(Arc::clone(node.element.key()))
                } else {
                    None
                }
            });

            if key.is_none() {
                break;
            }

            let key = key.as_ref().unwrap();

            // Remove the key from the map only when the entry is really
            // expired. This check is needed because it is possible that the entry in
            // the map has been updated or deleted but its deque node we checked
            // above have not been updated yet.
            let maybe_entry = self
                .cache
                .remove_if(key, |_w0, v| /*@+*/-> (b: bool) ensures b == sp_expired_ao(*tti, *va, v@.info@.sp_ta(), now) {/*@-*/ is_expired_entry_ao(tti, va, v, now) /*@+*/}/*@-*/);

            proof { //@
                assert(deq@[0] == p0[j]); //@
                assert(maybe_entry.is_some()); //@
            } //@
            if let Some((_k, entry)) = maybe_entry {
                proof { //@
                    let s = p0.skip(j); //@
                    assert(entry == m[p0[j].key]); //@
                    assert(distinct_ids(s)) by { assert forall|a: int, b: int| 0 <= a < b < s.len() implies (#[trigger] s[a]).id != (#[trigger] s[b]).id by { assert(p0[a + j].id != p0[b + j].id); } } //@
                    lemma_index_of_id(s, 0); //@
                    assert(s.remove(0) =~= p0.skip(j + 1)); //@
                    assert(p0.take(j + 1).drop_last() =~= p0.take(j)); //@
                    assert(wm[p0[j].key] == entry@.w()); //@
                } //@
                Self::handle_remove_with_deques(deq_name, deq, write_order_deq, entry, counters);
                proof { cnt = cnt + 1; } //@
            } else if !self.try_skip_updated_entry(key, deq_name, deq, write_order_deq) {
                break;
            }
        }
    }
//@@ END

    pub open spec fn exp_wo(&self, e: TrioArc<ValueEntry<K, V>>, now: Instant) -> bool {
        sp_expired_wo(self.time_to_live, self.sp_valid_after(), e@.info@.sp_tm(), now)
    }
    /// the write-order side of the quiescent state: every write-order node belongs to the admitted entry under its key
    pub open spec fn coupled_wo(m: Map<KeyId, TrioArc<ValueEntry<K, V>>>, wo: Seq<N>) -> bool {
        &&& distinct_ids(wo)
        &&& forall|i: int| 0 <= i < wo.len() ==> {
            &&& m.contains_key((#[trigger] wo[i]).key)
            &&& m[wo[i].key]@.admitted()
            &&& m[wo[i].key]@.wo() == Some(wo[i].id)
            &&& Deques::<K>::ao_in_probation(&m[wo[i].key]@)
            &&& m[wo[i].key]@.info == node_info::<K>(wo[i].id)
        }
    }
    /// the probation list after the access-order nodes of the entries of `gone` have left it, one after the other
    pub open spec fn drop_nodes(p: Seq<N>, gone: Seq<N>, m: Map<KeyId, TrioArc<ValueEntry<K, V>>>) -> Seq<N>
        decreases gone.len()
    { if gone.len() == 0 { p } else { Deques::<K>::without(Self::drop_nodes(p, gone.drop_last(), m), m[gone.last().key]@.ao()) } }

//@@ FN file=src/sync/base_cache.rs owner=Inner name=remove_expired_wo tags=C05,C10,C03 rewrites=wild
    fn remove_expired_wo(
        &self,
        deqs: &mut Deques<K>,
        batch_size: usize,
        now: Instant,
        counters: &mut EvictionCounters,
    )
        requires //@
            self.cfg_ok(), old(deqs).regions_ok(), //@ [C08]
            Self::coupled_wo(self.cache@, old(deqs).write_order@), //@ [C08,C11]
            old(counters).entry_count >= old(deqs).write_order@.len(), //@ [C10]
        ensures //@
            final(deqs).others_same(old(deqs)), final(deqs).same_regions(old(deqs)), //@ [C11]
            ({ //@ [C05,C07,C03,C10]
                let w0 = old(deqs).write_order@; let m = self.cache@; //@
                let n = w0.len() - final(deqs).write_order@.len(); //@
                &&& 0 <= n <= w0.len() && n <= batch_size //@
                &&& final(deqs).write_order@ == w0.skip(n) //@
                // C03: only entries whose time to live has elapsed (or older than the watermark) are removed ...
                &&& forall|i: int| 0 <= i < n ==> self.exp_wo(m[(#[trigger] w0[i]).key], now) //@
                // C05: ... and the purge goes on until the batch is used up or the oldest write is still alive
                &&& (n == batch_size || n == w0.len() || !self.exp_wo(m[w0[n].key], now)) //@
                // C11: their access-order nodes leave the probation list as well
                &&& final(deqs).probation@ == Self::drop_nodes(old(deqs).probation@, w0.take(n), m) //@
                // C10
                &&& final(counters).entry_count == old(counters).entry_count - n //@
                &&& final(counters).weighted_size == sat_sub_seq(old(counters).weighted_size, w0.take(n), wmap(m)) //@
            }), //@
    {
        let ttl = &self.time_to_live;
        let va = &self.valid_after();
        let ghost w0 = deqs.write_order@; let ghost pr0 = deqs.probation@; let ghost m = self.cache@; let ghost wm = wmap(self.cache@); let ghost ec0 = counters.entry_count; let ghost ws0 = counters.weighted_size; //@
        let ghost mut cnt: int = 0; //@
        proof { assert(w0.skip(0) =~= w0); assert(w0.take(0) =~= Seq::<N>::empty()); } //@
        for _ in /*@+*/it:/*@-*/ 0..batch_size
            invariant_except_break //@
                cnt == it.index@, //@
            invariant //@
                self.cfg_ok(), *ttl == self.time_to_live, *va == self.sp_valid_after(), self.cache@ == m, wm == wmap(m), //@
                Self::coupled_wo(m, w0), deqs.regions_ok(), deqs.others_same(old(deqs)), deqs.same_regions(old(deqs)), //@
                ec0 >= w0.len(), 0 <= cnt <= w0.len(), cnt <= batch_size, //@
                deqs.write_order@ == w0.skip(cnt), //@
                deqs.probation@ == Self::drop_nodes(pr0, w0.take(cnt), m), //@ [C11]
                forall|i: int| 0 <= i < cnt ==> self.exp_wo(m[(#[trigger] w0[i]).key], now), //@ [C03,C05]
                counters.entry_count == ec0 - cnt, //@ [C10]
                counters.weighted_size == sat_sub_seq(ws0, w0.take(cnt), wm), //@ [C10,C04]
            ensures //@
                cnt == batch_size || cnt == w0.len() || !self.exp_wo(m[w0[cnt].key], now), //@ [C05]
        {
            let ghost j = cnt; //@
            let key = deqs.write_order.peek_front().and_then(|node| /*@+*/-> (o: Option<Arc<K>>)/*@-*/
                ensures o.is_some() == sp_expired_wo(*ttl, *va, node.element.entry_info@.sp_tm(), now), o.is_some() ==> o.unwrap() == node.element.key //@
            {
                // TODO: Skip the entry if it is dirty. See `evict_lru_entries` method as an example.
                if is_expired_entry_wo(ttl, va, node, now) {
                    Some(Arc::clone(node.element.key()))
                } else {
                    None
                }
            });

            if key.is_none() {
                break;
            }

            let key = key.as_ref().unwrap();

            let maybe_entry = self
                .cache
                .remove_if(key, |_w0, v| /*@+*/-> (b: bool) ensures b == sp_expired_wo(*ttl, *va, v@.info@.sp_tm(), now) {/*@-*/ is_expired_entry_wo(ttl, va, v, now) /*@+*/}/*@-*/);

            proof { //@
                assert(deqs.write_order@[0] == w0[j]); //@
                assert(maybe_entry.is_some()); //@
            } //@
            if let Some((_k, entry)) = maybe_entry {
                proof { //@
                    let s = w0.skip(j); //@
                    assert(entry == m[w0[j].key]); //@
                    assert(distinct_ids(s)) by { assert forall|a: int, b: int| 0 <= a < b < s.len() implies (#[trigger] s[a]).id != (#[trigger] s[b]).id by { assert(w0[a + j].id != w0[b + j].id); } } //@
                    lemma_index_of_id(s, 0); //@
                    assert(s.remove(0) =~= w0.skip(j + 1)); //@
                    assert(w0.take(j + 1).drop_last() =~= w0.take(j)); //@
                    assert(w0.take(j + 1).last() == w0[j]); //@
                    assert(wm[w0[j].key] == entry@.w()); //@
                } //@
                Self::handle_remove(deqs, entry, counters);
                proof { cnt = cnt + 1; } //@
            } else if let Some(entry) = self.cache.get(key) {
                if entry.is_dirty() {
                    deqs.move_to_back_ao(&entry);
                    deqs.move_to_back_wo(&entry);
                } else {
                    // The key exists but something unexpected. Break.
                    break;
                }
            } else {
                // Skip this entry as the key might have been invalidated. Since the
                // invalidated ValueEntry (which should be still in the write op
                // queue) has a pointer to this node, move the node to the back of
                // the deque instead of popping (dropping) it.
                deqs.write_order.move_front_to_back();
            }
        }
    }
//@@ END

    // ---- the two scans in a row: what the first leaves behind is still a quiescent state for the second ----
    pub proof fn lemma_has_id_remove(p: Seq<N>, k: int, x: int)
        requires distinct_ids(p), 0 <= k < p.len(), x != p[k].id
        ensures has_id(p.remove(k), x) == has_id(p, x)
    {
        let q = p.remove(k);
        if has_id(p, x) {
            let i = index_of_id(p, x);
            assert(i != k);
            let i2 = if i < k { i } else { i - 1 };
            assert(q[i2].id == x);
        }
        if has_id(q, x) {
            let i = index_of_id(q, x);
            let i2 = if i < k { i } else { i + 1 };
            assert(p[i2].id == x);
        }
    }
    pub proof fn lemma_coupled_remove(m: Map<KeyId, TrioArc<ValueEntry<K, V>>>, p: Seq<N>, k: int)
        requires Self::coupled(m, p), Self::info_coupled(m, p), 0 <= k < p.len()
        ensures Self::coupled(m, p.remove(k)), Self::info_coupled(m, p.remove(k))
    {
        let q = p.remove(k);
        assert forall|i: int| 0 <= i < q.len() implies #[trigger] q[i] == p[if i < k { i } else { i + 1 }] by {}
        assert(distinct_ids(q)) by { assert forall|i: int, j: int| 0 <= i < j < q.len() implies (#[trigger] q[i]).id != (#[trigger] q[j]).id by {
            assert(p[if i < k { i } else { i + 1 }].id != p[if j < k { j } else { j + 1 }].id); } }
        assert forall|i: int, j: int| 0 <= i < j < q.len() implies (#[trigger] q[i]).key != (#[trigger] q[j]).key by {
            assert(p[if i < k { i } else { i + 1 }].key != p[if j < k { j } else { j + 1 }].key); }
        assert forall|i: int| 0 <= i < q.len() implies {
            &&& m.contains_key((#[trigger] q[i]).key) && m[q[i].key]@.admitted() && m[q[i].key]@.ao() == Some(q[i].id) && m[q[i].key]@.ao_tag() == Some(1usize)
            &&& m[q[i].key]@.info == node_info::<K>(q[i].id)
        } by { let i2 = if i < k { i } else { i + 1 }; assert(q[i] == p[i2]); assert(m.contains_key(p[i2].key)); }
    }
    /// the entries of the write-order nodes `gone` own pairwise different nodes of `p`
    pub open spec fn links(m: Map<KeyId, TrioArc<ValueEntry<K, V>>>, gone: Seq<N>, p: Seq<N>) -> bool {
        &&& forall|i: int| 0 <= i < gone.len() ==> m[(#[trigger] gone[i]).key]@.ao().is_some() && has_id(p, m[gone[i].key]@.ao().unwrap())
        &&& forall|i: int, j: int| 0 <= i < j < gone.len() ==> m[(#[trigger] gone[i]).key]@.ao() != m[(#[trigger] gone[j]).key]@.ao()
    }
    pub proof fn lemma_drop_nodes(m: Map<KeyId, TrioArc<ValueEntry<K, V>>>, p: Seq<N>, gone: Seq<N>)
        requires Self::coupled(m, p), Self::info_coupled(m, p), Self::links(m, gone, p)
        ensures ({
            let q = Self::drop_nodes(p, gone, m);
            &&& Self::coupled(m, q) && Self::info_coupled(m, q) && q.len() == p.len() - gone.len()
            &&& forall|x: int| #[trigger] has_id(q, x) == (has_id(p, x) && forall|i: int| 0 <= i < gone.len() ==> m[(#[trigger] gone[i]).key]@.ao() != Some(x))
        })
        decreases gone.len()
    {
        if gone.len() > 0 {
            let g1 = gone.drop_last(); let last = gone.last();
            assert(Self::links(m, g1, p)) by {
                assert forall|i: int| 0 <= i < g1.len() implies m[(#[trigger] g1[i]).key]@.ao().is_some() && has_id(p, m[g1[i].key]@.ao().unwrap()) by { assert(g1[i] == gone[i]); }
                assert forall|i: int, j: int| 0 <= i < j < g1.len() implies m[(#[trigger] g1[i]).key]@.ao() != m[(#[trigger] g1[j]).key]@.ao() by { assert(g1[i] == gone[i] && g1[j] == gone[j]); }
            }
            Self::lemma_drop_nodes(m, p, g1);
            let q1 = Self::drop_nodes(p, g1, m);
            assert(last == gone[gone.len() - 1]);
            let x = m[last.key]@.ao().unwrap();
            assert(has_id(p, x));
            assert(has_id(q1, x)) by { assert forall|i: int| 0 <= i < g1.len() implies m[(#[trigger] g1[i]).key]@.ao() != Some(x) by { assert(g1[i] == gone[i]); } }
            let k = index_of_id(q1, x);
            Self::lemma_coupled_remove(m, q1, k);
            let q = q1.remove(k);
            assert(Self::drop_nodes(p, gone, m) == q);
            assert forall|y: int| #[trigger] has_id(q, y) == (has_id(p, y) && forall|i: int| 0 <= i < gone.len() ==> m[(#[trigger] gone[i]).key]@.ao() != Some(y)) by {
                if y == x {
                    // x itself is gone: distinct ids of q1
                    if has_id(q, x) { let i = index_of_id(q, x); let i2 = if i < k { i } else { i + 1 }; assert(q1[i2].id == x); if i2 < k { assert(q1[i2].id != q1[k].id); } else { assert(q1[k].id != q1[i2].id); } }
                    assert(m[gone[gone.len() - 1].key]@.ao() == Some(x));
                } else {
                    Self::lemma_has_id_remove(q1, k, y);
                    if has_id(p, y) && (forall|i: int| 0 <= i < g1.len() ==> m[(#[trigger] g1[i]).key]@.ao() != Some(y)) {
                        assert forall|i: int| 0 <= i < gone.len() implies m[(#[trigger] gone[i]).key]@.ao() != Some(y) by { if i < g1.len() { assert(g1[i] == gone[i]); } }
                    }
                    if forall|i: int| 0 <= i < gone.len() ==> m[(#[trigger] gone[i]).key]@.ao() != Some(y) {
                        assert forall|i: int| 0 <= i < g1.len() implies m[(#[trigger] g1[i]).key]@.ao() != Some(y) by { assert(g1[i] == gone[i]); }
                    }
                }
            }
        }
    }

    pub uninterp spec fn sp_now(&self) -> Instant;
//@@ SIG file=src/sync/base_cache.rs owner=Inner name=current_time_from_expiration_clock
    #[verifier::external_body]
    fn current_time_from_expiration_clock(&self) -> (r: Instant) ensures r == self.sp_now() { unimplemented!() }
//@@ END
//@@ SIG file=src/sync/base_cache.rs owner=Inner name=has_valid_after
    #[verifier::external_body]
    fn has_valid_after(&self) -> (r: bool) ensures r == self.sp_valid_after().is_some() { unimplemented!() }
//@@ END

    /// what the expiry pass does to the quiescent state: n1 entries leave by time to live, then n2 by idle time / watermark
    pub open spec fn rel_evict_expired(&self, p0: Seq<N>, w0: Seq<N>, c0: EvictionCounters, d: Deques<K>, c: EvictionCounters, batch: int, n1: int, n2: int) -> bool {
        let m = self.cache@; let now = self.sp_now();
        let p1 = Self::drop_nodes(p0, w0.take(n1), m);
        &&& 0 <= n1 <= w0.len() && n1 <= batch && 0 <= n2 <= p1.len() && n2 <= batch
        &&& (self.time_to_live.is_none() ==> n1 == 0)
        &&& (self.time_to_idle.is_none() && self.sp_valid_after().is_none() ==> n2 == 0)
        // C03: only expired entries leave
        &&& (forall|i: int| 0 <= i < n1 ==> self.exp_wo(m[(#[trigger] w0[i]).key], now))
        &&& (forall|i: int| 0 <= i < n2 ==> self.exp_ao(m[(#[trigger] p1[i]).key], now))
        // C05 / C06: each scan goes on until its batch is used up or its front entry is alive
        &&& (self.time_to_live.is_some() ==> n1 == batch || n1 == w0.len() || !self.exp_wo(m[w0[n1].key], now))
        &&& (self.time_to_idle.is_some() || self.sp_valid_after().is_some() ==> n2 == batch || n2 == p1.len() || !self.exp_ao(m[p1[n2].key], now))
        // C11 / C10
        &&& d.probation@ == p1.skip(n2)
        &&& c.entry_count == c0.entry_count - n1 - n2
        &&& c.weighted_size == sat_sub_seq(sat_sub_seq(c0.weighted_size, w0.take(n1), wmap(m)), p1.take(n2), wmap(m))
    }

//@@ FN file=src/sync/base_cache.rs owner=Inner name=evict_expired tags=C05,C06,C10,C03 rewrites=inline:rm_expired_ao
    fn evict_expired(
        &self,
        deqs: &mut Deques<K>,
        batch_size: usize,
        counters: &mut EvictionCounters,
    )
        requires //@
            self.cfg_ok(), old(deqs).regions_ok(), old(deqs).window@.len() == 0, old(deqs).protected@.len() == 0, //@ [C08]
            // QUIESCENT STATE of both lists
            Self::coupled(self.cache@, old(deqs).probation@), Self::info_coupled(self.cache@, old(deqs).probation@), //@ [C08,C11]
            self.time_to_live.is_some() ==> Self::coupled_wo(self.cache@, old(deqs).write_order@) && Self::links(self.cache@, old(deqs).write_order@, old(deqs).probation@) //@
                && old(deqs).write_order@.len() <= old(deqs).probation@.len(), //@ [C08,C11]
            old(counters).entry_count == old(deqs).probation@.len(), //@ [C10]
        ensures //@
            final(deqs).window@.len() == 0, final(deqs).protected@.len() == 0, final(deqs).same_regions(old(deqs)), //@ [C11]
            exists|n1: int, n2: int| #[trigger] self.rel_evict_expired(old(deqs).probation@, old(deqs).write_order@, *old(counters), *final(deqs), *final(counters), batch_size as int, n1, n2), //@ [C05,C06,C03,C10,C11]
    {
        let now = self.current_time_from_expiration_clock();
        let ghost p0 = deqs.probation@; let ghost w0 = deqs.write_order@; let ghost m = self.cache@; let ghost c0 = *counters; //@
        let ghost mut n1: int = 0; //@
        proof { assert(w0.take(0) =~= Seq::<N>::empty()); } //@

        if self.is_write_order_queue_enabled() {
            self.remove_expired_wo(deqs, batch_size, now, counters);
            proof { //@
                n1 = w0.len() - deqs.write_order@.len(); //@
                assert(Self::links(m, w0.take(n1), p0)) by { //@
                    let g = w0.take(n1); //@
                    assert forall|i: int| 0 <= i < g.len() implies m[(#[trigger] g[i]).key]@.ao().is_some() && has_id(p0, m[g[i].key]@.ao().unwrap()) by { assert(g[i] == w0[i]); } //@
                    assert forall|i: int, j: int| 0 <= i < j < g.len() implies m[(#[trigger] g[i]).key]@.ao() != m[(#[trigger] g[j]).key]@.ao() by { assert(g[i] == w0[i] && g[j] == w0[j]); } //@
                } //@
            } //@
        }
        proof { Self::lemma_drop_nodes(m, p0, w0.take(n1)); } //@
        let ghost p1 = deqs.probation@; let ghost c1 = *counters; //@

        if self.time_to_idle.is_some() || self.has_valid_after() {
            let (window, probation, protected, wo) = (
                &mut deqs.window,
                &mut deqs.probation,
                &mut deqs.protected,
                &mut deqs.write_order,
            );

            self . remove_expired_ao ( "window" , window , wo , batch_size , now , counters );
            self . remove_expired_ao ( "probation" , probation , wo , batch_size , now , counters );
            self . remove_expired_ao ( "protected" , protected , wo , batch_size , now , counters );
        }
        proof { //@
            let n2 = p1.len() - deqs.probation@.len(); //@
            assert(p1.take(0) =~= Seq::<N>::empty()); //@
            assert(p1.skip(0) =~= p1); //@
            assert(self.rel_evict_expired(p0, w0, c0, *deqs, *counters, batch_size as int, n1, n2)); //@
        } //@
    }
//@@ END

    /// skipping a node whose entry was updated or invalidated in the meantime (never happens in the quiescent state): what it
    /// does to the two lists, as a function of what the map holds under the key when the call reads it
//@@ FN file=src/sync/base_cache.rs owner=Inner name=try_skip_updated_entry tags=C12,C11
    fn try_skip_updated_entry(
        &self,
        key: &K,
        deq_name: &str,
        deq: &mut Deque<KeyHashDate<K>>,
        write_order_deq: &mut Deque<KeyDate<K>>,
    ) -> /*@+*/(r:/*@-*/ bool/*@+*/)/*@-*/
        requires // otherwise: `panic!("move_to_back_ao_in_deque - node is not a member of {} deque")` //@
            self.cache@.contains_key(kid(key)) && self.cache@[kid(key)]@.dirty() && self.cache@[kid(key)]@.ao_tag().is_some() //@
                ==> old(deq).sp_region() as usize == self.cache@[kid(key)]@.ao_tag().unwrap(), //@ [C08,C11]
        ensures //@
            final(deq).sp_region() == old(deq).sp_region(), //@
            // the key is gone from the map: the node is kept (a queued record may still point to it) and goes to the back
            !self.cache@.contains_key(kid(key)) ==> r && final(write_order_deq)@ == old(write_order_deq)@ //@ [C11,C12]
                && final(deq)@ == (if old(deq)@.len() > 0 { moved_to_back(old(deq)@, 0) } else { old(deq)@ }), //@
            // the entry has an update in flight: both of its nodes go to the back
            self.cache@.contains_key(kid(key)) && self.cache@[kid(key)]@.dirty() ==> r //@ [C12,C05]
                && final(deq)@ == Deques::<K>::to_back(old(deq)@, self.cache@[kid(key)]@.ao()) //@
                && final(write_order_deq)@ == Deques::<K>::to_back(old(write_order_deq)@, self.cache@[kid(key)]@.wo()), //@
            // anything else is unexpected: nothing moves, the caller stops
            self.cache@.contains_key(kid(key)) && !self.cache@[kid(key)]@.dirty() ==> !r && final(deq)@ == old(deq)@ && final(write_order_deq)@ == old(write_order_deq)@, //@ [C12]
    {
        if let Some(entry) = self.cache.get(key) {
            if entry.is_dirty() {
                // The key exists and the entry has been updated.
                Deques::move_to_back_ao_in_deque(deq_name, deq, &entry);
                Deques::move_to_back_wo_in_deque(write_order_deq, &entry);
                true
            } else {
                // The key exists but something unexpected.
                false
            }
        } else {
            // Skip this entry as the key might have been invalidated. Since the
            // invalidated ValueEntry (which should be still in the write op
            // queue) has a pointer to this node, move the node to the back of
            // the deque instead of popping (dropping) it.
            deq.move_front_to_back();
            true
        }
    }
//@@ END

//@@ FN file=src/sync/base_cache.rs owner=Inner name=evict_lru_entries tags=C12,C04,C10 rewrites=wild,for2while
    fn evict_lru_entries(
        &self,
        deqs: &mut Deques<K>,
        batch_size: usize,
        weights_to_evict: u64,
        counters: &mut EvictionCounters,
    )
        requires //@
            Self::coupled(self.cache@, old(deqs).probation@), Self::quiet(self.cache@, old(deqs).probation@), old(deqs).regions_ok(), //@ [C08,C11]
            old(counters).entry_count == old(deqs).probation@.len(), old(deqs).probation@.len() < 0xFFFF_FFFF, //@ [C10]
        ensures //@
            final(deqs).others_same(old(deqs)), final(deqs).same_regions(old(deqs)), //@ [C11]
            // C12: the removed entries are exactly a prefix of the recency order, and the shortest one that frees enough
            ({ //@ [C12,C04,C10,C03]
                let p0 = old(deqs).probation@; let wm = wmap(self.cache@); //@
                let n = p0.len() - final(deqs).probation@.len(); //@
                &&& 0 <= n <= p0.len() && n <= batch_size //@
                &&& final(deqs).probation@ == p0.skip(n) //@
                &&& final(counters).entry_count == old(counters).entry_count - n //@
                &&& final(counters).weighted_size == sat_sub_seq(old(counters).weighted_size, p0.take(n), wm) //@
                &&& (n > 0 ==> wsum(p0.take(n - 1), wm) < weights_to_evict) //@
                &&& (wsum(p0.take(n), wm) >= weights_to_evict || n == batch_size || n == p0.len()) //@
            }), //@
    {
        const DEQ_NAME: &'static str = "probation";
        let mut evicted = 0u64;
        let ghost p0 = deqs.probation@; let ghost m = self.cache@; let ghost wm = wmap(self.cache@); let ghost ec0 = counters.entry_count; let ghost ws0 = counters.weighted_size; //@
        let ghost wind = deqs.window@; let ghost prot = deqs.protected@; let ghost regs = *deqs; //@
        let ghost mut cnt: int = 0; //@
        proof { assert(p0.skip(0) =~= p0); assert(p0.take(0) =~= Seq::<N>::empty()); lemma_wsum_bound(p0, wm); } //@
        let (deq, write_order_deq) = (&mut deqs.probation, &mut deqs.write_order);

        let mut _fi0: usize = 0; while _fi0 < batch_size
            invariant_except_break //@
                cnt == _fi0, //@
            invariant //@
                Self::coupled(m, p0), Self::quiet(m, p0), self.cache@ == m, wm == wmap(m), //@
                0 <= cnt <= p0.len(), cnt <= batch_size, cnt <= _fi0, _fi0 <= batch_size, p0.len() < 0xFFFF_FFFF, ec0 == p0.len(), //@
                deq@ == p0.skip(cnt), deq.sp_region() == regs.probation.sp_region(), regs.regions_ok(), //@ [C12]
                counters.entry_count == ec0 - cnt, //@ [C10]
                counters.weighted_size == sat_sub_seq(ws0, p0.take(cnt), wm), //@ [C10,C04]
                evicted == wsum(p0.take(cnt), wm), //@ [C04,C12]
                cnt > 0 ==> wsum(p0.take(cnt - 1), wm) < weights_to_evict, //@ [C12]
            ensures //@
                evicted >= weights_to_evict || cnt == batch_size || cnt == p0.len(), //@ [C04]
            decreases batch_size - _fi0, //@
        { _fi0 += 1;
            if evicted >= weights_to_evict {
                break;
            }

            let maybe_key_and_ts = deq.peek_front().map(|node| /*@+*/-> (o: (Arc<K>, bool, Option<Instant>))/*@-*/
                ensures o.0 == node.element.key, o.1 == node.element.entry_info@.sp_dirty(), o.2 == node.element.entry_info@.sp_tm() //@
            {
                let entry_info = node.element.entry_info();
                (
                    Arc::clone(node.element.key()),
                    entry_info.is_dirty(),
                    entry_info.last_modified(),
                )
            });
            proof { //@
                if cnt < p0.len() { //@
                    assert(deq@[0] == p0[cnt]); //@
                    assert(m.contains_key(p0[cnt].key)); //@
                } //@
            } //@

            let (key, ts) = match maybe_key_and_ts {
                Some((key, false, Some(ts))) => (key, ts),
                // TODO: Remove the second pattern `Some((_key, false, None))` once we change
                // `last_modified` and `last_accessed` in `EntryInfo` from `Option<Instant>` to
                // `Instant`.
                Some((key, true, _)) | Some((key, false, None)) => {
                    proof { assert(false); } //@
                    if self.try_skip_updated_entry(&key, DEQ_NAME, deq, write_order_deq) {
                        continue;
                    } else {
                        break;
                    }
                }
                None => break,
            };

            let maybe_entry = self.cache.remove_if(&key, |_w0, v| /*@+*/-> (b: bool)/*@-*/
                ensures b == (v@.info@.sp_tm().is_some() && v@.info@.sp_tm().unwrap().t() == ts.t()) //@
            {
                if let Some(lm) = v.last_modified() {
                    lm == ts
                } else {
                    false
                }
            });

            proof { assert(maybe_entry.is_some()); } //@
            if let Some((_k, entry)) = maybe_entry {
                proof { //@
                    let s = p0.skip(cnt); //@
                    assert(entry == m[p0[cnt].key]); //@
                    assert(distinct_ids(s)) by { assert forall|a: int, b: int| 0 <= a < b < s.len() implies (#[trigger] s[a]).id != (#[trigger] s[b]).id by { assert(p0[a + cnt].id != p0[b + cnt].id); } } //@
                    lemma_index_of_id(s, 0); //@
                    assert(s.remove(0) =~= p0.skip(cnt + 1)); //@
                    assert(p0.take(cnt + 1).drop_last() =~= p0.take(cnt)); //@
                    assert(wm[p0[cnt].key] == entry@.w()); //@
                    lemma_wsum_bound(p0.take(cnt + 1), wm); //@
                } //@
                let weight = entry.policy_weight();
                Self::handle_remove_with_deques(DEQ_NAME, deq, write_order_deq, entry, counters);
                evicted = evicted.saturating_add(weight as u64);
                proof { cnt = cnt + 1; } //@
            } else if !self.try_skip_updated_entry(&key, DEQ_NAME, deq, write_order_deq) {
                break;
            }
        }
    }
//@@ END

    // ---------------- applying the recorded reads (C12, C14, C06) ----------------
    /// the hash a read record was made for
    pub open spec fn rd_hash(op: ReadOp<K, V>) -> u64 { match op { ReadOp::Hit(h, _, _) => h, ReadOp::Miss(h) => h } }
    /// what one applied read record does to the recency order: a hit on an admitted entry makes it most recently used
    pub open spec fn rd_order(p: Seq<N>, op: ReadOp<K, V>) -> Seq<N> {
        match op { ReadOp::Hit(_, e, _) => if e@.admitted() { Deques::<K>::to_back(p, e@.ao()) } else { p }, ReadOp::Miss(_) => p }
    }
    pub open spec fn rd_replay(p: Seq<N>, log: Seq<ReadOp<K, V>>) -> Seq<N>
        decreases log.len()
    { if log.len() == 0 { p } else { Self::rd_order(Self::rd_replay(p, log.drop_last()), log.last()) } }
    /// C14: every applied record, hit or miss, is counted exactly once
    pub open spec fn rd_sketch(sk: FrequencySketch, log: Seq<ReadOp<K, V>>) -> FrequencySketch
        decreases log.len()
    { if log.len() == 0 { sk } else { Self::rd_sketch(sk, log.drop_last()).incremented(Self::rd_hash(log.last())) } }
    /// a queued hit on an admitted entry refers to a node of the probation list (quiescent state)
    pub open spec fn rd_wf(op: ReadOp<K, V>, p: Seq<N>) -> bool {
        match op {
            ReadOp::Hit(_, e, _) => e@.admitted() ==> Deques::<K>::ao_in_probation(&e@) && (e@.ao().is_some() ==> has_id(p, e@.ao().unwrap())),
            ReadOp::Miss(_) => true,
        }
    }
    pub open spec fn same_ids(a: Seq<N>, b: Seq<N>) -> bool { forall|x: int| has_id(a, x) <==> has_id(b, x) }
    pub proof fn lemma_to_back_ids(s: Seq<N>, id: Option<int>)
        ensures Self::same_ids(s, Deques::<K>::to_back(s, id))
    {
        let t = Deques::<K>::to_back(s, id);
        if id.is_some() && has_id(s, id.unwrap()) {
            let i = index_of_id(s, id.unwrap());
            assert forall|x: int| has_id(s, x) <==> has_id(t, x) by {
                if has_id(s, x) {
                    let j = choose|j: int| 0 <= j < s.len() && (#[trigger] s[j]).id == x;
                    if j < i { assert(t[j] == s[j]); } else if j == i { assert(t[s.len() - 1] == s[i]); } else { assert(t[j - 1] == s[j]); }
                }
                if has_id(t, x) {
                    let j = choose|j: int| 0 <= j < t.len() && (#[trigger] t[j]).id == x;
                    if j < i { assert(t[j] == s[j]); } else if j == t.len() - 1 { assert(t[j] == s[i]); } else { assert(t[j] == s[j + 1]); }
                }
            }
        }
    }

//@@ FN file=src/sync/base_cache.rs owner=Inner name=apply_reads tags=C12,C14,C06 rewrites=for2while
    fn apply_reads(&self, deqs: &mut Deques<K>, count: usize)
        requires //@
            // quiescent state: a queued hit on an admitted entry names a node of the probation list
            forall|op: ReadOp<K, V>| #[trigger] self.read_op_ch.sp_queued(op) ==> Self::rd_wf(op, old(deqs).probation@), //@ [C08,C11]
        ensures //@
            final(deqs).others_same(old(deqs)), final(deqs).write_order@ == old(deqs).write_order@, final(deqs).same_regions(old(deqs)), //@ [C12]
            // C12: the recency order is exactly the recorded reads replayed in the order maintenance received them: each hit on an
            // admitted entry moves that entry (and nothing else) to the most-recently-used end
            exists|log: Seq<ReadOp<K, V>>| log.len() <= count && (forall|i: int| 0 <= i < log.len() ==> self.read_op_ch.sp_queued(#[trigger] log[i])) //@ [C12,C15]
                && final(deqs).probation@ == Self::rd_replay(old(deqs).probation@, log), //@ [C12,C15]
    {
        use ReadOp::*;
        let mut freq = self.frequency_sketch.write().expect("lock poisoned");
        let ch = &self.read_op_ch;
        let ghost p0 = deqs.probation@; let ghost f0 = freq@; let ghost mut log: Seq<ReadOp<K, V>> = Seq::empty(); //@
        let mut _fi0: usize = 0; while _fi0 < count
            invariant //@
                *ch == self.read_op_ch, //@
                forall|op: ReadOp<K, V>| #[trigger] self.read_op_ch.sp_queued(op) ==> Self::rd_wf(op, p0), //@
                Self::same_ids(p0, deqs.probation@), //@ [C11]
                deqs.others_same(old(deqs)), deqs.write_order@ == old(deqs).write_order@, deqs.same_regions(old(deqs)), //@ [C12]
                log.len() <= _fi0, _fi0 <= count, forall|i: int| 0 <= i < log.len() ==> self.read_op_ch.sp_queued(#[trigger] log[i]), //@
                deqs.probation@ == Self::rd_replay(p0, log), //@ [C12,C15]
                // C14: every applied record, hit or miss, is counted exactly once in the popularity estimator
                freq@ == Self::rd_sketch(f0, log), //@ [C14]
            decreases count - _fi0 //@
        { _fi0 += 1;
            match ch.try_recv() {
                Ok(Hit(hash, entry, timestamp)) => {
                    proof { //@
                        let op = ReadOp::<K, V>::Hit(hash, entry, timestamp); //@
                        assert(self.read_op_ch.sp_queued(op)); assert(Self::rd_wf(op, p0)); //@
                        Self::lemma_to_back_ids(deqs.probation@, entry@.ao()); //@
                        assert(log.push(op).drop_last() =~= log); //@
                        log = log.push(op); //@
                    } //@
                    freq.increment(hash);
                    // A read recorded before a later write (or read) of the same entry
                    // must not move its last-accessed time backwards.
                    if entry.last_accessed().map_or(true, |ts| /*@+*/-> (b: bool) ensures b == (ts.t() < timestamp.t()) {/*@-*/ ts < timestamp /*@+*/}/*@-*/) {
                        entry.set_last_accessed(timestamp);
                    }
                    if entry.is_admitted() {
                        deqs.move_to_back_ao(&entry);
                    }
                }
                Ok(Miss(hash)) => /*@+*/{ proof { let op = ReadOp::<K, V>::Miss(hash); assert(log.push(op).drop_last() =~= log); log = log.push(op); }/*@-*/ freq.increment(hash)/*@+*/ }/*@-*/,
                Err(_) => break,
            }
        }
    }
//@@ END

    // ---------------- applying ONE queued write record (C10, C04, C12, C13) ----------------
    // `apply_writes` is under contract for `count <= 1`: one call applies at most one record, and what it does is exactly
    // what the step function of that record's kind does with the record's OWN fields (weights in the right order, the entry,
    // the key and hash) on the caller's lists and counters. The composition over several records needs the quiescent state
    // re-established after each step; that state lives behind `&self` (map content, entry flags) and is not expressible here:
    // sequences of records are exercised by the bounded runtime stand-in `rt_sync` only.
    /// precondition of `handle_upsert` (the quiescent state), as one predicate
    pub open spec fn upsert_pre(&self, entry: TrioArc<ValueEntry<K, V>>, new_weight: u32, d: Deques<K>, c: EvictionCounters) -> bool {
        &&& Self::coupled(self.cache@, d.probation@) && d.regions_ok()
        &&& c.entry_count == d.probation@.len() && c.entry_count < u64::MAX
        &&& c.weighted_size + new_weight <= u64::MAX
        &&& (entry@.admitted() ==> entry@.ao().is_some() && has_id(d.probation@, entry@.ao().unwrap()) && Deques::<K>::ao_in_probation(&entry@))
    }
    /// postcondition of `handle_upsert`, as one predicate (the same five cases)
    pub open spec fn upsert_post(&self, kh: KeyHash<K>, entry: TrioArc<ValueEntry<K, V>>, old_weight: u32, new_weight: u32, d0: Deques<K>, c0: EvictionCounters, d: Deques<K>, c: EvictionCounters, freq: FrequencySketch) -> bool {
        let fits = self.sp_fits(new_weight, c0.weighted_size);
        let adm = spec_admit(new_weight as int, freq.freq(kh.hash) as int, d0.probation@, wmap(self.cache@), freq);
        &&& d.others_same(&d0) && d.same_regions(&d0)
        &&& (entry@.admitted() ==> {
            &&& c.entry_count == c0.entry_count
            &&& c.weighted_size == sat_add(sat_sub(c0.weighted_size, old_weight), new_weight)
            &&& d.probation@ == Deques::<K>::to_back(d0.probation@, entry@.ao())
            &&& d.write_order@ == Deques::<K>::to_back(d0.write_order@, entry@.wo())
        })
        &&& (!entry@.admitted() && fits ==> {
            &&& c.entry_count == c0.entry_count + 1
            &&& c.weighted_size == sat_add(c0.weighted_size, new_weight)
            &&& pushed(d0.probation@, d.probation@, kid_arc(kh.key), kh.hash)
        })
        &&& (!entry@.admitted() && !fits && self.sp_oversize(new_weight) ==> c == c0 && d.probation@ == d0.probation@ && d.write_order@ == d0.write_order@)
        &&& (!entry@.admitted() && !fits && !self.sp_oversize(new_weight) && adm ==> ({
            let n = least_prefix(d0.probation@, wmap(self.cache@), new_weight as int, 0).unwrap();
            &&& c.entry_count == c0.entry_count - n + 1
            &&& c.weighted_size == sat_add(sat_sub_seq(c0.weighted_size, d0.probation@.take(n), wmap(self.cache@)), new_weight)
            &&& pushed(d0.probation@.skip(n), d.probation@, kid_arc(kh.key), kh.hash)
        }))
        &&& (!entry@.admitted() && !fits && !self.sp_oversize(new_weight) && !adm ==> c == c0 && d.probation@ == d0.probation@ && d.write_order@ == d0.write_order@)
    }
    /// postcondition of `handle_remove`, as one predicate
    pub open spec fn remove_post(entry: TrioArc<ValueEntry<K, V>>, d0: Deques<K>, c0: EvictionCounters, d: Deques<K>, c: EvictionCounters) -> bool {
        &&& (!entry@.admitted() ==> c == c0 && d.probation@ == d0.probation@ && d.write_order@ == d0.write_order@)
        &&& (entry@.admitted() ==> c.entry_count == c0.entry_count - 1 && c.weighted_size == sat_sub(c0.weighted_size, entry@.w()))
        &&& (entry@.admitted() ==> d.probation@ == Deques::<K>::without(d0.probation@, entry@.ao()) && d.write_order@ == Deques::<K>::without(d0.write_order@, entry@.wo()))
        &&& d.others_same(&d0) && d.same_regions(&d0)
    }
    pub open spec fn wr_pre(&self, op: WriteOp<K, V>, d: Deques<K>, c: EvictionCounters) -> bool {
        match op {
            WriteOp::Upsert { key_hash, value_entry, old_weight, new_weight } => self.upsert_pre(value_entry, new_weight, d, c),
            WriteOp::Remove(kv) => Self::removable(&kv.entry@, &d, &c),
        }
    }
    pub open spec fn wr_post(&self, op: WriteOp<K, V>, d0: Deques<K>, c0: EvictionCounters, d: Deques<K>, c: EvictionCounters, freq: FrequencySketch) -> bool {
        match op {
            WriteOp::Upsert { key_hash, value_entry, old_weight, new_weight } => self.upsert_post(key_hash, value_entry, old_weight, new_weight, d0, c0, d, c, freq),
            WriteOp::Remove(kv) => Self::remove_post(kv.entry, d0, c0, d, c),
        }
    }

//@@ FN file=src/sync/base_cache.rs owner=Inner name=apply_writes tags=C10,C04,C12,C13 rewrites=for2while
    fn apply_writes(&self, deqs: &mut Deques<K>, count: usize, counters: &mut EvictionCounters)
        requires //@
            count <= 1, //@
            forall|op: WriteOp<K, V>| #[trigger] self.write_op_ch.sp_queued(op) ==> self.wr_pre(op, *old(deqs), *old(counters)), //@ [C08,C11]
        ensures //@
            // nothing was queued: nothing changes; otherwise exactly one queued record is applied, by the step function of its
            // kind, with the record's own fields (C10: the weights the record carries, old before new), against the value the
            // popularity estimator holds while this call has it locked
            (*final(deqs) == *old(deqs) && *final(counters) == *old(counters)) //@ [C10,C04,C12,C13,C03]
            || exists|op: WriteOp<K, V>, sk: FrequencySketch| #[trigger] self.write_op_ch.sp_queued(op) && #[trigger] self.wr_post(op, *old(deqs), *old(counters), *final(deqs), *final(counters), sk), //@ [C10,C04,C12,C13,C03]
    {
        use WriteOp::*;
        let freq = self.frequency_sketch.read().expect("lock poisoned");
        let ch = &self.write_op_ch;
        let ghost d0 = *deqs; let ghost c0 = *counters; //@

        let mut _fi0: usize = 0; while _fi0 < count
            invariant //@
                *ch == self.write_op_ch, count <= 1, //@
                _fi0 == 0 ==> *deqs == d0 && *counters == c0, _fi0 <= count, //@
                forall|op: WriteOp<K, V>| #[trigger] self.write_op_ch.sp_queued(op) ==> self.wr_pre(op, d0, c0), //@
                (*deqs == d0 && *counters == c0) //@ [C10,C04,C12,C13,C03]
                || exists|op: WriteOp<K, V>, sk: FrequencySketch| #[trigger] self.write_op_ch.sp_queued(op) && #[trigger] self.wr_post(op, d0, c0, *deqs, *counters, sk), //@ [C10,C04,C12,C13,C03]
            decreases count - _fi0 //@
        { _fi0 += 1;
            match ch.try_recv() {
                Ok(Upsert {
                    key_hash: kh,
                    value_entry: entry,
                    old_weight,
                    new_weight,
                }) => /*@+*/{ proof { let op = WriteOp::<K, V>::Upsert { key_hash: kh, value_entry: entry, old_weight, new_weight }; assert(self.write_op_ch.sp_queued(op)); assert(self.wr_pre(op, d0, c0)); }/*@-*/ self.handle_upsert(kh, entry, old_weight, new_weight, deqs, &freq, counters)/*@+*/; proof { let op = WriteOp::<K, V>::Upsert { key_hash: kh, value_entry: entry, old_weight, new_weight }; assert(self.wr_post(op, d0, c0, *deqs, *counters, freq@)); } }/*@-*/,
                Ok(Remove(KvEntry { key: _key, entry })) => {
                    proof { let op = WriteOp::<K, V>::Remove(KvEntry { key: _key, entry }); assert(self.write_op_ch.sp_queued(op)); assert(self.wr_pre(op, d0, c0)); } //@
                    Self::handle_remove(deqs, entry, counters)/*@+*/; proof { let op = WriteOp::<K, V>::Remove(KvEntry { key: _key, entry }); assert(self.wr_post(op, d0, c0, *deqs, *counters, freq@)); }/*@-*/
                }
                Err(_) => break,
            };
        }
    }
//@@ END

    // ---------------- switching the popularity estimator on (C13, C14) ----------------
//@@ FN file=src/sync/base_cache.rs owner=Inner name=should_enable_frequency_sketch tags=C13,C14
    fn should_enable_frequency_sketch(&self, counters: &EvictionCounters) -> /*@+*/(r:/*@-*/ bool/*@+*/)/*@-*/
        // once, when a bounded cache is half full (for the flag value this call reads)
        ensures r == (!self.frequency_sketch_enabled.sp_val() && self.max_capacity.is_some() && counters.weighted_size >= self.max_capacity.unwrap() / 2) //@ [C13,C14]
    {
        if self.frequency_sketch_enabled.load(Ordering::Acquire) {
            false
        } else if let Some(max_cap) = self.max_capacity {
            counters.weighted_size >= max_cap / 2
        } else {
            false
        }
    }
//@@ END

//@@ FN file=src/sync/base_cache.rs owner=Inner name=enable_frequency_sketch tags=C14,C08
    fn enable_frequency_sketch(&self, counters: &EvictionCounters)
    {
        if let Some(max_cap) = self.max_capacity {
            let c = counters;
            let cap = if self.weigher.is_none() {
                max_cap
            } else {
                (c.entry_count as f64 * (c.weighted_size as f64 / max_cap as f64)) as u64
            };
            self.do_enable_frequency_sketch(cap);
        }
    }
//@@ END

//@@ FN file=src/sync/base_cache.rs owner=Inner name=do_enable_frequency_sketch tags=C14,C08
    fn do_enable_frequency_sketch(&self, cache_capacity: u64)
    {
        let skt_capacity = common::sketch_capacity(cache_capacity);
        self.frequency_sketch
            .write()
            .expect("lock poisoned")
            .ensure_capacity(skt_capacity);
        self.frequency_sketch_enabled.store(true, Ordering::Release);
    }
//@@ END
}
} // mod code

pub mod canary {
use vstd::prelude::*;
use super::env::*;
broadcast use {axiom_node_ref, axiom_ptr_reads, axiom_kid_arc, axiom_f64_mul_ok, axiom_f64_div_ok};
pub proof fn verif_canary_sync_maint() ensures false {}
}
}
fn main() {}
