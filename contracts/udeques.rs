#![feature(sized_hierarchy)]
#![feature(allocator_api)]
// Contract unit for the layer between the single-threaded cache and the raw-pointer list: `src/unsync/deques.rs` (tagged node
// pointers, region dispatch, the `unreachable!()` / `panic!` guards) and the `ValueEntry` accessors of `src/unsync.rs`.
// What the unsync unit ASSUMES about `Deques::*` and `ValueEntry::*` is PROVED here on the real text, against assumed contracts
// of the list itself (`Deque::push_back / contains / move_to_back / unlink_and_drop`: Kani window harnesses, complete per
// operation) and of `tagptr::TagNonNull`. Stated invariant shared by both units: every access-order node of the unsync cache is
// tagged `MainProbation` (the only region `push_back_ao` is ever called with).
// Not under contract here: the `AccessTime` impls (they read and write the timestamp THROUGH the node pointer).
use vstd::prelude::*;
verus! {
pub mod env {
use vstd::prelude::*;
use std::rc::Rc;
use std::ptr::NonNull;

pub type KeyId = int;
pub uninterp spec fn kid<Q: ?Sized>(q: &Q) -> KeyId;
pub open spec fn kid_rc<K>(k: Rc<K>) -> KeyId { kid::<K>(&*k) }

#[derive(Clone, Copy)]
#[verifier::external_body]
pub struct Instant { x: u64 }

pub struct N { pub id: int, pub key: KeyId, pub hash: u64 }
pub open spec fn has_id(s: Seq<N>, id: int) -> bool { exists|i: int| 0 <= i < s.len() && (#[trigger] s[i]).id == id }
pub open spec fn index_of_id(s: Seq<N>, id: int) -> int { choose|i: int| 0 <= i < s.len() && (#[trigger] s[i]).id == id }
pub open spec fn moved_to_back(s: Seq<N>, i: int) -> Seq<N> { s.remove(i).push(s[i]) }

#[verifier::external_type_specification]
#[verifier::external_body]
#[verifier::accept_recursive_types(T)]
pub struct ExNonNull<T: std::marker::PointeeSized>(NonNull<T>);
/// identity (address) of a node pointer
pub uninterp spec fn nid<T>(p: NonNull<T>) -> int;
pub uninterp spec fn ptr_reads<T: std::marker::PointeeSized>(p: &NonNull<T>, r: &T) -> bool;
pub assume_specification<T, 'a> [std::ptr::NonNull::<T>::as_ref] (p: &std::ptr::NonNull<T>) -> (r: &'a T)
    where T: std::marker::PointeeSized
    ensures ptr_reads(p, r);
/// a reference obtained from a node pointer IS that node (a `DeqNode` value carries its identity)
pub broadcast axiom fn axiom_node_ref<T>(p: &NonNull<DeqNode<T>>, r: &DeqNode<T>)
    ensures #[trigger] ptr_reads(p, r) ==> r.node_id() == nid(*p);

/// the 2-bit tag <-> region mapping (`src/common.rs`): Kani harness `cache_region_roundtrip` (complete on 0..4)
//@@ ENUM file=src/common.rs name=CacheRegion rewrites=default_discriminants
#[derive(Clone, Copy)]
pub enum CacheRegion {
    Window,
    MainProbation,
    MainProtected,
    Other,
}
//@@ END
impl From<usize> for CacheRegion {
    #[verifier::external_body]
    fn from(n: usize) -> (r: Self) ensures n < 4 ==> r as usize == n { unimplemented!() }
}
impl PartialEq<usize> for CacheRegion {
    #[verifier::external_body]
    fn eq(&self, other: &usize) -> (r: bool) ensures r == (*self as usize == *other) { unimplemented!() }
}

pub struct KeyDate<K> { pub key: Rc<K>, pub timestamp: Option<Instant> }
pub struct KeyHashDate<K> { pub key: Rc<K>, pub hash: u64, pub timestamp: Option<Instant> }

/// a list node: opaque (next/prev are private to deque.rs); its value carries its identity
#[verifier::external_body]
#[verifier::reject_recursive_types(T)]
pub struct DeqNode<T> { p: std::marker::PhantomData<T> }
impl<T> DeqNode<T> {
    pub uninterp spec fn node_id(&self) -> int;
    pub uninterp spec fn elem(&self) -> T;
//@@ SIG file=src/common/deque.rs owner=DeqNode name=new
    #[verifier::external_body]
    pub fn new(element: T) -> (r: Self) ensures r.elem() == element { unimplemented!() }
//@@ END
}
impl<T> std::fmt::Debug for DeqNode<T> {
    #[verifier::external_body]
    fn fmt(&self, f: &mut std::fmt::Formatter<'_>) -> std::fmt::Result { unimplemented!() }
}

/// tagptr::TagNonNull<T, 2>: a node pointer with a 2-bit tag
#[verifier::external_body]
#[verifier::reject_recursive_types(T)]
pub struct TagNonNull<T, const B: usize> { p: std::marker::PhantomData<T> }
impl<T, const B: usize> Clone for TagNonNull<T, B> { #[verifier::external_body] fn clone(&self) -> (r: Self) ensures r == *self { unimplemented!() } }
impl<T, const B: usize> Copy for TagNonNull<T, B> {}
impl<T, const B: usize> TagNonNull<T, B> {
    pub uninterp spec fn tn_id(&self) -> int;
    pub uninterp spec fn tn_tag(&self) -> usize;
    #[verifier::external_body]
    pub fn compose(ptr: NonNull<T>, tag: usize) -> (r: Self)
        requires tag < 4,
        ensures r.tn_id() == nid(ptr), r.tn_tag() == tag
    { unimplemented!() }
    #[verifier::external_body]
    pub fn decompose(self) -> (r: (NonNull<T>, usize)) ensures nid(r.0) == self.tn_id(), r.1 == self.tn_tag(), r.1 < 4 { unimplemented!() }
    #[verifier::external_body]
    pub fn decompose_tag(self) -> (r: usize) ensures r == self.tn_tag(), r < 4 { unimplemented!() }
}

/// THE LIST (src/common/deque.rs): assumed here, checked by the Kani window harnesses
#[verifier::external_body]
#[verifier::reject_recursive_types(T)]
pub struct Deque<T> { k: std::marker::PhantomData<T> }
impl<T> Deque<T> {
    pub uninterp spec fn view(&self) -> Seq<N>;
    pub uninterp spec fn sp_region(&self) -> CacheRegion;
//@@ SIG file=src/common/deque.rs owner=Deque name=new
    #[verifier::external_body]
    pub fn new(region: CacheRegion) -> (r: Self) ensures r@.len() == 0, r.sp_region() == region { unimplemented!() }
//@@ END
//@@ SIG file=src/common/deque.rs owner=Deque name=region
    #[verifier::external_body]
    pub fn region(&self) -> (r: CacheRegion) ensures r == self.sp_region() { unimplemented!() }
//@@ END
//@@ SIG file=src/common/deque.rs owner=Deque name=contains
    #[verifier::external_body]
    pub fn contains(&self, node: &DeqNode<T>) -> (b: bool) ensures b == has_id(self@, node.node_id()) { unimplemented!() }
//@@ END
//@@ SIG file=src/common/deque.rs owner=Deque name=move_to_back
    #[verifier::external_body]
    pub unsafe fn move_to_back(&mut self, node: NonNull<DeqNode<T>>)
        requires has_id(old(self)@, nid(node)), //@ [C08]
        ensures final(self)@ == moved_to_back(old(self)@, index_of_id(old(self)@, nid(node))), final(self).sp_region() == old(self).sp_region()
    { unimplemented!() }
//@@ END
//@@ SIG file=src/common/deque.rs owner=Deque name=unlink_and_drop
    #[verifier::external_body]
    pub unsafe fn unlink_and_drop(&mut self, node: NonNull<DeqNode<T>>)
        requires has_id(old(self)@, nid(node)), //@ [C08,C11]
        ensures final(self)@ == old(self)@.remove(index_of_id(old(self)@, nid(node))), final(self).sp_region() == old(self).sp_region()
    { unimplemented!() }
//@@ END
}
impl<K> Deque<KeyHashDate<K>> {
//@@ SIG file=src/common/deque.rs owner=Deque name=push_back types=loose
    #[verifier::external_body]
    pub fn push_back(&mut self, node: Box<DeqNode<KeyHashDate<K>>>) -> (r: NonNull<DeqNode<KeyHashDate<K>>>)
        ensures !has_id(old(self)@, nid(r)), final(self).sp_region() == old(self).sp_region(),
            final(self)@ == old(self)@.push(N { id: nid(r), key: kid_rc(node.elem().key), hash: node.elem().hash })
    { unimplemented!() }
//@@ END
}
impl<K> Deque<KeyDate<K>> {
//@@ SIG file=src/common/deque.rs owner=Deque name=push_back types=loose
    #[verifier::external_body]
    pub fn push_back(&mut self, node: Box<DeqNode<KeyDate<K>>>) -> (r: NonNull<DeqNode<KeyDate<K>>>)
        ensures !has_id(old(self)@, nid(r)), final(self).sp_region() == old(self).sp_region(),
            final(self)@ == old(self)@.push(N { id: nid(r), key: kid_rc(node.elem().key), hash: 0 })
    { unimplemented!() }
//@@ END
}
} // mod env

pub mod code {
use vstd::prelude::*;
use std::rc::Rc;
use std::ptr::NonNull;
use super::env::*;
broadcast use {axiom_node_ref};

// DeqNode for an access order queue.
type KeyDeqNodeAo<K> = TagNonNull<DeqNode<KeyHashDate<K>>, 2>;
// DeqNode for the write order queue.
type KeyDeqNodeWo<K> = NonNull<DeqNode<KeyDate<K>>>;

//@@ STRUCT file=src/unsync.rs name=EntryInfo
#[verifier::reject_recursive_types(K)]
pub struct EntryInfo<K> {
    pub access_order_q_node: Option<KeyDeqNodeAo<K>>,
    pub write_order_q_node: Option<KeyDeqNodeWo<K>>,
    pub policy_weight: u32,
}
//@@ END

//@@ STRUCT file=src/unsync.rs name=ValueEntry
#[verifier::reject_recursive_types(K)]
pub struct ValueEntry<K, V> {
    pub value: V,
    pub info: EntryInfo<K>,
}
//@@ END

impl<K, V> ValueEntry<K, V> {
    /// the views the unsync unit uses
    pub open spec fn ao(&self) -> Option<int> { match self.info.access_order_q_node { Some(t) => Some(t.tn_id()), None => None } }
    pub open spec fn ao_tag(&self) -> Option<usize> { match self.info.access_order_q_node { Some(t) => Some(t.tn_tag()), None => None } }
    pub open spec fn wo(&self) -> Option<int> { match self.info.write_order_q_node { Some(p) => Some(nid(p)), None => None } }
    pub open spec fn w(&self) -> u32 { self.info.policy_weight }
    /// stated invariant: access-order nodes of the unsync cache are tagged MainProbation
    pub open spec fn ao_in_probation(&self) -> bool { self.ao_tag().is_some() ==> self.ao_tag().unwrap() == 1 }

//@@ FN file=src/unsync.rs owner=ValueEntry name=new tags=C10,C11
    pub(crate) fn new(value: V, policy_weight: u32) -> /*@+*/(r:/*@-*/ Self/*@+*/)/*@-*/
        ensures r.value == value, r.w() == policy_weight, r.ao().is_none(), r.wo().is_none() //@ [C10,C11,C01]
    {
        Self {
            value,
            info: EntryInfo {
                access_order_q_node: None,
                write_order_q_node: None,
                policy_weight,
            },
        }
    }
//@@ END

//@@ FN file=src/unsync.rs owner=ValueEntry name=replace_deq_nodes_with tags=C11,C12
    pub(crate) fn replace_deq_nodes_with(&mut self, mut other: Self)
        ensures final(self).ao() == other.ao(), final(self).ao_tag() == other.ao_tag(), final(self).wo() == other.wo(), //@ [C11,C12,C05,C06]
            final(self).w() == old(self).w(), final(self).value == old(self).value //@ [C10,C01]
    {
        self.info.access_order_q_node = other.info.access_order_q_node.take();
        self.info.write_order_q_node = other.info.write_order_q_node.take();
    }
//@@ END

//@@ FN file=src/unsync.rs owner=ValueEntry name=access_order_q_node tags=C11
    pub(crate) fn access_order_q_node(&self) -> /*@+*/(r:/*@-*/ Option<KeyDeqNodeAo<K>>/*@+*/)/*@-*/
        ensures r == self.info.access_order_q_node //@ [C11,C12]
    {
        self.info.access_order_q_node
    }
//@@ END

//@@ FN file=src/unsync.rs owner=ValueEntry name=set_access_order_q_node tags=C11
    pub(crate) fn set_access_order_q_node(&mut self, node: Option<KeyDeqNodeAo<K>>)
        ensures final(self).info.access_order_q_node == node, final(self).info.write_order_q_node == old(self).info.write_order_q_node, //@ [C11,C12]
            final(self).w() == old(self).w(), final(self).value == old(self).value //@ [C10,C01]
    {
        self.info.access_order_q_node = node;
    }
//@@ END

//@@ FN file=src/unsync.rs owner=ValueEntry name=take_access_order_q_node tags=C11
    pub(crate) fn take_access_order_q_node(&mut self) -> /*@+*/(r:/*@-*/ Option<KeyDeqNodeAo<K>>/*@+*/)/*@-*/
        ensures r == old(self).info.access_order_q_node, final(self).info.access_order_q_node.is_none(), //@ [C11,C08]
            final(self).info.write_order_q_node == old(self).info.write_order_q_node, final(self).w() == old(self).w(), final(self).value == old(self).value //@ [C10,C01]
    {
        self.info.access_order_q_node.take()
    }
//@@ END

//@@ FN file=src/unsync.rs owner=ValueEntry name=write_order_q_node tags=C11
    pub(crate) fn write_order_q_node(&self) -> /*@+*/(r:/*@-*/ Option<KeyDeqNodeWo<K>>/*@+*/)/*@-*/
        ensures r == self.info.write_order_q_node //@ [C11,C05]
    {
        self.info.write_order_q_node
    }
//@@ END

//@@ FN file=src/unsync.rs owner=ValueEntry name=set_write_order_q_node tags=C11
    pub(crate) fn set_write_order_q_node(&mut self, node: Option<KeyDeqNodeWo<K>>)
        ensures final(self).info.write_order_q_node == node, final(self).info.access_order_q_node == old(self).info.access_order_q_node, //@ [C11,C05]
            final(self).w() == old(self).w(), final(self).value == old(self).value //@ [C10,C01]
    {
        self.info.write_order_q_node = node;
    }
//@@ END

//@@ FN file=src/unsync.rs owner=ValueEntry name=take_write_order_q_node tags=C11
    pub(crate) fn take_write_order_q_node(&mut self) -> /*@+*/(r:/*@-*/ Option<KeyDeqNodeWo<K>>/*@+*/)/*@-*/
        ensures r == old(self).info.write_order_q_node, final(self).info.write_order_q_node.is_none(), //@ [C11,C08]
            final(self).info.access_order_q_node == old(self).info.access_order_q_node, final(self).w() == old(self).w(), final(self).value == old(self).value //@ [C10,C01]
    {
        self.info.write_order_q_node.take()
    }
//@@ END

//@@ FN file=src/unsync.rs owner=ValueEntry name=policy_weight tags=C10
    pub(crate) fn policy_weight(&self) -> /*@+*/(r:/*@-*/ u32/*@+*/)/*@-*/
        ensures r == self.w() //@ [C10,C04]
    {
        self.info.policy_weight
    }
//@@ END

//@@ FN file=src/unsync.rs owner=ValueEntry name=set_policy_weight tags=C10
    pub(crate) fn set_policy_weight(&mut self, policy_weight: u32)
        ensures final(self).w() == policy_weight, final(self).value == old(self).value, //@ [C10,C04,C01]
            final(self).info.access_order_q_node == old(self).info.access_order_q_node, final(self).info.write_order_q_node == old(self).info.write_order_q_node //@ [C11]
    {
        self.info.policy_weight = policy_weight;
    }
//@@ END
}

//@@ STRUCT file=src/unsync/deques.rs name=Deques
#[verifier::reject_recursive_types(K)]
pub struct Deques<K> {
    pub window: Deque<KeyHashDate<K>>, //    Not used yet.
    pub probation: Deque<KeyHashDate<K>>,
    pub protected: Deque<KeyHashDate<K>>, // Not used yet.
    pub write_order: Deque<KeyDate<K>>,
}
//@@ END

impl<K> Default for Deques<K> {
//@@ FN file=src/unsync/deques.rs owner=Default for Deques name=default tags=C11,C17
    fn default() -> /*@+*/(r:/*@-*/ Self/*@+*/)/*@-*/
        ensures r.window@.len() == 0, r.probation@.len() == 0, r.protected@.len() == 0, r.write_order@.len() == 0, r.regions_ok() //@ [C11,C17,C08]
    {
        Self {
            window: Deque::new(CacheRegion::Window),
            probation: Deque::new(CacheRegion::MainProbation),
            protected: Deque::new(CacheRegion::MainProtected),
            write_order: Deque::new(CacheRegion::Other),
        }
    }
//@@ END
}

impl<K> Deques<K> {
    /// each list knows its own region (set once, in `default` / `clear`)
    pub open spec fn regions_ok(&self) -> bool {
        self.window.sp_region() as usize == 0 && self.probation.sp_region() as usize == 1 && self.protected.sp_region() as usize == 2
    }
    pub open spec fn others_same(&self, o: &Self) -> bool { self.window@ == o.window@ && self.protected@ == o.protected@ }

//@@ FN file=src/unsync/deques.rs owner=Deques name=clear tags=C07,C11
    pub(crate) fn clear(&mut self)
        ensures final(self).window@.len() == 0, final(self).probation@.len() == 0, final(self).protected@.len() == 0, final(self).write_order@.len() == 0, //@ [C07,C11,C01,C03,C05]
            final(self).regions_ok() //@ [C08]
    {
        self.window = Deque::new(CacheRegion::Window);
        self.probation = Deque::new(CacheRegion::MainProbation);
        self.protected = Deque::new(CacheRegion::MainProtected);
        self.write_order = Deque::new(CacheRegion::Other);
    }
//@@ END

//@@ FN file=src/unsync/deques.rs owner=Deques name=push_back_ao tags=C11,C12
    pub(crate) fn push_back_ao<V>(
        &mut self,
        region: CacheRegion,
        kh: KeyHashDate<K>,
        entry: &mut ValueEntry<K, V>,
    )
        requires region is MainProbation, old(self).regions_ok(), //@ [C08]
        ensures //@
            final(self).others_same(old(self)), final(self).write_order@ == old(self).write_order@, final(self).regions_ok(), //@ [C12,C11]
            final(entry).ao().is_some(), !has_id(old(self).probation@, final(entry).ao().unwrap()), final(entry).ao_in_probation(), //@ [C11,C08]
            final(self).probation@ == old(self).probation@.push(N { id: final(entry).ao().unwrap(), key: kid_rc(kh.key), hash: kh.hash }), //@ [C12,C11]
            final(entry).value == old(entry).value, final(entry).wo() == old(entry).wo(), final(entry).w() == old(entry).w(), //@ [C01,C10,C11]
    {
        let node = Box::new(DeqNode::new(kh));
        let node = match region {
            CacheRegion::Window => self.window.push_back(node),
            CacheRegion::MainProbation => self.probation.push_back(node),
            CacheRegion::MainProtected => self.protected.push_back(node),
            CacheRegion::Other => unreachable!(),
        };
        let tagged_node = TagNonNull::compose(node, region as usize);
        entry.set_access_order_q_node(Some(tagged_node));
    }
//@@ END

//@@ FN file=src/unsync/deques.rs owner=Deques name=push_back_wo tags=C11,C05
    pub(crate) fn push_back_wo<V>(&mut self, kh: KeyDate<K>, entry: &mut ValueEntry<K, V>)
        ensures //@
            final(self).others_same(old(self)), final(self).probation@ == old(self).probation@, //@ [C12,C11]
            final(entry).wo().is_some(), !has_id(old(self).write_order@, final(entry).wo().unwrap()), //@ [C11,C08]
            final(self).write_order@ == old(self).write_order@.push(N { id: final(entry).wo().unwrap(), key: kid_rc(kh.key), hash: 0 }), //@ [C05,C11]
            final(entry).value == old(entry).value, final(entry).ao() == old(entry).ao(), final(entry).ao_tag() == old(entry).ao_tag(), final(entry).w() == old(entry).w(), //@ [C01,C10,C11]
            final(self).probation.sp_region() == old(self).probation.sp_region(), final(self).window.sp_region() == old(self).window.sp_region(), final(self).protected.sp_region() == old(self).protected.sp_region(), //@
    {
        let node = Box::new(DeqNode::new(kh));
        let node = self.write_order.push_back(node);
        entry.set_write_order_q_node(Some(node));
    }
//@@ END

//@@ FN file=src/unsync/deques.rs owner=Deques name=move_to_back_ao tags=C12,C08
    pub(crate) fn move_to_back_ao<V>(&mut self, entry: &ValueEntry<K, V>)
        requires // the node is a member of the probation list: otherwise the `unreachable!()` arm is reached //@
            entry.ao().is_some() ==> has_id(old(self).probation@, entry.ao().unwrap()), entry.ao_in_probation(), //@ [C08,C11]
        ensures //@
            final(self).others_same(old(self)), final(self).write_order@ == old(self).write_order@, //@ [C12]
            entry.ao().is_none() ==> final(self).probation@ == old(self).probation@, //@ [C12]
            entry.ao().is_some() ==> final(self).probation@ == moved_to_back(old(self).probation@, index_of_id(old(self).probation@, entry.ao().unwrap())), //@ [C12,C13]
            final(self).probation.sp_region() == old(self).probation.sp_region(), final(self).window.sp_region() == old(self).window.sp_region(), final(self).protected.sp_region() == old(self).protected.sp_region(), //@
    {
        if let Some(tagged_node) = entry.access_order_q_node() {
            let (node, tag) = tagged_node.decompose();
            let p = unsafe { node.as_ref() };
            match tag.into() {
                CacheRegion::Window if self.window.contains(p) => {
                    unsafe { self.window.move_to_back(node) };
                }
                CacheRegion::MainProbation if self.probation.contains(p) => {
                    unsafe { self.probation.move_to_back(node) };
                }
                CacheRegion::MainProtected if self.protected.contains(p) => {
                    unsafe { self.protected.move_to_back(node) };
                }
                _ => unreachable!(),
            }
        }
    }
//@@ END

//@@ FN file=src/unsync/deques.rs owner=Deques name=move_to_back_wo tags=C05,C08
    pub(crate) fn move_to_back_wo<V>(&mut self, entry: &ValueEntry<K, V>)
        requires entry.wo().is_some(), // [C08]  (`unwrap` of the write-order node) //@
        ensures //@
            final(self).others_same(old(self)), final(self).probation@ == old(self).probation@, //@ [C12]
            !has_id(old(self).write_order@, entry.wo().unwrap()) ==> final(self).write_order@ == old(self).write_order@, //@ [C05]
            has_id(old(self).write_order@, entry.wo().unwrap()) ==> final(self).write_order@ == moved_to_back(old(self).write_order@, index_of_id(old(self).write_order@, entry.wo().unwrap())), //@ [C05]
    {
        let node = entry.write_order_q_node().unwrap();
        let p = unsafe { node.as_ref() };
        if self.write_order.contains(p) {
            unsafe { self.write_order.move_to_back(node) };
        }
    }
//@@ END

//@@ FN file=src/unsync/deques.rs owner=Deques name=unlink_ao tags=C11,C08
    pub(crate) fn unlink_ao<V>(&mut self, entry: &mut ValueEntry<K, V>)
        requires old(entry).ao().is_some() ==> has_id(old(self).probation@, old(entry).ao().unwrap()), old(entry).ao_in_probation(), old(self).regions_ok(), //@ [C08,C11]
        ensures //@
            final(self).others_same(old(self)), final(self).write_order@ == old(self).write_order@, final(self).regions_ok(), //@ [C12]
            final(entry).ao().is_none(), final(entry).wo() == old(entry).wo(), final(entry).w() == old(entry).w(), final(entry).value == old(entry).value, //@ [C11,C10,C01]
            old(entry).ao().is_none() ==> final(self).probation@ == old(self).probation@, //@ [C12,C11]
            old(entry).ao().is_some() ==> final(self).probation@ == old(self).probation@.remove(index_of_id(old(self).probation@, old(entry).ao().unwrap())), //@ [C11,C12]
    {
        if let Some(node) = entry.take_access_order_q_node() {
            self.unlink_node_ao(node);
        }
    }
//@@ END

//@@ FN file=src/unsync/deques.rs owner=Deques name=unlink_ao_from_deque tags=C11,C08
    pub(crate) fn unlink_ao_from_deque<V>(
        deq_name: &str,
        deq: &mut Deque<KeyHashDate<K>>,
        entry: &mut ValueEntry<K, V>,
    )
        requires old(entry).ao().is_some() ==> has_id(old(deq)@, old(entry).ao().unwrap()) && old(deq).sp_region() as usize == old(entry).ao_tag().unwrap(), //@ [C08,C11]
        ensures //@
            final(entry).ao().is_none(), final(entry).wo() == old(entry).wo(), final(entry).w() == old(entry).w(), final(entry).value == old(entry).value, //@ [C11,C10,C01]
            old(entry).ao().is_none() ==> final(deq)@ == old(deq)@, //@ [C12,C11]
            old(entry).ao().is_some() ==> final(deq)@ == old(deq)@.remove(index_of_id(old(deq)@, old(entry).ao().unwrap())), //@ [C11,C12]
            final(deq).sp_region() == old(deq).sp_region(), //@
    {
        if let Some(node) = entry.take_access_order_q_node() {
            unsafe { Self::unlink_node_ao_from_deque(deq_name, deq, node) };
        }
    }
//@@ END

//@@ FN file=src/unsync/deques.rs owner=Deques name=unlink_wo tags=C11,C08
    pub(crate) fn unlink_wo<V>(deq: &mut Deque<KeyDate<K>>, entry: &mut ValueEntry<K, V>)
        requires old(entry).wo().is_some() ==> has_id(old(deq)@, old(entry).wo().unwrap()), //@ [C08,C11]
        ensures //@
            final(entry).wo().is_none(), final(entry).ao() == old(entry).ao(), final(entry).ao_tag() == old(entry).ao_tag(), final(entry).w() == old(entry).w(), final(entry).value == old(entry).value, //@ [C11,C10,C01]
            old(entry).wo().is_none() ==> final(deq)@ == old(deq)@, //@ [C05,C11]
            old(entry).wo().is_some() ==> final(deq)@ == old(deq)@.remove(index_of_id(old(deq)@, old(entry).wo().unwrap())), //@ [C11,C05]
    {
        if let Some(node) = entry.take_write_order_q_node() {
            Self::unlink_node_wo(deq, node);
        }
    }
//@@ END

//@@ FN file=src/unsync/deques.rs owner=Deques name=unlink_node_ao tags=C11,C08
    pub(crate) fn unlink_node_ao(&mut self, tagged_node: TagNonNull<DeqNode<KeyHashDate<K>>, 2>)
        requires tagged_node.tn_tag() == 1, has_id(old(self).probation@, tagged_node.tn_id()), old(self).regions_ok(), //@ [C08,C11]
        ensures //@
            final(self).others_same(old(self)), final(self).write_order@ == old(self).write_order@, final(self).regions_ok(), //@ [C12]
            final(self).probation@ == old(self).probation@.remove(index_of_id(old(self).probation@, tagged_node.tn_id())), //@ [C11,C12]
    {
        unsafe {
            match tagged_node.decompose_tag().into() {
                CacheRegion::Window => {
                    Self::unlink_node_ao_from_deque("window", &mut self.window, tagged_node)
                }
                CacheRegion::MainProbation => {
                    Self::unlink_node_ao_from_deque("probation", &mut self.probation, tagged_node)
                }
                CacheRegion::MainProtected => {
                    Self::unlink_node_ao_from_deque("protected", &mut self.protected, tagged_node)
                }
                _ => unreachable!(),
            }
        }
    }
//@@ END

//@@ FN file=src/unsync/deques.rs owner=Deques name=unlink_node_ao_from_deque tags=C11,C08
    unsafe fn unlink_node_ao_from_deque(
        deq_name: &str,
        deq: &mut Deque<KeyHashDate<K>>,
        tagged_node: TagNonNull<DeqNode<KeyHashDate<K>>, 2>,
    )
        requires // otherwise: `panic!("unlink_node - node is not a member of {} deque")` //@
            has_id(old(deq)@, tagged_node.tn_id()), old(deq).sp_region() as usize == tagged_node.tn_tag(), //@ [C08,C11]
        ensures final(deq)@ == old(deq)@.remove(index_of_id(old(deq)@, tagged_node.tn_id())), final(deq).sp_region() == old(deq).sp_region(), //@ [C11,C12]
    {
        let (node, tag) = tagged_node.decompose();
        if deq.region() == tag && deq.contains(node.as_ref()) {
            // https://github.com/moka-rs/moka/issues/64
            deq.unlink_and_drop(node);
        } else {
            panic!(
                "unlink_node - node is not a member of {} deque. {:?}",
                deq_name,
                node.as_ref()
            )
        }
    }
//@@ END

//@@ FN file=src/unsync/deques.rs owner=Deques name=unlink_node_wo tags=C11,C08
    pub(crate) fn unlink_node_wo(deq: &mut Deque<KeyDate<K>>, node: NonNull<DeqNode<KeyDate<K>>>)
        requires has_id(old(deq)@, nid(node)), //@ [C08,C11]
        ensures final(deq)@ == old(deq)@.remove(index_of_id(old(deq)@, nid(node))), //@ [C11,C05]
    {
        unsafe {
            let p = node.as_ref();
            if deq.contains(p) {
                // https://github.com/moka-rs/moka/issues/64
                deq.unlink_and_drop(node);
            } else {
                panic!(
                    "unlink_node - node is not a member of write_order deque. {:?}",
                    p
                )
            }
        }
    }
//@@ END
}
} // mod code

pub mod canary {
use vstd::prelude::*;
use super::env::*;
broadcast use {axiom_node_ref};
pub proof fn verif_canary_udeques() ensures false {}
}
}
fn main() {}
