#![feature(sized_hierarchy)]
#![feature(allocator_api)]
// Contract unit for the admission decision of the CONCURRENT cache (`Inner::admit` in src/sync/base_cache.rs), in the
// QUIESCENT case: every node of the probation list has its entry in the map (no invalidation is in flight), which is the
// situation of a sequential history with maintenance applied. Under that precondition the function is proved equivalent to the
// declarative `spec_admit` of property C13 and to hand back exactly the least sufficient LRU prefix (C12), with no skipped node.
// With stale nodes in the list (concurrent invalidations) nothing is claimed here. The map is assumed not to change during the
// call (the function holds no lock on it): sequential reading only.
use vstd::prelude::*;
verus! {
pub mod env {
use vstd::prelude::*;
use std::sync::Arc;
use std::ptr::NonNull;

pub type KeyId = int;
pub uninterp spec fn kid<Q: ?Sized>(q: &Q) -> KeyId;
pub open spec fn kid_arc<K>(k: Arc<K>) -> KeyId { kid::<K>(&*k) }
pub broadcast axiom fn axiom_kid_arc<K>(k: Arc<K>)
    ensures #[trigger] kid::<Arc<K>>(&k) == kid::<K>(&*k);

pub struct N { pub id: int, pub key: KeyId, pub hash: u64 }

#[verifier::external_type_specification]
#[verifier::external_body]
#[verifier::accept_recursive_types(T)]
pub struct ExNonNull<T: std::marker::PointeeSized>(NonNull<T>);
pub uninterp spec fn nid<T>(p: NonNull<T>) -> int;
/// FROZEN HEAP (sound while the list is not mutated: `admit` only reads it)
pub uninterp spec fn heap_deref<T>(p: NonNull<T>) -> T;
pub uninterp spec fn heap_next(id: int) -> Option<int>;
pub uninterp spec fn ptr_reads<T: std::marker::PointeeSized>(p: &NonNull<T>, r: &T) -> bool;
pub assume_specification<T, 'a> [std::ptr::NonNull::<T>::as_ref] (p: &std::ptr::NonNull<T>) -> (r: &'a T)
    where T: std::marker::PointeeSized
    ensures ptr_reads(p, r);
pub broadcast axiom fn axiom_ptr_reads<T>(p: &NonNull<T>, r: &T)
    ensures #[trigger] ptr_reads(p, r) ==> *r == heap_deref(*p);

#[verifier::external_body]
#[verifier::reject_recursive_types(K)]
pub struct KeyHashDate<K> { k: std::marker::PhantomData<K> }
impl<K> KeyHashDate<K> {
    pub uninterp spec fn sp_key(&self) -> Arc<K>;
    pub uninterp spec fn sp_hash(&self) -> u64;
//@@ SIG file=src/common/concurrent.rs owner=KeyHashDate name=key
    #[verifier::external_body]
    pub fn key(&self) -> (r: &Arc<K>) ensures *r == self.sp_key() { unimplemented!() }
//@@ END
//@@ SIG file=src/common/concurrent.rs owner=KeyHashDate name=hash
    #[verifier::external_body]
    pub fn hash(&self) -> (r: u64) ensures r == self.sp_hash() { unimplemented!() }
//@@ END
}
#[verifier::reject_recursive_types(T)]
pub struct DeqNode<T> { pub element: T }
#[verifier::external_body]
#[verifier::reject_recursive_types(T)]
pub struct Deque<T> { k: std::marker::PhantomData<T> }
impl<T> Deque<T> {
    pub uninterp spec fn view(&self) -> Seq<N>;
//@@ SIG file=src/common/deque.rs owner=Deque name=peek_front_ptr
    #[verifier::external_body]
    pub fn peek_front_ptr(&self) -> (r: Option<NonNull<DeqNode<T>>>)
        ensures match r { Some(p) => self@.len() > 0 && nid(p) == self@[0].id, None => self@.len() == 0 }
    { unimplemented!() }
//@@ END
}
impl<T> DeqNode<T> {
//@@ SIG file=src/common/deque.rs owner=DeqNode name=next_node_ptr
    #[verifier::external_body]
    pub fn next_node_ptr(this: NonNull<Self>) -> (r: Option<NonNull<DeqNode<T>>>)
        ensures match r { Some(p) => heap_next(nid(this)) == Some(nid(p)), None => heap_next(nid(this)).is_none() }
    { unimplemented!() }
//@@ END
}
pub open spec fn frozen<K>(s: Seq<N>) -> bool {
    forall|p: NonNull<DeqNode<KeyHashDate<K>>>, i: int| 0 <= i < s.len() && nid(p) == (#[trigger] s[i]).id ==> {
        &&& kid_arc(#[trigger] heap_deref(p).element.sp_key()) == s[i].key
        &&& heap_deref(p).element.sp_hash() == s[i].hash
        &&& heap_next(nid(p)) == (if i + 1 < s.len() { Some(s[i + 1].id) } else { None::<int> })
    }
}
pub axiom fn axiom_frozen<K>(d: &Deque<KeyHashDate<K>>) ensures frozen::<K>(d@);

#[verifier::reject_recursive_types(K)]
pub struct Deques<K> { pub probation: Deque<KeyHashDate<K>> }

/// what `DashMap::get` hands out (a guard that derefs to the entry): only `policy_weight()` is used by `admit`
#[verifier::external_body]
#[verifier::reject_recursive_types(K)]
#[verifier::reject_recursive_types(V)]
pub struct EntryRef<K, V> { k: std::marker::PhantomData<(K, V)> }
impl<K, V> EntryRef<K, V> {
    pub uninterp spec fn w(&self) -> u32;
    #[verifier::external_body]
    pub fn policy_weight(&self) -> (r: u32) ensures r == self.w() { unimplemented!() }
}
#[verifier::external_body]
#[verifier::reject_recursive_types(K)]
#[verifier::reject_recursive_types(V)]
#[verifier::reject_recursive_types(S)]
pub struct CacheStore<K, V, S> { k: std::marker::PhantomData<(K, V, S)> }
impl<K, V, S> CacheStore<K, V, S> {
    /// key -> weight of the entry the map holds (assumed not to change during the call)
    pub uninterp spec fn view(&self) -> Map<KeyId, u32>;
    #[verifier::external_body]
    pub fn get(&self, key: &Arc<K>) -> (r: Option<EntryRef<K, V>>)
        ensures match r { Some(e) => self@.contains_key(kid_arc(*key)) && e.w() == self@[kid_arc(*key)], None => !self@.contains_key(kid_arc(*key)) }
    { unimplemented!() }
}

#[verifier::external_body]
pub struct FrequencySketch { x: u64 }
impl FrequencySketch {
    pub uninterp spec fn freq(&self, hash: u64) -> u8;
    /// contract proved in the `sketch` unit
//@@ SIG file=src/common/frequency_sketch.rs owner=FrequencySketch name=frequency
    #[verifier::external_body]
    pub fn frequency(&self, hash: u64) -> (r: u8) ensures r == self.freq(hash), r <= 15 { unimplemented!() }
//@@ END
}

pub trait Array { type Item; }
impl<T, const N: usize> Array for [T; N] { type Item = T; }
#[verifier::reject_recursive_types(A)]
pub struct SmallVec<A: Array> { pub v: Vec<A::Item> }
impl<A: Array> Default for SmallVec<A> {
    fn default() -> (r: Self) ensures r.v@.len() == 0 { SmallVec { v: Vec::new() } }
}
impl<A: Array> SmallVec<A> {
    pub fn push(&mut self, x: A::Item) ensures final(self).v@ == old(self).v@.push(x) { self.v.push(x) }
}
} // mod env

pub mod cspec {
use vstd::prelude::*;
use super::env::*;
pub open spec fn wsum(s: Seq<N>, m: Map<KeyId, u32>) -> int
    decreases s.len()
{ if s.len() == 0 { 0 } else { wsum(s.drop_last(), m) + m[s.last().key] as int } }
pub open spec fn fsum(s: Seq<N>, sk: FrequencySketch) -> int
    decreases s.len()
{ if s.len() == 0 { 0 } else { fsum(s.drop_last(), sk) + sk.freq(s.last().hash) as int } }
pub open spec fn least_prefix(p: Seq<N>, m: Map<KeyId, u32>, cw: int, from: int) -> Option<int>
    decreases p.len() - from
{
    if from < 0 || from > p.len() { None }
    else if wsum(p.take(from), m) >= cw { Some(from) }
    else if from == p.len() { None }
    else { least_prefix(p, m, cw, from + 1) }
}
/// C13, from the property statement
pub open spec fn spec_admit(cw: int, cf: int, p: Seq<N>, m: Map<KeyId, u32>, sk: FrequencySketch) -> bool {
    match least_prefix(p, m, cw, 0) { Some(n) => cf > fsum(p.take(n), sk), None => false }
}
pub proof fn lemma_wsum_take_mono(p: Seq<N>, m: Map<KeyId, u32>, a: int, b: int)
    requires 0 <= a <= b <= p.len()
    ensures wsum(p.take(a), m) <= wsum(p.take(b), m)
    decreases b - a
{
    if a < b { lemma_wsum_take_mono(p, m, a, b - 1); assert(p.take(b).drop_last() =~= p.take(b - 1)); }
}
pub proof fn lemma_fsum_take_mono(p: Seq<N>, sk: FrequencySketch, a: int, b: int)
    requires 0 <= a <= b <= p.len()
    ensures fsum(p.take(a), sk) <= fsum(p.take(b), sk)
    decreases b - a
{
    if a < b { lemma_fsum_take_mono(p, sk, a, b - 1); assert(p.take(b).drop_last() =~= p.take(b - 1)); }
}
pub proof fn lemma_least_prefix(p: Seq<N>, m: Map<KeyId, u32>, cw: int, from: int)
    requires 0 <= from <= p.len(), forall|i: int| 0 <= i < from ==> wsum(#[trigger] p.take(i), m) < cw
    ensures match least_prefix(p, m, cw, from) {
        Some(n) => from <= n <= p.len() && wsum(p.take(n), m) >= cw && forall|i: int| 0 <= i < n ==> wsum(#[trigger] p.take(i), m) < cw,
        None => forall|i: int| 0 <= i <= p.len() ==> wsum(#[trigger] p.take(i), m) < cw,
    }
    decreases p.len() - from
{
    if wsum(p.take(from), m) >= cw { } else if from == p.len() { } else { lemma_least_prefix(p, m, cw, from + 1); }
}
pub proof fn lemma_wsum_bound(s: Seq<N>, m: Map<KeyId, u32>)
    ensures 0 <= wsum(s, m) <= s.len() * 0xFFFF_FFFF
    decreases s.len()
{ if s.len() > 0 { lemma_wsum_bound(s.drop_last(), m); } }
} // mod cspec

pub mod code {
use vstd::prelude::*;
use std::sync::Arc;
use std::ptr::NonNull;
use super::env::*;
use super::cspec::*;
broadcast use {axiom_kid_arc, axiom_ptr_reads};

//@@ STRUCT file=src/sync/base_cache.rs name=EntrySizeAndFrequency
#[derive(Default)]
pub struct EntrySizeAndFrequency {
    pub policy_weight: u64,
    pub freq: u32,
}
//@@ END
pub assume_specification [<EntrySizeAndFrequency as Default>::default] () -> (r: EntrySizeAndFrequency)
    ensures r.policy_weight == 0, r.freq == 0;

impl EntrySizeAndFrequency {
//@@ FN file=src/sync/base_cache.rs owner=EntrySizeAndFrequency name=new tags=C13
    fn new(policy_weight: u32) -> /*@+*/(r:/*@-*/ Self/*@+*/)/*@-*/
        ensures r.policy_weight == policy_weight, r.freq == 0 //@ [C13]
    {
        Self {
            policy_weight: policy_weight as u64,
            ..Default::default()
        }
    }
//@@ END

//@@ FN file=src/sync/base_cache.rs owner=EntrySizeAndFrequency name=add_policy_weight tags=C13
    fn add_policy_weight(&mut self, weight: u32)
        requires old(self).policy_weight + u32::MAX <= u64::MAX, //@ [C08]
        ensures final(self).policy_weight == old(self).policy_weight + weight, final(self).freq == old(self).freq //@ [C13,C04]
    {
        self.policy_weight += weight as u64;
    }
//@@ END

//@@ FN file=src/sync/base_cache.rs owner=EntrySizeAndFrequency name=add_frequency tags=C13
    fn add_frequency(&mut self, freq: &FrequencySketch, hash: u64)
        requires old(self).freq + 15 <= u32::MAX, //@ [C08]
        ensures final(self).freq == old(self).freq + freq.freq(hash), final(self).freq <= old(self).freq + 15, final(self).policy_weight == old(self).policy_weight //@ [C13]
    {
        self.freq += freq.frequency(hash) as u32;
    }
//@@ END
}

// Access-Order Queue Node
type AoqNode<K> = NonNull<DeqNode<KeyHashDate<K>>>;

//@@ ENUM file=src/sync/base_cache.rs name=AdmissionResult
#[verifier::reject_recursive_types(K)]
pub enum AdmissionResult<K> {
    Admitted {
        victim_nodes: SmallVec<[AoqNode<K>; 8]>,
        skipped_nodes: SmallVec<[AoqNode<K>; 4]>,
    },
    Rejected {
        skipped_nodes: SmallVec<[AoqNode<K>; 4]>,
    },
}
//@@ END

pub open spec fn ptr_ids<K>(v: Seq<AoqNode<K>>) -> Seq<int> { v.map_values(|p: AoqNode<K>| nid(p)) }

#[verifier::reject_recursive_types(K)]
#[verifier::reject_recursive_types(V)]
#[verifier::reject_recursive_types(S)]
pub struct Inner<K, V, S> { pub kvs: std::marker::PhantomData<(K, V, S)> }

impl<K, V, S> Inner<K, V, S> {
//@@ FN file=src/sync/base_cache.rs owner=Inner name=admit tags=C13,C12
    fn admit(
        candidate: &EntrySizeAndFrequency,
        cache: &CacheStore<K, V, S>,
        deqs: &Deques<K>,
        freq: &FrequencySketch,
    ) -> /*@+*/(r:/*@-*/ AdmissionResult<K>/*@+*/)/*@-*/
        requires //@
            candidate.policy_weight <= u32::MAX, candidate.freq <= 15, //@
            // QUIESCENT: every node of the probation list has its entry in the map
            forall|i: int| 0 <= i < deqs.probation@.len() ==> cache@.contains_key(#[trigger] deqs.probation@[i].key), //@
        ensures //@
            // C13, as the property states it
            (r is Admitted) <==> spec_admit(candidate.policy_weight as int, candidate.freq as int, deqs.probation@, cache@, *freq), //@ [C13]
            // C12: the victims are exactly the least sufficient LRU prefix, nobody is skipped
            match r { //@ [C12,C13]
                AdmissionResult::Admitted { victim_nodes, skipped_nodes } => //@
                    least_prefix(deqs.probation@, cache@, candidate.policy_weight as int, 0) == Some(victim_nodes.v@.len() as int) //@
                        && ptr_ids(victim_nodes.v@) == deqs.probation@.take(victim_nodes.v@.len() as int).map_values(|x: N| x.id) //@
                        && skipped_nodes.v@.len() == 0, //@
                AdmissionResult::Rejected { skipped_nodes } => skipped_nodes.v@.len() == 0, //@
            }, //@
    {
        const MAX_CONSECUTIVE_RETRIES: usize = 5;
        let mut retries = 0;

        let mut victims = EntrySizeAndFrequency::default();
        let mut victim_nodes = SmallVec::default();
        let mut skipped_nodes = SmallVec::default();

        // Get first potential victim at the LRU position.
        let mut next_victim = deqs.probation.peek_front_ptr();

        // Aggregate potential victims.
        proof { axiom_frozen(&deqs.probation); } //@
        while victims.policy_weight < candidate.policy_weight
            invariant //@
                candidate.policy_weight <= u32::MAX, candidate.freq <= 15, //@
                0 <= victim_nodes.v@.len() <= deqs.probation@.len(), skipped_nodes.v@.len() == 0, retries == 0, //@
                ptr_ids(victim_nodes.v@) == deqs.probation@.take(victim_nodes.v@.len() as int).map_values(|x: N| x.id), //@ [C12]
                match next_victim { Some(q) => victim_nodes.v@.len() < deqs.probation@.len() && nid(q) == deqs.probation@[victim_nodes.v@.len() as int].id, None => victim_nodes.v@.len() == deqs.probation@.len() }, //@
                victims.policy_weight == wsum(deqs.probation@.take(victim_nodes.v@.len() as int), cache@), //@ [C13,C04]
                victims.freq == fsum(deqs.probation@.take(victim_nodes.v@.len() as int), *freq), //@ [C13]
                victims.freq <= 30, //@
                victim_nodes.v@.len() > 0 ==> wsum(deqs.probation@.take(victim_nodes.v@.len() - 1), cache@) < candidate.policy_weight, //@ [C12,C13]
                forall|i: int| 0 <= i < deqs.probation@.len() ==> cache@.contains_key(#[trigger] deqs.probation@[i].key), //@
                frozen::<K>(deqs.probation@), //@
            ensures //@
                victims.policy_weight >= candidate.policy_weight || candidate.freq <= victims.freq || victim_nodes.v@.len() == deqs.probation@.len(), //@ [C13]
            decreases deqs.probation@.len() - victim_nodes.v@.len(), //@ [C08]
        {
            if candidate.freq < victims.freq {
                break;
            }
            if let Some(victim) = next_victim.take() {
                next_victim = DeqNode::next_node_ptr(victim);
                let vic_elem = &unsafe { victim.as_ref() }.element;

                if let Some(vic_entry) = cache.get(vic_elem.key()) {
                    victims.add_policy_weight(vic_entry.policy_weight());
                    victims.add_frequency(freq, vic_elem.hash());
                    victim_nodes.push(victim);
                    retries = 0;
                    proof { //@
                        let n = victim_nodes.v@.len() as int; //@
                        let p = deqs.probation@; //@
                        assert(p.take(n).drop_last() =~= p.take(n - 1)); //@
                        assert(p.take(n).last() == p[n - 1]); //@
                        assert forall|i: int| 0 <= i < n implies ptr_ids(victim_nodes.v@)[i] == p.take(n).map_values(|x: N| x.id)[i] by { //@
                            if i < n - 1 { //@
                                assert(ptr_ids(victim_nodes.v@)[i] == ptr_ids(victim_nodes.v@.drop_last())[i]); //@
                                assert(p.take(n - 1).map_values(|x: N| x.id)[i] == p[i].id); //@
                            } //@
                        } //@
                        assert(ptr_ids(victim_nodes.v@) =~= p.take(n).map_values(|x: N| x.id)); //@
                    } //@
                } else {
                    // Could not get the victim from the cache (hash map). Skip this node
                    // as its ValueEntry might have been invalidated.
                    skipped_nodes.push(victim);

                    retries += 1;
                    if retries > MAX_CONSECUTIVE_RETRIES {
                        break;
                    }
                }
            } else {
                // No more potential victims.
                break;
            }
        }

        // Admit or reject the candidate.

        // TODO: Implement some randomness to mitigate hash DoS attack.
        // See Caffeine's implementation.

        proof { //@
            let p = deqs.probation@; let m = cache@; let n = victim_nodes.v@.len() as int; let cw = candidate.policy_weight as int; //@
            assert forall|i: int| 0 <= i < n implies wsum(#[trigger] p.take(i), m) < cw by { lemma_wsum_take_mono(p, m, i, n - 1); } //@
            lemma_least_prefix(p, m, cw, 0); //@
            if victims.policy_weight >= candidate.policy_weight { //@
                assert(least_prefix(p, m, cw, 0) == Some(n)) by { //@
                    let l = least_prefix(p, m, cw, 0); //@
                    if l is Some { let ln = l.unwrap(); if ln < n { } else if ln > n { assert(wsum(p.take(n), m) < cw); } } //@
                } //@
            } else { //@
                match least_prefix(p, m, cw, 0) { //@
                    Some(ln) => { //@
                        if ln <= n { lemma_wsum_take_mono(p, m, ln, n); } //@
                        lemma_fsum_take_mono(p, *freq, n, ln); //@
                        if n == p.len() { lemma_wsum_take_mono(p, m, ln, n); } //@
                    }, //@
                    None => {}, //@
                } //@
            } //@
        } //@
        if victims.policy_weight >= candidate.policy_weight && candidate.freq > victims.freq {
            AdmissionResult::Admitted {
                victim_nodes,
                skipped_nodes,
            }
        } else {
            AdmissionResult::Rejected { skipped_nodes }
        }
    }
//@@ END
}
} // mod code

pub mod canary {
use vstd::prelude::*;
use super::env::*;
broadcast use {axiom_kid_arc, axiom_ptr_reads};
pub proof fn verif_canary_sync_admit<K>(d: &Deque<KeyHashDate<K>>) ensures false { axiom_frozen(d); }
}
}
fn main() {}
