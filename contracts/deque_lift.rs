// Lemma unit (no code of /repo is extracted here): the LIFT from the local-window pointer contracts of `src/common/deque.rs`,
// which the Kani harnesses `window_unlink`, `window_push_back`, `window_move_to_back`, `window_pop_front` prove on the real
// unsafe code for one operation on a list of any length, to the SEQUENCE contracts (`remove(i)`, `push(y)`,
// `moved_to_back(i)`, `skip(1)`) that the Verus units assume for `Deque`. Until this unit existed the step was an unchecked
// meta-argument. What is proved: for every doubly linked heap `l` that represents a sequence `s` of distinct node ids, any
// post-heap `l2` that satisfies the window contract of an operation (exactly the facts the Kani harness asserts, plus its frame:
// nodes outside the window are not written -- in the harness their pointers dangle and are never dereferenced) represents the
// corresponding sequence. What stays unchecked: that the `window_*` predicates below say what the harness assertions say
// (they are written side by side with them), and the bounded part of the list layer (operation sequences with the cursor).
use vstd::prelude::*;
verus! {
pub mod lift {
use vstd::prelude::*;

/// the pointer part of a `Deque` and of its nodes: `next` / `prev` of every allocated node, `head`, `tail`, `len`
pub struct Links { pub next: Map<int, Option<int>>, pub prev: Map<int, Option<int>>, pub head: Option<int>, pub tail: Option<int>, pub len: int }

pub open spec fn distinct(s: Seq<int>) -> bool { forall|i: int, j: int| 0 <= i < j < s.len() ==> s[i] != s[j] }

pub open spec fn nxt(s: Seq<int>, i: int) -> Option<int> { if i + 1 < s.len() { Some(s[i + 1]) } else { None::<int> } }
pub open spec fn prv(s: Seq<int>, i: int) -> Option<int> { if i > 0 { Some(s[i - 1]) } else { None::<int> } }
/// node number i of `s` is allocated and points to its neighbours in `s`
pub open spec fn node_ok(l: Links, s: Seq<int>, i: int) -> bool {
    l.next.contains_key(s[i]) && l.prev.contains_key(s[i]) && l.next[s[i]] == nxt(s, i) && l.prev[s[i]] == prv(s, i)
}
/// `l` is the doubly linked list whose nodes are, front to back, `s`
pub open spec fn rep(l: Links, s: Seq<int>) -> bool {
    &&& distinct(s)
    &&& l.len == s.len()
    &&& l.head == (if s.len() > 0 { Some(s[0]) } else { None::<int> })
    &&& l.tail == (if s.len() > 0 { Some(s[s.len() - 1]) } else { None::<int> })
    &&& forall|i: int| 0 <= i < s.len() ==> #[trigger] node_ok(l, s, i)
}

pub open spec fn untouched(l: Links, l2: Links, a: int) -> bool {
    l2.next.contains_key(a) && l2.prev.contains_key(a) && l2.next[a] == l.next[a] && l2.prev[a] == l.prev[a]
}
/// nodes other than the (up to four) nodes of the window keep their pointers: the frame of a window harness
pub open spec fn frame(l: Links, l2: Links, w1: Option<int>, w2: Option<int>, w3: Option<int>, w4: Option<int>) -> bool {
    forall|a: int| l.next.contains_key(a) && Some(a) != w1 && Some(a) != w2 && Some(a) != w3 && Some(a) != w4 ==> #[trigger] untouched(l, l2, a)
}

// ---------------------------------------------------------------------------------------------------------------------------
// unlink(x)   -- harness `window_unlink`: P <-> X <-> N with symbolic presence of P and N
// ---------------------------------------------------------------------------------------------------------------------------
pub open spec fn window_unlink(l: Links, l2: Links, x: int) -> bool {
    let p = l.prev[x]; let n = l.next[x];
    &&& l2.next.contains_key(x) && l2.prev.contains_key(x)
    // assert!(x.prev.is_none() && x.next.is_none())
    &&& l2.next[x].is_none() && l2.prev[x].is_none()
    // if has_p { assert!(p.next == if has_n { Some(n) } else { None }); assert!(p.prev == <unchanged>) }
    &&& (p.is_some() ==> l2.next.contains_key(p.unwrap()) && l2.prev.contains_key(p.unwrap()) && l2.next[p.unwrap()] == n && l2.prev[p.unwrap()] == l.prev[p.unwrap()])
    // if has_n { assert!(n.prev == if has_p { Some(p) } else { None }); assert!(n.next == <unchanged>) }
    &&& (n.is_some() ==> l2.next.contains_key(n.unwrap()) && l2.prev.contains_key(n.unwrap()) && l2.prev[n.unwrap()] == p && l2.next[n.unwrap()] == l.next[n.unwrap()])
    // assert!(d.head == if !has_p { n-or-None } else { head }); assert!(d.tail == if !has_n { p-or-None } else { tail })
    &&& l2.head == (if p.is_none() { n } else { l.head })
    &&& l2.tail == (if n.is_none() { p } else { l.tail })
    // assert!(d.len == len - 1)
    &&& l2.len == l.len - 1
    &&& frame(l, l2, Some(x), p, n, None)
}

pub proof fn lemma_lift_unlink(l: Links, l2: Links, s: Seq<int>, i: int)
    requires rep(l, s), 0 <= i < s.len(), window_unlink(l, l2, s[i]),
    ensures rep(l2, s.remove(i)),
{
    let x = s[i]; let t = s.remove(i); let m = s.len();
    assert(node_ok(l, s, i));
    let p = l.prev[x]; let n = l.next[x];
    assert(p == prv(s, i) && n == nxt(s, i));
    assert(distinct(t)) by {
        assert forall|a: int, b: int| 0 <= a < b < t.len() implies t[a] != t[b] by {
            let a2 = if a < i { a } else { a + 1 }; let b2 = if b < i { b } else { b + 1 };
            assert(s[a2] != s[b2]);
        }
    }
    assert forall|a: int| 0 <= a < t.len() implies #[trigger] node_ok(l2, t, a) by {
        let a2 = if a < i { a } else { a + 1 };
        let y = s[a2];
        assert(t[a] == y);
        assert(node_ok(l, s, a2));
        assert(y != x) by { if a2 < i { assert(s[a2] != s[i]); } else { assert(s[i] != s[a2]); } }
        if a + 1 < t.len() { assert(t[a + 1] == (if a + 1 < i { s[a + 1] } else { s[a + 2] })); }
        if a > 0 { assert(t[a - 1] == (if a - 1 < i { s[a - 1] } else { s[a] })); }
        if a2 == i - 1 {
            assert(p == Some(y));
        } else if a2 == i + 1 {
            assert(n == Some(y));
        } else {
            if i > 0 { assert(s[i - 1] != y) by { if a2 < i - 1 { assert(s[a2] != s[i - 1]); } else { assert(s[i - 1] != s[a2]); } } }
            if i + 1 < m { assert(s[i + 1] != y) by { if a2 < i + 1 { assert(s[a2] != s[i + 1]); } else { assert(s[i + 1] != s[a2]); } } }
            assert(untouched(l, l2, y));
        }
    }
    if t.len() > 0 {
        if i == 0 { assert(t[0] == s[1]); } else { assert(t[0] == s[0]); }
        if i == m - 1 { assert(t[t.len() - 1] == s[m - 2]); } else { assert(t[t.len() - 1] == s[m - 1]); }
    }
}

// ---------------------------------------------------------------------------------------------------------------------------
// pop_front() -- harness `window_pop_front`: the head H (and its successor N, if any)
// ---------------------------------------------------------------------------------------------------------------------------
pub open spec fn window_pop_front(l: Links, l2: Links) -> bool {
    match l.head {
        None => l2 == l,
        Some(h) => {
            let n = l.next[h];
            &&& l2.head == n
            &&& (n.is_some() ==> l2.next.contains_key(n.unwrap()) && l2.prev.contains_key(n.unwrap()) && l2.prev[n.unwrap()].is_none() && l2.next[n.unwrap()] == l.next[n.unwrap()])
            &&& l2.tail == (if n.is_none() { None::<int> } else { l.tail })
            &&& l2.len == l.len - 1
            &&& frame(l, l2, Some(h), n, None, None)
        }
    }
}

pub proof fn lemma_lift_pop_front(l: Links, l2: Links, s: Seq<int>)
    requires rep(l, s), window_pop_front(l, l2),
    ensures s.len() == 0 ==> l2 == l, s.len() > 0 ==> rep(l2, s.skip(1)),
{
    if s.len() > 0 {
        let h = s[0]; let t = s.skip(1);
        assert(node_ok(l, s, 0));
        let n = l.next[h];
        assert(n == nxt(s, 0));
        assert(distinct(t)) by { assert forall|a: int, b: int| 0 <= a < b < t.len() implies t[a] != t[b] by { assert(s[a + 1] != s[b + 1]); } }
        assert forall|a: int| 0 <= a < t.len() implies #[trigger] node_ok(l2, t, a) by {
            let y = s[a + 1];
            assert(t[a] == y);
            assert(node_ok(l, s, a + 1));
            assert(s[0] != s[a + 1]);
            if a + 1 < t.len() { assert(t[a + 1] == s[a + 2]); }
            if a > 0 { assert(t[a - 1] == s[a]); }
            if a == 0 { assert(n == Some(y)); } else {
                assert(s[1] != s[a + 1]);
                assert(untouched(l, l2, y));
            }
        }
        if t.len() > 0 { assert(t[0] == s[1]); assert(t[t.len() - 1] == s[s.len() - 1]); }
    }
}

// ---------------------------------------------------------------------------------------------------------------------------
// push_back(y) -- harness `window_push_back`: the old tail T (if any) and the new node Y
// ---------------------------------------------------------------------------------------------------------------------------
pub open spec fn window_push_back(l: Links, l2: Links, y: int) -> bool {
    &&& l2.next.contains_key(y) && l2.prev.contains_key(y)
    &&& l2.next[y].is_none() && l2.prev[y] == l.tail
    &&& (l.tail.is_some() ==> l2.next.contains_key(l.tail.unwrap()) && l2.prev.contains_key(l.tail.unwrap()) && l2.next[l.tail.unwrap()] == Some(y) && l2.prev[l.tail.unwrap()] == l.prev[l.tail.unwrap()])
    &&& l2.tail == Some(y)
    &&& l2.head == (if l.tail.is_none() { Some(y) } else { l.head })
    &&& l2.len == l.len + 1
    &&& frame(l, l2, Some(y), l.tail, None, None)
}

pub proof fn lemma_lift_push_back(l: Links, l2: Links, s: Seq<int>, y: int)
    requires rep(l, s), window_push_back(l, l2, y), forall|i: int| 0 <= i < s.len() ==> s[i] != y,
    ensures rep(l2, s.push(y)),
{
    let t = s.push(y); let m = s.len();
    assert(distinct(t)) by {
        assert forall|a: int, b: int| 0 <= a < b < t.len() implies t[a] != t[b] by {
            if b < m { assert(s[a] != s[b]); } else { assert(s[a] != y); }
        }
    }
    assert forall|a: int| 0 <= a < t.len() implies #[trigger] node_ok(l2, t, a) by {
        if a == m {
            assert(t[a] == y);
            if m > 0 { assert(t[a - 1] == s[m - 1]); }
        } else {
            assert(t[a] == s[a]);
            assert(node_ok(l, s, a));
            assert(s[a] != y);
            if a + 1 < t.len() { assert(t[a + 1] == (if a + 1 < m { s[a + 1] } else { y })); }
            if a > 0 { assert(t[a - 1] == s[a - 1]); }
            if a == m - 1 { assert(l.tail == Some(s[a])); } else {
                assert(s[a] != s[m - 1]);
                assert(untouched(l, l2, s[a]));
            }
        }
    }
    assert(t[t.len() - 1] == y);
    if m > 0 { assert(t[0] == s[0]); }
}

// ---------------------------------------------------------------------------------------------------------------------------
// move_to_back(x) -- harness `window_move_to_back`: P <-> X <-> N ... T (three shapes: X is tail / N is tail / N .. T)
// ---------------------------------------------------------------------------------------------------------------------------
pub open spec fn window_move_to_back(l: Links, l2: Links, x: int) -> bool {
    let p = l.prev[x]; let n = l.next[x];
    if n.is_none() {
        // shape 0: assert!(d.tail == Some(x)); x.next none; x.prev, head, len unchanged: nothing moves
        l2 == l
    } else {
        let t = l.tail.unwrap(); let nn = n.unwrap();
        &&& l2.next.contains_key(x) && l2.prev.contains_key(x) && l2.next.contains_key(t) && l2.prev.contains_key(t) && l2.next.contains_key(nn) && l2.prev.contains_key(nn)
        // assert!(d.tail == Some(x)); assert!(x.next.is_none()); assert!(d.len == len)
        &&& l2.tail == Some(x) && l2.next[x].is_none() && l2.len == l.len
        // assert!(x.prev == Some(tail)); assert!(tail.next == Some(x))
        &&& l2.prev[x] == Some(t) && l2.next[t] == Some(x)
        // assert!(n.prev == if has_p { Some(p) } else { None })
        &&& l2.prev[nn] == p
        // if has_p { assert!(p.next == Some(n)); assert!(d.head == Some(head)); assert!(p.prev unchanged) } else { assert!(d.head == Some(n)) }
        &&& (p.is_some() ==> l2.next.contains_key(p.unwrap()) && l2.prev.contains_key(p.unwrap()) && l2.next[p.unwrap()] == n && l2.prev[p.unwrap()] == l.prev[p.unwrap()])
        &&& l2.head == (if p.is_some() { l.head } else { n })
        // shape 1 (N is the tail): n.next is the new link to x; shape 2: assert!(n.next == Some(far_m)); assert!(t.prev == Some(far_m))
        &&& (nn != t ==> l2.next[nn] == l.next[nn] && l2.prev[t] == l.prev[t])
        &&& frame(l, l2, Some(x), l.tail, n, p)
    }
}

pub proof fn lemma_lift_move_to_back(l: Links, l2: Links, s: Seq<int>, i: int)
    requires rep(l, s), 0 <= i < s.len(), window_move_to_back(l, l2, s[i]),
    ensures rep(l2, s.remove(i).push(s[i])),
{
    let x = s[i]; let m = s.len();
    let t = s.remove(i).push(x);
    assert(node_ok(l, s, i));
    let n = l.next[x]; let p = l.prev[x];
    assert(n == nxt(s, i) && p == prv(s, i));
    if i == m - 1 {
        assert(t =~= s);
    } else {
        let last = s[m - 1];
        assert(l.tail == Some(last));
        assert(t.len() == m);
        assert(distinct(t)) by {
            assert forall|a: int, b: int| 0 <= a < b < t.len() implies t[a] != t[b] by {
                let a2 = if a < i { a } else { a + 1 };
                assert(t[a] == s[a2]);
                if b < m - 1 { let b2 = if b < i { b } else { b + 1 }; assert(t[b] == s[b2]); assert(s[a2] != s[b2]); }
                else { assert(t[b] == x); if a2 < i { assert(s[a2] != s[i]); } else { assert(s[i] != s[a2]); } }
            }
        }
        assert forall|a: int| 0 <= a < t.len() implies #[trigger] node_ok(l2, t, a) by {
            if a == m - 1 {
                assert(t[a] == x);
                assert(t[a - 1] == last);
            } else {
                let a2 = if a < i { a } else { a + 1 };
                let y = s[a2];
                assert(t[a] == y);
                assert(node_ok(l, s, a2));
                assert(y != x) by { if a2 < i { assert(s[a2] != s[i]); } else { assert(s[i] != s[a2]); } }
                if a + 1 < m - 1 { assert(t[a + 1] == (if a + 1 < i { s[a + 1] } else { s[a + 2] })); } else { assert(t[a + 1] == x); }
                if a > 0 { assert(t[a - 1] == (if a - 1 < i { s[a - 1] } else { s[a] })); }
                let is_p = a2 == i - 1; let is_n = a2 == i + 1; let is_t = a2 == m - 1;
                if !is_p && i > 0 { assert(s[i - 1] != y) by { if a2 < i - 1 { assert(s[a2] != s[i - 1]); } else { assert(s[i - 1] != s[a2]); } } }
                if !is_n { assert(s[i + 1] != y) by { if a2 < i + 1 { assert(s[a2] != s[i + 1]); } else { assert(s[i + 1] != s[a2]); } } }
                if !is_t { assert(last != y) by { assert(s[a2] != s[m - 1]); } }
                if !is_p && !is_n && !is_t { assert(untouched(l, l2, y)); }
                if is_p && !is_t { }
                if is_n && !is_t { assert(s[i + 1] != s[m - 1]); }
                if is_t && !is_n { assert(s[i + 1] != s[m - 1]); }
                if is_p { assert(p == Some(y)); assert(s[i - 1] != s[m - 1]); assert(s[i - 1] != s[i + 1]); }
            }
        }
        assert(t[t.len() - 1] == x);
        if i == 0 { assert(t[0] == s[1]); } else { assert(t[0] == s[0]); }
    }
}
} // mod lift

pub mod canary {
use vstd::prelude::*;
pub proof fn verif_canary_deque_lift() ensures false {}
}
}
fn main() {}
