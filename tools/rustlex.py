#!/usr/bin/env python3
"""Small Rust lexer + item locator used by the extractor.

Only what the extractor needs: a faithful token stream (comments and whitespace dropped, but
remembered per token as line numbers), nested block comments, raw strings, char literals vs
lifetimes, and a brace-depth walk that finds `impl` blocks, `fn` items, `struct`/`enum` items,
`static`/`const` items.
"""
import re
from dataclasses import dataclass

_OPS = [
    '<==>', '=~~=', '==>', '<==', '=~=', '===', '!==', '&&&', '|||',   # Verus spec operators (mirrors only)
    '<<=', '>>=', '...', '..=',
    '::', '->', '=>', '==', '!=', '<=', '>=', '&&', '||', '<<', '>>',
    '+=', '-=', '*=', '/=', '%=', '|=', '&=', '^=', '..',
]


@dataclass
class Tok:
    text: str
    line: int       # 1-based line in the lexed text
    kind: str       # id, num, str, chr, life, op
    ann: bool = False   # True when the token belongs to an inserted annotation (mirrors only)
    pos: int = 0    # byte offset in the lexed text
    end: int = 0


class LexError(Exception):
    pass


_ID = re.compile(r'(?:r#)?[A-Za-z_][A-Za-z0-9_]*')
_NUM = re.compile(r'[0-9][0-9A-Za-z_]*(?:\.[0-9][0-9A-Za-z_]*)?')
_RAWSTR = re.compile(r'b?r(#*)"')
_CHR = re.compile(r"b?'(?:\\(?:x[0-9a-fA-F]{2}|u\{[0-9a-fA-F_]+\}|.)|[^'\\\n])'")
_LIFE = re.compile(r"'[A-Za-z_][A-Za-z0-9_]*")

ANN_ON = '/*@+*/'
ANN_OFF = '/*@-*/'


def lex(text, markers=False):
    """Tokenise `text`. With markers=True the mirror markers are interpreted:
    `/*@+*/ .. /*@-*/` (may span lines) and whole lines ending in `//@` (optionally followed by a
    tag list `[C01,C02]`) are flagged `ann=True`."""
    toks = []
    i, n, line = 0, len(text), 1
    ann = False
    line_ann = set()
    if markers:
        for ln, l in enumerate(text.split('\n'), 1):
            if re.search(r'//@(\s*\[[^\]]*\])?\s*$', l) and not l.rstrip().endswith('//@@'):
                line_ann.add(ln)
    while i < n:
        c = text[i]
        if c == '\n':
            line += 1; i += 1; continue
        if c in ' \t\r':
            i += 1; continue
        if text.startswith('//', i):
            j = text.find('\n', i)
            i = n if j < 0 else j
            continue
        if text.startswith('/*', i):
            if markers and text.startswith(ANN_ON, i):
                ann = True; i += len(ANN_ON); continue
            if markers and text.startswith(ANN_OFF, i):
                ann = False; i += len(ANN_OFF); continue
            depth, j = 1, i + 2
            while j < n and depth:
                if text.startswith('/*', j): depth += 1; j += 2
                elif text.startswith('*/', j): depth -= 1; j += 2
                else:
                    if text[j] == '\n': line += 1
                    j += 1
            if depth: raise LexError('unterminated block comment at line %d' % line)
            i = j; continue
        start, sline = i, line
        m = _RAWSTR.match(text, i)
        if m:
            close = '"' + m.group(1)
            j = text.find(close, m.end())
            if j < 0: raise LexError('unterminated raw string at line %d' % line)
            j += len(close)
            line += text.count('\n', i, j)
            kind = 'str'
        elif c == '"' or (c == 'b' and text.startswith('b"', i)):
            j = i + (2 if c == 'b' else 1)
            while j < n and text[j] != '"':
                if text[j] == '\\': j += 1
                if j < n and text[j] == '\n': line += 1
                j += 1
            if j >= n: raise LexError('unterminated string at line %d' % sline)
            j += 1; kind = 'str'
        elif c == "'" or (c == 'b' and text.startswith("b'", i)):
            m = _CHR.match(text, i)
            if m: j = m.end(); kind = 'chr'
            else:
                m = _LIFE.match(text, i)
                if not m: raise LexError('bad quote at line %d' % line)
                j = m.end(); kind = 'life'
        elif c.isalpha() or c == '_':
            m = _ID.match(text, i); j = m.end(); kind = 'id'
        elif c.isdigit():
            # `0..4` lexes as `0` `..` `4` because a fraction needs a digit right after the dot
            m = _NUM.match(text, i); j = m.end(); kind = 'num'
        else:
            for op in _OPS:
                if text.startswith(op, i):
                    j = i + len(op); break
            else:
                j = i + 1
            kind = 'op'
        toks.append(Tok(text[start:j], sline, kind, ann or (sline in line_ann), start, j))
        i = j
    return toks


def texts(toks):
    return [t.text for t in toks]


def match_close(toks, i):
    """index of the token closing the bracket opened at toks[i]"""
    opens = {'(': ')', '[': ']', '{': '}'}
    o = toks[i].text; c = opens[o]
    d = 0
    for j in range(i, len(toks)):
        if toks[j].text == o: d += 1
        elif toks[j].text == c:
            d -= 1
            if d == 0: return j
    raise LexError('unbalanced %s at line %d' % (o, toks[i].line))


def skip_generics(toks, i):
    """toks[i] == '<' : return the index after the matching '>' (handles `>>`, `->` inside Fn types)"""
    d = 0
    j = i
    while j < len(toks):
        t = toks[j].text
        if t == '<': d += 1
        elif t == '<<': d += 2
        elif t == '>': d -= 1
        elif t == '>>': d -= 2
        elif t in ('(', '[', '{'): j = match_close(toks, j)
        if d <= 0: return j + 1
        j += 1
    raise LexError('unbalanced generics')


@dataclass
class Item:
    kind: str        # fn, struct, enum, static, const, type
    name: str
    owner: str       # self type of the enclosing impl ("Trait for Type" for trait impls), '-' for free items
    start: int       # token index of the item's keyword (`fn`, `struct`, ...) -- qualifiers before it are not part of the item
    end: int         # token index one past the item's last token
    head: int        # token index of the first qualifier (`pub`, `const`, `unsafe` ..) or == start
    cfg_test: bool = False
    owner_full: str = ''   # the same with generic arguments kept, no blanks ("AccessTime for DeqNode<KeyDate<K>>" -> "AccessTimeforDeqNode<KeyDate<K>>")


def _impl_owner(toks, i):
    """toks[i] == 'impl'. Return (owner string, index of the body's '{')."""
    j = i + 1
    if toks[j].text == '<': j = skip_generics(toks, j)
    hdr = []
    full = []
    d = 0
    while True:
        t = toks[j].text
        if t == '{' and d == 0: break
        if t == 'where' and d == 0:
            # skip to body
            while toks[j].text != '{': j += 1
            break
        if t == '<':
            j2 = skip_generics(toks, j); full += [x.text for x in toks[j:j2]]; j = j2; continue   # drop generic arguments from the owner key
        if t == '(' : j = match_close(toks, j) + 1; continue
        hdr.append(t); full.append(t); j += 1
    return ' '.join(hdr), j, ''.join(full)


def items(toks):
    """Walk the token stream and return all items (nested modules and impl blocks included)."""
    out = []

    def attrs_before(k):
        """collect attribute texts immediately preceding token index k (walking back over qualifiers)"""
        res = []
        j = k - 1
        while j >= 0:
            if toks[j].text == ']':
                # find matching '['
                d = 0; m = j
                while m >= 0:
                    if toks[m].text == ']': d += 1
                    elif toks[m].text == '[':
                        d -= 1
                        if d == 0: break
                    m -= 1
                if m >= 1 and toks[m - 1].text == '#':
                    res.append(' '.join(texts(toks[m - 1:j + 1]))); j = m - 2; continue
                if m >= 2 and toks[m - 1].text == '!' and toks[m - 2].text == '#':
                    j = m - 3; continue
            break
        return res

    def head_of(k):
        """walk back from the item keyword over qualifiers: pub, pub(..), const, unsafe, async, extern "C", default"""
        j = k
        while j > 0:
            p = toks[j - 1].text
            if p in ('pub', 'const', 'unsafe', 'async', 'default', 'extern'): j -= 1; continue
            if toks[j - 1].kind == 'str' and j >= 2 and toks[j - 2].text == 'extern': j -= 2; continue
            if p == ')' :
                # pub(crate) / pub(super) / pub(in path)
                m = j - 1; d = 0
                while m >= 0:
                    if toks[m].text == ')': d += 1
                    elif toks[m].text == '(':
                        d -= 1
                        if d == 0: break
                    m -= 1
                if m >= 1 and toks[m - 1].text == 'pub': j = m - 1; continue
            break
        return j

    def walk(lo, hi, owner, in_test):
        i = lo
        while i < hi:
            t = toks[i]
            if t.text == 'impl' and t.kind == 'id' and (i == 0 or toks[i - 1].text not in ('&', ':', '->', '(', ',', '<', '=', '+', 'dyn')):
                own, b, full = _impl_owner(toks, i)
                e = match_close(toks, b)
                test = in_test or any('cfg ( test )' in a for a in attrs_before(head_of(i)))
                n0 = len(out)
                walk(b + 1, e, own, test)
                for it in out[n0:]:
                    if not it.owner_full: it.owner_full = full
                i = e + 1; continue
            if t.text in ('mod', 'trait') and t.kind == 'id' and i + 2 < hi and toks[i + 1].kind == 'id':
                j = i + 2
                while j < hi and toks[j].text not in ('{', ';'): j += 1
                if j < hi and toks[j].text == '{':
                    e = match_close(toks, j)
                    test = in_test or any('cfg ( test )' in a for a in attrs_before(head_of(i)))
                    walk(j + 1, e, owner if t.text == 'mod' else toks[i + 1].text, test)
                    i = e + 1; continue
                i = j + 1; continue
            if t.text == 'fn' and t.kind == 'id' and i + 1 < hi and toks[i + 1].kind == 'id':
                name = toks[i + 1].text
                j = i + 2
                while j < hi and toks[j].text not in ('{', ';'):
                    if toks[j].text in ('(', '['): j = match_close(toks, j)
                    j += 1
                h = head_of(i)
                test = in_test or any('cfg ( test )' in a for a in attrs_before(h))
                if j < hi and toks[j].text == '{':
                    e = match_close(toks, j)
                    out.append(Item('fn', name, owner, i, e + 1, h, test))
                    i = e + 1; continue
                out.append(Item('fn', name, owner, i, j + 1, h, test))
                i = j + 1; continue
            if t.text in ('struct', 'enum', 'union') and t.kind == 'id' and i + 1 < hi and toks[i + 1].kind == 'id':
                name = toks[i + 1].text
                j = i + 2
                while j < hi and toks[j].text not in ('{', ';'):
                    if toks[j].text == '(': j = match_close(toks, j)
                    j += 1
                e = match_close(toks, j) if toks[j].text == '{' else j
                out.append(Item(t.text, name, owner, i, e + 1, head_of(i), in_test))
                i = e + 1; continue
            if t.text in ('static', 'const', 'type') and t.kind == 'id' and i + 2 < hi and toks[i + 1].kind == 'id' \
                    and toks[i + 2].text in (':', '=', '<') and toks[i + 1].text != 'fn':
                name = toks[i + 1].text
                j = i + 2
                while j < hi and toks[j].text != ';':
                    if toks[j].text in ('(', '[', '{'): j = match_close(toks, j)
                    j += 1
                out.append(Item(t.text, name, owner, i, j + 1, head_of(i), in_test))
                i = j + 1; continue
            if t.text == '{':
                # some other braced thing at item level (macro body, etc.): skip it
                i = match_close(toks, i) + 1; continue
            i += 1

    walk(0, len(toks), '-', False)
    return out


def find_item(toks, kind, owner, name, all_items=None):
    its = all_items if all_items is not None else items(toks)
    if '<' in owner:
        # an owner written with its generic arguments selects among impls of the same trait for different instances of a type
        key = owner.replace(' ', '')
        return [it for it in its if it.kind == kind and it.name == name and it.owner_full == key and not it.cfg_test]
    c = [it for it in its if it.kind == kind and it.name == name and (owner == '*' or it.owner == owner) and not it.cfg_test]
    return c
