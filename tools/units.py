"""Registry of verification units: which contract template / Kani harness file serves which property."""

VERUS_UNITS = {
    # name: template, properties served, rlimit
    'sketch': dict(template='contracts/sketch.rs', props=['C14', 'C08', 'C13'], rlimit=30),
    'unsync': dict(template='contracts/unsync.rs', props=['C01', 'C03', 'C04', 'C05', 'C06', 'C07', 'C08', 'C10', 'C11', 'C12', 'C13', 'C14', 'C15', 'C17'], rlimit=50),
}

# Kani harness groups: `file` is appended (as a child module) to `module` of a scratch copy of /repo.
KANI_UNITS = {
}

PROPERTIES = ['C01', 'C02', 'C03', 'C04', 'C05', 'C06', 'C07', 'C08', 'C09', 'C10', 'C11', 'C12', 'C13', 'C14', 'C15', 'C16', 'C17']

# level reported in the evidence file per property
LEVEL = {p: 'proof' for p in PROPERTIES}
LEVEL['C11'] = 'other'

TRUSTED_BASE = [
    'Verus 0.2026.09.13 (VIR/AIR encoding), Z3, rustc front end',
    'tools/extract.py + tools/rustlex.py: item location, declared rewrites, token-level re-anchoring (self-check: stripping marked insertions gives back the current source tokens)',
    'tag mapping in tools/check.py (failed obligation -> property)',
]

NOTES = {}
