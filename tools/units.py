"""Registry of verification units: which contract template / Kani harness file serves which property."""

VERUS_UNITS = {
    # name: template, properties served, rlimit
    'sketch': dict(template='contracts/sketch.rs', props=['C14', 'C08', 'C13'], rlimit=30),
    'config': dict(template='contracts/config.rs', props=['C17', 'C05', 'C06', 'C08'], rlimit=30),
    'sync_admit': dict(template='contracts/sync_admit.rs', props=['C12', 'C13', 'C04', 'C08'], rlimit=30),
    'deque_lift': dict(template='contracts/deque_lift.rs', props=['C08', 'C11', 'C12'], rlimit=30),
    'sync_maint': dict(template='contracts/sync_maint.rs', props=['C03', 'C04', 'C05', 'C06', 'C07', 'C08', 'C10', 'C11', 'C12', 'C13', 'C14', 'C15'], rlimit=50),
    'sync': dict(template='contracts/sync.rs', props=['C01', 'C03', 'C04', 'C05', 'C06', 'C07', 'C08', 'C10', 'C11', 'C12', 'C14', 'C15', 'C17'], rlimit=30),
    'udeques': dict(template='contracts/udeques.rs', props=['C01', 'C03', 'C05', 'C07', 'C08', 'C10', 'C11', 'C12', 'C13', 'C17'], rlimit=30),
    'unsync': dict(template='contracts/unsync.rs', props=['C01', 'C03', 'C04', 'C05', 'C06', 'C07', 'C08', 'C10', 'C11', 'C12', 'C13', 'C14', 'C15', 'C17'], rlimit=50),
}

# Kani harness groups: `file` is appended (as a child module) to `module` of a scratch copy of /repo.
KANI_UNITS = {
    'kani': dict(
        props=['C03', 'C04', 'C05', 'C06', 'C07', 'C08', 'C10', 'C11', 'C12', 'C14', 'C17'],
        attach={'src/common/deque.rs': 'kani/deque.rs', 'src/unsync/deques.rs': 'kani/unsync_deques.rs', 'src/unsync/cache.rs': 'kani/unsync_cache.rs',
                'src/common/builder_utils.rs': 'kani/builder_utils.rs', 'src/common.rs': 'kani/common.rs', 'src/common/frequency_sketch.rs': 'kani/frequency_sketch.rs',
                'src/common/concurrent/entry_info.rs': 'kani/entry_info.rs', 'src/common/concurrent/atomic_time.rs': 'kani/atomic_time.rs',
                'src/common/concurrent/housekeeper.rs': 'kani/housekeeper.rs'},
        flags=['-Z', 'stubbing'], jobs=8,
        harnesses=[
            dict(name='window_unlink', tags=['C08', 'C11', 'C12'], function='Deque::unlink', what='local-window pointer contract of Deque::unlink (P<->X<->N, symbolic presence, dangling outer pointers, symbolic head/tail/cursor/len): complete for one operation on lists of any length'),
            dict(name='window_move_to_back', tags=['C08', 'C12'], function='Deque::move_to_back', what='local-window pointer contract of Deque::move_to_back (three list shapes): complete for one operation'),
            dict(name='window_push_back', tags=['C08', 'C11', 'C12'], function='Deque::push_back', what='local-window pointer contract of Deque::push_back (empty / tail is head / long list): complete for one operation'),
            dict(name='window_pop_front', tags=['C08', 'C11'], function='Deque::pop_front', what='local-window pointer contract of Deque::pop_front: the head is handed out as a Box exactly once: complete for one operation'),
            dict(name='window_peek', tags=['C08', 'C12', 'C05', 'C06'], function='Deque::peek_front', what='peek_front / peek_front_ptr hand out exactly the head node and touch nothing: complete for lists of every length'),
            dict(name='window_contains', tags=['C08', 'C12'], function='Deque::contains', what='contains(x) is true for a member of the list (it has a predecessor or is the head) and false for a detached node: complete (a node linked into ANOTHER list also answers true: callers select the list by the region tag first)'),
            dict(name='window_move_front_to_back', tags=['C08', 'C12'], function='Deque::move_front_to_back', what='the head node becomes the tail, an empty or one-node list is untouched (four list shapes): complete for one operation'),
            dict(name='window_drop_unlinked', tags=['C08', 'C11'], function='Deque::unlink_and_drop', what='neighbours joined as by unlink and the node released exactly once (CBMC deallocation checks): complete for one operation'),
            dict(name='node_and_list_constructors', tags=['C08', 'C17'], function='DeqNode::new', what='DeqNode::new / next_node_ptr / Deque::new / Deque::region: complete'),
            dict(name='entry_info_new_and_flags', tags=['C10', 'C12', 'C05', 'C06'], function='EntryInfo', what='sequential meaning of the bookkeeping record the Verus units assume (src/common/concurrent/entry_info.rs, atomics): a fresh record is not admitted, dirty, carries the given weight and stamps, no nodes; flag / weight setters store exactly their argument and touch nothing else: complete for one thread'),
            dict(name='entry_info_stamps', tags=['C05', 'C06'], function='EntryInfo', what='set_last_accessed / set_last_modified store exactly their argument in their own slot: complete for one thread'),
            dict(name='entry_info_node_slots', tags=['C11', 'C12'], function='EntryInfo', what='node slots (Mutex): a getter returns what the setter stored, take_* empties the slot and returns its content, unset_q_nodes empties both: complete for one thread'),
            dict(name='atomic_instant_roundtrip', tags=['C07', 'C05', 'C06'], function='AtomicInstant', what='AtomicInstant (RwLock<Option<Instant>>): default is unset, set_instant / instant / is_set / new round-trip: complete for one thread'),
            dict(name='housekeeper_full_queue_always_triggers', tags=['C04', 'C08'], function='Housekeeper::should_apply', what='a queue at its flush point triggers maintenance whatever the clock says; the read / write entry points pass on their own flush point: complete'),
            dict(name='housekeeper_try_sync_runs_one_pass', tags=['C10', 'C08'], function='Housekeeper::try_sync', what='try_sync runs exactly one maintenance pass with MAX_SYNC_REPEATS, releases its flag afterwards, and does not enter a pass that is already running: complete for one thread'),
            dict(name='entry_node_stamp_coupling', tags=['C03', 'C05', 'C06', 'C08'], function='AccessTime for ValueEntry', what='the entry <-> node stamp coupling on the real code (content of the Verus axioms axiom_stamp_ao / axiom_stamp_wo and of the assumed ValueEntry setters, src/unsync.rs): an entry stamp IS the timestamp field of the node its slot points to; what a scan reads through peek_front is what the entry getters return; no node, no stamp. One entry, symbolic stamps: complete for one entry (unwind 3 = Drop of the emptied lists, unwinding assertion on)', timeout=1500),
            dict(name='seq_3x3', tags=['C08', 'C11', 'C12'], function='Deque', bounded='3 nodes x 3 symbolic operations, unwind 10', what='operation sequences on the real list with a structural walker after every step and Drop at the end', timeout=1500),
            dict(name='deques_tagged_rc', tags=['C08', 'C11', 'C07', 'C05'], function='unsync::Deques', bounded='2 entries, 1 symbolic move, unwind 6', what='tagged-pointer region dispatch never reaches unreachable!/panic!; key clones released exactly when nodes are unlinked (Rc::strong_count)', timeout=1500),
            dict(name='weigh_defaults_to_one', tags=['C17'], function='weigh', what='weigh(None, k, v) == 1 for all k, v: complete'),
            dict(name='weigh_calls_the_weigher_once_with_the_pair', tags=['C17', 'C10'], function='weigh', what='weigh(Some(w), k, v) calls the boxed weigher exactly once with (k, v) and returns its result: complete'),
            dict(name='glue_evict_expired', tags=['C10', 'C08', 'C03', 'C04'], function='Cache::evict_expired', what='glue of evict_expired with both loop callees stubbed by recording havoc contracts: counters reduced by exactly what the callees report; scans run iff the policy is configured: complete for the glue'),
            dict(name='ensure_returns_when_within_1000_years', tags=['C17', 'C08'], function='ensure_expirations_or_panic', what='returns normally whenever both durations are <= 1000 years: complete over all Durations'),
            dict(name='ensure_panics_when_beyond_1000_years', tags=['C17', 'C08', 'C05', 'C06'], function='ensure_expirations_or_panic', should_panic=True, cover_must_be_unsat=True, what='panics on EVERY input with a duration > 1000 years (the cover after the call is unreachable): complete over all Durations'),
            dict(name='sketch_reset_halves_every_counter', tags=['C14'], function='FrequencySketch::reset', bounded='table of 2 words (contents, size and sample size symbolic)', what='an aging step floor-halves every counter of every word', timeout=1500),
            dict(name='sketch_capacity_clamps', tags=['C14', 'C08'], function='sketch_capacity', what='sketch_capacity(c) == clamp(c, 128, u32::MAX) for all u64: complete'),
            dict(name='cache_region_roundtrip', tags=['C08'], function='CacheRegion::from', what='tag <-> region bijection on 0..4: complete'),
        ]),
}

# bounded runtime stand-ins: executable form of the contracts run against the real crate (never counted as proved)
RT_UNITS = {
    'rt_unsync': dict(props=['C01', 'C03', 'C04', 'C05', 'C06', 'C07', 'C08', 'C10', 'C11', 'C12', 'C13', 'C14', 'C15', 'C17'],
                      attach={'src/unsync/cache.rs': 'rt/unsync_rt.rs'}, test='verif_rt_unsync', fn='unsync::Cache(runtime)',
                      what='runtime form of the unsync contracts executed against the real single-threaded cache after every operation (covers invalidate_entries_if, iter, evict_expired glue; live key/value objects counted)'),
    'rt_sync': dict(props=['C01', 'C03', 'C04', 'C05', 'C06', 'C07', 'C08', 'C10', 'C11', 'C12', 'C13', 'C14', 'C15', 'C17'],
                    attach={'src/sync/cache.rs': ('rt/sync_rt.rs', 'verif_rt_sync_rt', False), 'src/sync/base_cache.rs': ('rt/sync_peek.rs', 'verif_rt_sync_peek', True)},
                    test='verif_rt_sync', fn='sync::Cache(runtime)',
                    what='the CONCURRENT cache in SEQUENTIAL histories only (no interleavings): with maintenance after every operation an executable specification of operation + maintenance run is compared with the physical state; with free sync placement lookups are checked against a reference model and counters/lists against the map after every sync()'),
}

PROPERTIES = ['C01', 'C02', 'C03', 'C04', 'C05', 'C06', 'C07', 'C08', 'C09', 'C10', 'C11', 'C12', 'C13', 'C14', 'C15', 'C16', 'C17']

# level reported in the evidence file per property
LEVEL = {p: 'proof' for p in PROPERTIES}
LEVEL['C11'] = 'other'

TRUSTED_BASE = [
    'Verus 0.2026.09.13 (VIR/AIR encoding), Z3, rustc front end',
    'tools/extract.py + tools/rustlex.py: item location, declared rewrites, token-level re-anchoring (self-check: stripping marked insertions gives back the current source tokens)',
    'tag mapping in tools/check.py (failed obligation -> property)',
]

NOTES = {}

NOT_APPLICABLE = {
    'C02': 'quantifies over thread schedules of DashMap shard locks and crossbeam channels: Kani has no thread model and the code uses none of the permission types Verus needs; no function contract can express or decide it',
    'C09': 'deadlock / livelock freedom and progress of a busy-wait loop under thread schedules: a liveness property over schedules, outside function contracts (termination of the sequential loops is reported under C08)',
    'C16': 'exactly-once iteration is the contract of std HashMap / dashmap iterators (dependencies, assumed not verified) and of schedules; the only repository code on that path, the expiry filter of Iter::next / is_expired_entry, is decided under C05/C06',
}

_UNS = 'Proof level holds for the single-threaded cache (src/unsync/cache.rs, src/unsync/deques.rs). The concurrent cache mutates shared state through &self (atomics, Mutex, DashMap), which neither back end can frame: of it the following are under contract (122 functions): leaf predicates, counter arithmetic, the lookup composition, the public front end of sync/cache.rs (what each call hands on: the write record queued by an insert / invalidate), the constructor chain down to Inner::new, iteration (sync/iter.rs, sync/mapref.rs), new_value_entry(_from), the read-record and housekeeping hooks, apply_reads for arbitrary queue contents, apply_writes for one record per call, and for the quiescent state Inner::admit, Inner::handle_upsert, Inner::evict_lru_entries, both expiry scans and evict_expired, the bookkeeping steps handle_admit / handle_remove / handle_remove_with_deques with the tagged-pointer layer common/concurrent/deques.rs and the AccessTime functions of common/concurrent.rs (shared entry state read as \'what this call reads\'; writes through &self appear only as \'this value was stored\' facts; the sequential meaning of EntryInfo / AtomicInstant / Housekeeper is checked on the real code by Kani, complete for one thread); NOT under contract: Inner::sync itself, do_insert_with_hash, Inner::remove_entry, several records of one key in flight; its maintenance is exercised by the bounded runtime stand-in rt_sync in sequential histories only, schedules are not covered. '
_ENV = 'Assumed contracts (trusted): std HashMap as a map view; common/deque.rs (raw pointers) as a sequence view, checked separately by complete single-operation Kani window harnesses and bounded sequences; unsync/deques.rs and the ValueEntry accessors are PROVED against that view in unit udeques, the cache unit uses their contracts; Instant/Duration arithmetic, std::cmp::min/max, a pure weigher, key identity through Hash/Eq/Borrow coherence, fewer than 2^32 entries, one named clock reading per operation.'

CLAIMS = {
    'C01': dict(technique='Verus contracts on the extracted unsync insert/get/contains_key/invalidate*/iteration functions + relational lemmas; sync lookup composition, front end and iteration',
                text='every lookup answer is specified as a function of the map view (value of the resident binding, absent after invalidate*) and proved for all keys, hashers, weights, capacities and clock readings',
                note=_UNS + _ENV + ' invalidate_entries_if: the removal phase (loop, unlinking, counters) is proved on the real text; its selection expression (an iterator-adapter chain Verus rejects) is replaced by an ASSUMED contract through a declared rewrite tied to the token hash of that expression, and is exercised by the bounded runtime stand-in only. Iteration: unsync Iter::next, Iter::new and Cache::iter are under contract (what next yields is a binding of the cache map, with its value, not expired at the reading taken for that item; `for .. in self.iter.by_ref()` written as loop/match by a declared rewrite) over an ASSUMED std hash_map::Iter (yields bindings of the map it was created from); the iterator of the concurrent cache (dashmap) is exercised by the bounded runtime stand-in only.'),
    'C03': dict(technique='Verus contracts: free-space branch of handle_insert, frame and precision clauses of the housekeeping functions (expiry scans purge only expired entries), weight invariant',
                text='an insert that fits is proved to add the entry and remove nobody; housekeeping is proved to remove nothing when within capacity and without expiry, and with expiry to purge only entries whose deadline has passed at the reading of the call; counters proved exact so room is never under-estimated',
                note=_UNS + _ENV + ' That the expiry scans purge only entries whose deadline has passed at the reading of the call (and go on while the front entry is expired) is proved on the real text of remove_expired_ao / remove_expired_wo / evict_expired; it rests on two named axioms (axiom_stamp_ao / axiom_stamp_wo: a list node read through peek_front carries the stamp of the entry whose slot points to it - in src/unsync.rs the stamps physically live in the nodes, read and written through raw pointers), listed with the assumptions.'),
    'C04': dict(technique='Verus contracts: weight postconditions of handle_insert / admit / handle_update / evict_lru_entries',
                text='weighted_size is proved to equal the resident weight, oversize inserts proved rejected, admission proved to free at least the candidate weight, eviction proved to continue until within capacity (batch of 100)',
                note=_UNS + _ENV + ' The concurrent overshoot bound is a schedule property: not covered.'),
    'C05': dict(technique='Verus contracts: is_expired_entry_wo against the declarative predicate, lookup answers, timestamp clauses of insert/update',
                text='a lookup hit is proved to imply last_modified + ttl > now for the clock reading of that call, and every insert/update proved to restart the interval; boundary and ttl=0 are inside the quantifier',
                note=_UNS + _ENV),
    'C06': dict(technique='Verus contracts: is_expired_entry_ao, record_hit, frame clauses of contains_key',
                text='same as C05 for the idle timer; contains_key is proved to leave every timestamp untouched, only a get hit writes last_accessed',
                note=_UNS + _ENV + ' iteration takes &self and cannot write (type system); unsync Iter::next is under contract (never yields an entry that is expired at the reading taken for that item).'),
    'C07': dict(technique='Verus contracts on unsync invalidate / invalidate_all / invalidate_entries_if (removal phase)',
                text='invalidate(k) is proved to remove exactly the binding of k from what housekeeping left, invalidate_all to empty map and lists, invalidate_entries_if to remove exactly the selected keys and leave every other entry, its stamps and the recency order untouched; only insert adds keys',
                note=_UNS + _ENV + ' invalidate_entries_if: the selection expression (iterator-adapter chain with pattern closures, rejected by Verus) is NOT verified: a declared rewrite replaces exactly that expression (pinned by its token hash) by the assumed contract sel_keys = "the keys of the entries the (pure) predicate holds for"; everything after it is proved on the real text (`for_each` closure written as a `for` loop by a declared rewrite). The selection itself is exercised by the bounded runtime stand-in (rt_unsync) only.'),
    'C08': dict(technique='Verus built-in obligations (overflow, index, unwrap/expect/panic reachability) on every function under contract; Kani pointer checks on the list layer',
                text='no arithmetic overflow, out-of-range index or reachable internal panic in any function under contract for all inputs satisfying the invariant',
                note=_UNS + _ENV + ' Raw-pointer list sequences are bounded Kani stand-ins, not proofs; sync()/apply_writes sequences, Drop and the selection expression of invalidate_entries_if are not covered.'),
    'C10': dict(technique='Verus representation invariant: entry_count == |list|, weighted_size == sum of resident weights, as postcondition of every operation',
                text='both counters are proved exact after every public operation of the single-threaded cache, for every history',
                note=_UNS + _ENV),
    'C11': dict(technique='Verus invariant "every list node belongs to exactly one map entry" + bounded Kani drop counting on the list layer',
                text='no removal path can leave a node (and the key clone it pins) behind: proved for all histories; exactly-once release of the raw nodes themselves is a bounded check',
                note=_UNS + _ENV + ' Safe-Rust ownership gives exactly-once for everything not behind a raw pointer.'),
    'C12': dict(technique='Verus sequence-valued postconditions on the probation list (moved_to_back, skip(n), least sufficient prefix)',
                text='hits and updates are proved to move exactly that key to the MRU end, evictions and admissions to remove exactly the shortest sufficient LRU prefix',
                note=_UNS + _ENV),
    'C13': dict(technique='Verus: admit proved equivalent to the declarative spec_admit of the property statement',
                text='Admitted <==> (shortest sufficient LRU prefix exists and candidate frequency > summed victim frequency); rejected inserts proved to touch no resident',
                note=_UNS + _ENV + ' frequencies are read through the verified FrequencySketch::frequency contract.'),
    'C14': dict(technique='Verus contracts on the verbatim FrequencySketch functions (bit-vector lemmas) + cache-level frame clauses; sync apply_reads counts every queued record exactly once',
                text='every function of frequency_sketch.rs verified against nibble-level postconditions for all tables and hashes; get proved to record exactly once, every other operation never',
                note='assumes std specs of count_ones/next_power_of_two/pow/into_boxed_slice; sketch table <= 2^27 words; ' + _ENV),
    'C17': dict(technique='Verus pass-through contracts on builders, Policy, with_everything and policy(); Kani complete proofs of the 1000-year guard (both directions) and of weigh',
                text='every builder setter is proved to set exactly its knob and keep the others, build/build_with_hasher to hand the five knobs unchanged to with_everything, with_everything (both caches, real text; for the concurrent cache down to Inner::new) to store them and start empty whatever initial_capacity is, policy() to report the stored values; ensure_expirations_or_panic returns iff both durations <= 1000 years (all Durations); weigh(None) == 1',
                note='the concurrent cache constructor chain sync::Cache::new / with_everything -> BaseCache::new -> Inner::new is proved on the real text in unit sync (every knob stored exactly as given, whatever initial_capacity is), as are Inner::policy, BaseCache::policy and sync::Cache::policy (the public policy() reports exactly the stored knobs); stated assumption on the configuration: initial_capacity + 384 (write-log size) fits in usize (Inner::new adds them unchecked; beyond that the map constructor of the dependency panics on the same input in any case); the weigher(..) setters (dyn Fn boxing) are rejected by Verus and not under contract; new(n) == builder().max_capacity(n).build() follows from identical postconditions up to the unspecified RandomState::default(). ' + _ENV),
    'C15': dict(technique='Verus frame contract: contains_key leaves exactly the state the housekeeping prefix leaves; lemma that this housekeeping leaves no trim work behind; bounded metamorphic runtime check of the statement itself',
                text='contains_key is proved to change nothing beyond the housekeeping every operation starts with: same estimator, same recency order of survivors, same timestamps, and (fewer residents than one batch) no surplus left, so the next operation trims nothing more',
                note=_UNS + _ENV + ' iter takes &self (no interior mutability in the unsync cache). The relational (two-run) statement is not a function contract: it is checked literally only by the bounded metamorphic runtime stand-in, which reports the known finding KF-C15-1 (an extra contains_key trims a pending update surplus earlier than the history without it).'),
}
