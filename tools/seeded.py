#!/usr/bin/env python3
"""Seeded changes (property-breaking patches written by independent sub-agents).

  seeded.py import <dir> --id C12-2 --prop C12 [--append src/unsync/cache.rs | --test tests/x.rs] [--filter name]
        confirm, in a scratch copy of /repo, that: the patch applies; the 35 existing unit tests pass with it; the
        demonstration FAILS with it and PASSES without it. Only then store it under /verif/seeded/<id>/.
  seeded.py run [--props all|own] [ids...]
        apply each stored patch to a scratch copy and run the checks with --repo <scratch>; print the detection matrix
        and write seeded/RESULTS.json. /repo itself is never touched.
"""
import argparse, json, os, re, shutil, subprocess, sys, tempfile, time
HERE = os.path.dirname(os.path.abspath(__file__)); VERIF = os.path.dirname(HERE)
SEEDED = os.path.join(VERIF, 'seeded')
ALL = ['C01', 'C03', 'C04', 'C05', 'C06', 'C07', 'C08', 'C10', 'C11', 'C12', 'C13', 'C14', 'C15', 'C17']
TARGET = '/tmp/verif_seeded_target'


def sh(cmd, cwd=None, env=None, timeout=3600):
    p = subprocess.run(cmd, cwd=cwd, shell=isinstance(cmd, str), stdout=subprocess.PIPE, stderr=subprocess.STDOUT, text=True, env=env, timeout=timeout)
    return p.returncode, p.stdout


def scratch_copy(repo):
    d = tempfile.mkdtemp(prefix='verif_seed_')
    rc, out = sh('cd %s && git ls-files -z | xargs -0 -I{} cp --parents {} %s/' % (repo, d))
    assert rc == 0, out
    sh('git init -q . && git add -A >/dev/null && git -c user.email=a@b -c user.name=x commit -qm base', cwd=d)
    return d


def cargo_test(d, args):
    env = dict(os.environ, CARGO_NET_OFFLINE='true', CARGO_TARGET_DIR=TARGET)
    rc, out = sh(['cargo', 'test', '--offline'] + args, cwd=d, env=env)
    m = re.findall(r'test result: (\w+)\. (\d+) passed; (\d+) failed', out)
    return rc, out, m


def place_demo(d, demo_src, append, test):
    if append:
        with open(os.path.join(d, append), 'a') as f: f.write('\n' + open(demo_src).read())
    else:
        shutil.copy(demo_src, os.path.join(d, test))


def guess_placement(notes):
    d = re.search(r'DEMO-PLACEMENT:\s*`?(?:append to\s*)?`?((?:src|tests)/[\w/\-]+\.rs)', notes)
    if d:
        return (d.group(1), None) if d.group(1).startswith('src/') else (None, d.group(1))
    return guess_placement_free(notes)


def guess_placement_free(notes):
    m = re.search(r'(tests/[\w\-]+\.rs)', notes)
    a = re.search(r'(?:>>|append\w*(?: it| them)?(?: verbatim)?(?: to| at)?(?: the)?(?: very)?(?: end| bottom)?(?: of)?(?: the file)?)\s*\**`?(src/[\w/]+\.rs)', notes)
    if not a:
        # "append ... to `src/x.rs`" with other words in between (same sentence)
        a = re.search(r'append[^\n.]{0,80}?`(src/[\w/]+\.rs)`', notes, re.I)
    if a: return a.group(1), None
    if m: return None, m.group(1)
    return None, None


def cmd_import(a):
    src = a.dir
    notes = open(os.path.join(src, 'notes.md')).read()
    append, test = a.append, a.test
    if not append and not test: append, test = guess_placement(notes)
    if not append and not test: sys.exit('cannot determine where the demo goes; pass --append or --test')
    filt = a.filter
    if not filt:
        demo = open(os.path.join(src, 'demo.rs')).read()
        m = re.search(r'\bmod\s+(\w+)', demo)
        filt = m.group(1) if (m and append) else None
    d = scratch_copy(a.repo)
    log = {}
    try:
        rc, out = sh(['git', 'apply', '--check', os.path.join(src, 'patch.diff')], cwd=d)
        if rc != 0: sys.exit('patch does not apply: ' + out)
        sh(['git', 'apply', os.path.join(src, 'patch.diff')], cwd=d)
        # 1. existing suite with the change
        rc, out, m = cargo_test(d, ['--lib'])
        log['suite_with_change'] = m
        if rc != 0 or not m or m[0][1] != '35' or m[0][2] != '0':
            sys.exit('REJECTED: existing suite does not pass with the change: %s\n%s' % (m, out[-2000:]))
        # 2. demo with the change: must fail
        place_demo(d, os.path.join(src, 'demo.rs'), append, test)
        targs = (['--lib'] + ([filt] if filt else [])) if append else ['--test', os.path.basename(test)[:-3]]
        rc, out, m = cargo_test(d, targs)
        log['demo_with_change'] = m
        failed_with = rc != 0 and any(int(x[2]) > 0 for x in m)
        if not failed_with: sys.exit('REJECTED: demo does not fail with the change: %s\n%s' % (m, out[-2000:]))
        # 3. demo without the change: must pass
        sh(['git', 'apply', '-R', os.path.join(src, 'patch.diff')], cwd=d)
        rc, out, m = cargo_test(d, targs)
        log['demo_without_change'] = m
        if rc != 0 or not m or any(int(x[2]) > 0 for x in m) or sum(int(x[1]) for x in m) == 0:
            sys.exit('REJECTED: demo does not pass without the change: %s\n%s' % (m, out[-2000:]))
    finally:
        shutil.rmtree(d, ignore_errors=True)
    dst = os.path.join(SEEDED, a.id)
    os.makedirs(dst, exist_ok=True)
    for f in ('patch.diff', 'demo.rs', 'notes.md'): shutil.copy(os.path.join(src, f), os.path.join(dst, f))
    files = re.findall(r'^\+\+\+ b/(\S+)', open(os.path.join(src, 'patch.diff')).read(), re.M)
    first = notes.strip().split('\n')[0].lstrip('# ').strip()
    meta = dict(id=a.id, breaks=a.prop, title=first, files_changed=files, demo=dict(append_to=append, test_file=test, filter=filt),
                needs_to_manifest=a.needs or '(see notes.md)', origin='independent sub-agent given only the property text and a scratch worktree',
                confirmed=dict(at=time.strftime('%Y-%m-%d %H:%M:%S'), base_commit=subprocess.check_output(['git', '-C', a.repo, 'rev-parse', 'HEAD'], text=True).strip(),
                               ran=['git apply patch.diff; cargo test --offline --lib  -> %s' % log['suite_with_change'],
                                    'demo with change -> %s (FAIL as required)' % log['demo_with_change'],
                                    'demo without change -> %s (pass)' % log['demo_without_change']]))
    json.dump(meta, open(os.path.join(dst, 'meta.json'), 'w'), indent=1)
    print('ACCEPTED %s -> %s' % (a.id, dst))


def cmd_run(a):
    ids = a.ids or sorted(x for x in os.listdir(SEEDED) if os.path.isdir(os.path.join(SEEDED, x)))
    d = scratch_copy(a.repo)
    results = {}
    rp = os.path.join(SEEDED, 'RESULTS.json')
    if os.path.exists(rp) and a.ids: results = json.load(open(rp))
    try:
        for i in ids:
            meta = json.load(open(os.path.join(SEEDED, i, 'meta.json')))
            sh(['git', 'checkout', '-q', '--', '.'], cwd=d); sh(['git', 'clean', '-fdq'], cwd=d)
            rc, out = sh(['git', 'apply', os.path.join(SEEDED, i, 'patch.diff')], cwd=d)
            if rc != 0: print('%-10s patch does not apply: %s' % (i, out)); continue
            props = ALL if a.props == 'all' else [meta['breaks']]
            row = {}
            if a.props == 'all':
                r = subprocess.run([sys.executable, os.path.join(HERE, 'check.py'), 'MATRIX', '--repo', d, '--tier', a.tier], stdout=subprocess.PIPE, stderr=subprocess.STDOUT, text=True, cwd=VERIF)
                for l in r.stdout.split('\n'):
                    m = re.match(r'MATRIX (C\d+) (\d) ?(.*)$', l)
                    if not m: continue
                    p, rc, detail = m.group(1), int(m.group(2)), m.group(3)
                    row[p] = dict(rc=rc, detail=detail[:400])
                    tag = 'OWN' if p == meta['breaks'] else '   '
                    if rc != 0 or p == meta['breaks']:
                        print('%-10s %s %s %-9s %s' % (i, tag, p, {0: 'pass', 1: 'VIOLATION', 2: 'undecided'}.get(rc, '?'), detail[:160]))
                sys.stdout.flush()
                props = []
            for p in props:
                r = subprocess.run([sys.executable, os.path.join(HERE, 'check.py'), p, '--repo', d, '--tier', a.tier], stdout=subprocess.PIPE, stderr=subprocess.STDOUT, text=True, cwd=VERIF)
                lines = r.stdout.strip().split('\n')
                fo = [l.strip() for l in lines if 'failed obligation' in l][:3]
                und = [l for l in lines if l.startswith('UNDECIDED')][:1]
                row[p] = dict(rc=r.returncode, detail=(fo or und or [''])[0][:400], obligations=fo)
                tag = 'OWN' if p == meta['breaks'] else '   '
                print('%-10s %s %s %-9s %s' % (i, tag, p, {0: 'pass', 1: 'VIOLATION', 2: 'undecided'}.get(r.returncode, '?'), (fo or und or [''])[0][:160]))
                sys.stdout.flush()
            results[i] = dict(breaks=meta['breaks'], files=meta['files_changed'], title=meta['title'], checks=row,
                              detected=row.get(meta['breaks'], {}).get('rc') == 1)
        json.dump(results, open(rp, 'w'), indent=1)
    finally:
        shutil.rmtree(d, ignore_errors=True)
    print('--- own-property detection: %d / %d' % (sum(1 for r in results.values() if r['detected']), len(results)))


if __name__ == '__main__':
    ap = argparse.ArgumentParser()
    sp = ap.add_subparsers(dest='cmd')
    i = sp.add_parser('import'); i.add_argument('dir'); i.add_argument('--id', required=True); i.add_argument('--prop', required=True)
    i.add_argument('--append'); i.add_argument('--test'); i.add_argument('--filter'); i.add_argument('--needs'); i.add_argument('--repo', default='/repo')
    r = sp.add_parser('run'); r.add_argument('ids', nargs='*'); r.add_argument('--props', default='own'); r.add_argument('--tier', default='quick'); r.add_argument('--repo', default='/repo')
    a = ap.parse_args()
    {'import': cmd_import, 'run': cmd_run}[a.cmd](a)
