#!/usr/bin/env python3
"""Mutation-sensitivity pass (development aid; its outcome never changes a check's exit code).

mutation.py [--props C01,C10 | --all-props] [--only id,...] mutants/hand.json
Each mutant = {id, file, old, new, breaks:[props], note}. Applied to a scratch copy of /repo (never /repo itself);
the checks are run with --repo <scratch>. Prints one line per (mutant, property): exit code and verdict.
"""
import argparse, json, os, shutil, subprocess, sys, tempfile
HERE = os.path.dirname(os.path.abspath(__file__)); VERIF = os.path.dirname(HERE)

def main():
    ap = argparse.ArgumentParser()
    ap.add_argument('file'); ap.add_argument('--props'); ap.add_argument('--all-props', action='store_true'); ap.add_argument('--only')
    ap.add_argument('--repo', default='/repo'); ap.add_argument('--tier', default='quick')
    a = ap.parse_args()
    muts = json.load(open(a.file))
    if a.only: muts = [m for m in muts if m['id'] in a.only.split(',')]
    scratch = tempfile.mkdtemp(prefix='verif_mut_')
    try:
        subprocess.check_call('cd %s && git ls-files -z | xargs -0 -I{} cp --parents {} %s/' % (a.repo, scratch), shell=True)
        subprocess.check_call('cd %s && git init -q . && git add -A >/dev/null && git -c user.email=a@b -c user.name=x commit -qm base' % scratch, shell=True)
        rows = []
        for m in muts:
            subprocess.check_call(['git', '-C', scratch, 'checkout', '-q', '--', '.'])
            path = os.path.join(scratch, m['file'])
            s = open(path).read()
            if s.count(m['old']) != m.get('count', 1):
                print('%-28s SKIP: pattern occurs %d times' % (m['id'], s.count(m['old']))); continue
            open(path, 'w').write(s.replace(m['old'], m['new']))
            if a.all_props: props = ['C01','C03','C04','C05','C06','C07','C08','C10','C11','C12','C13','C14','C15','C17']
            elif a.props: props = a.props.split(',')
            else: props = m['breaks']
            for p in props:
                r = subprocess.run([sys.executable, os.path.join(HERE, 'check.py'), p, '--repo', scratch, '--tier', a.tier], stdout=subprocess.PIPE, stderr=subprocess.STDOUT, text=True, cwd=VERIF)
                lines = r.stdout.strip().split('\n')
                fo = [l.strip()[:170] for l in lines if 'failed obligation' in l][:6]
                und = [l for l in lines if l.startswith('UNDECIDED')][:1]
                verdict = {0: 'pass', 1: 'VIOLATION', 2: 'undecided'}.get(r.returncode, '?')
                exp = 'expected' if p in m['breaks'] else 'not-expected'
                flag = ''
                if p in m['breaks'] and r.returncode != 1: flag = '  <== MISSED'
                if p not in m['breaks'] and r.returncode == 1: flag = '  (also alarms)'
                if m.get('harmless') and r.returncode != 0: flag = '  <== FALSE ALARM'
                print('%-28s %s %-9s %-12s %s%s' % (m['id'], p, verdict, exp, ' || '.join(fo or und or ['']), flag))
                sys.stdout.flush()
    finally:
        shutil.rmtree(scratch, ignore_errors=True)

if __name__ == '__main__':
    main()
