#!/usr/bin/env python3
"""Assemble a Verus unit from a contract template and the CURRENT source tree.

A template (`contracts/<unit>.rs`) is a Verus file in which every item taken from /repo is kept as an
*annotated mirror* between directive lines:

    //@@ FN file=src/unsync/cache.rs owner=Cache name=get tags=C01,C14 [rewrites=boolor]
    <the function as it verifies; every inserted token is marked>
    //@@ END

Markers: a line ending in `//@` (optionally `//@ [C01,C05]` = property tags of that clause) is an inserted
line; `/*@+*/ ... /*@-*/` brackets inserted tokens in-line or over several lines (proof blocks).
Other directives: STRUCT / ENUM (definition mirror; visibility and attributes ignored in the comparison),
STATIC (generated: `static X: T = v;` -> `pub exec static X: T ensures <clause> { v }`), CONST (copied).

For every FN the extractor
  1. locates the item in the current source by (file, owner type of the enclosing impl, name);
  2. applies the declared, semantics-preserving rewrites to the source text;
  3. strips the marked insertions from the mirror; if what remains equals the source token for token the
     mirror is used as it stands, otherwise the insertions are re-anchored onto the current source by a
     token-level alignment (an insertion whose both neighbours were rewritten is a conflict);
  4. SELF-CHECK: stripping the marked insertions from the text about to be verified must give back the
     current source tokens exactly.
Anything that goes wrong raises ExtractError -> the caller exits 2 (undecided), never a violation.
"""
import difflib
import os
import re
import sys

sys.path.insert(0, os.path.dirname(os.path.abspath(__file__)))
import rustlex as R

DIRECTIVE = re.compile(r'^\s*//@@\s+(FN|SIG|STRUCT|ENUM|STATIC|CONST|END)\b(.*)$')
TAGS = re.compile(r'//@\s*\[\s*(C\d+(?:\s*,\s*C\d+)*)\s*\]\s*$')


class ExtractError(Exception):
    pass


def parse_kv(s):
    """key=value pairs; a value runs to the next ` key=` or end of line"""
    out = {}
    parts = re.split(r'\s+(?=[a-z_]+=)', s.strip())
    for p in parts:
        if not p: continue
        if '=' not in p: raise ExtractError('bad directive argument: %r' % p)
        k, v = p.split('=', 1)
        out[k] = v.strip()
    return out


_src_cache = {}


def load_source(repo, rel):
    key = (repo, rel)
    if key not in _src_cache:
        path = os.path.join(repo, rel)
        if not os.path.exists(path):
            raise ExtractError('lost anchor: source file %s does not exist' % rel)
        text = open(path).read()
        try:
            toks = R.lex(text)
            its = R.items(toks)
        except R.LexError as e:
            raise ExtractError('cannot lex %s: %s' % (rel, e))
        _src_cache[key] = (text, toks, its)
    return _src_cache[key]


def locate(repo, rel, kind, owner, name):
    text, toks, its = load_source(repo, rel)
    c = R.find_item(toks, kind, owner, name, its)
    if len(c) != 1:
        raise ExtractError('lost anchor: %d items match %s %s::%s in %s' % (len(c), kind, owner, name, rel))
    it = c[0]
    return text, toks, it


# ----------------------------------------------------------------------------------------------
# declared rewrites (applied to the *source* text of one function before comparison)
# ----------------------------------------------------------------------------------------------

def rewrite_source(fn_text, rewrites, extra=None):
    """returns (rewritten text, list of applied rewrite descriptions)"""
    applied = []
    toks = R.lex(fn_text)
    edits = []   # (start_offset, end_offset, replacement)
    # R2: function-local `const N: &str` -> `&'static str`   (Verus: "consts need explicit lifetimes")
    for i in range(len(toks) - 4):
        if toks[i].text == 'const' and toks[i + 1].kind == 'id' and toks[i + 2].text == ':' \
                and toks[i + 3].text == '&' and toks[i + 4].text == 'str':
            edits.append((toks[i + 3].end, toks[i + 3].end, "'static "))
            applied.append("const %s: &str -> &'static str" % toks[i + 1].text)
    # R1: `x |= e;` on a bool  ->  `{ let t = e; x = x || t; }`  (eager evaluation of e kept)
    if 'boolor' in rewrites:
        for i, t in enumerate(toks):
            if t.text == '|=' and i > 0 and toks[i - 1].kind == 'id' and (i < 2 or toks[i - 2].text in (';', '{', '}')):
                j = i + 1
                while toks[j].text != ';':
                    if toks[j].text in ('(', '[', '{'): j = R.match_close(toks, j)
                    j += 1
                x = toks[i - 1].text
                expr = fn_text[toks[i + 1].pos:toks[j - 1].end]
                edits.append((toks[i - 1].pos, toks[j].end, '{ let t = %s; %s = %s || t; }' % (expr, x, x)))
                applied.append('%s |= e; -> { let t = e; %s = %s || t; }' % (x, x, x))
    # R3: inline a non-escaping local closure `let [mut] f = |a, b| BODY;` at its call sites `f(x, y)` (beta reduction).
    #     Declared per function as `rewrites=inline:f`. Preconditions checked here: the parameters are plain identifiers, the
    #     body is one expression, every use of `f` is a direct call, every argument is a single token (identifier / literal)
    #     so that no evaluation is duplicated or reordered. Verus rejects closures that capture `&mut`; rustc accepts both forms.
    for rw in sorted(rewrites):
        if not rw.startswith('inline:'): continue
        fname = rw.split(':', 1)[1]
        d = None
        for i in range(len(toks) - 4):
            if toks[i].text == 'let' and (toks[i + 1].text == fname or (toks[i + 1].text == 'mut' and toks[i + 2].text == fname)):
                j = i + (2 if toks[i + 1].text == fname else 3)
                if toks[j].text == '=' and toks[j + 1].text == '|': d = (i, j + 1); break
        if d is None:
            applied.append('inline:%s: no such local closure in the current text (nothing rewritten)' % fname); continue
        i_let, i_bar = d
        params = []; j = i_bar + 1
        while toks[j].text != '|':
            if toks[j].kind != 'id' or toks[j + 1].text not in (',', '|'): raise ExtractError('rewrite inline:%s: parameter is not a plain identifier' % fname)
            params.append(toks[j].text); j += 1
            if toks[j].text == ',': j += 1
        b0 = j + 1
        if toks[b0].text == '{':
            b1 = R.match_close(toks, b0)
            if toks[b1 + 1].text != ';': raise ExtractError('rewrite inline:%s: unexpected closure shape' % fname)
            body = toks[b0 + 1:b1]; i_end = b1 + 1
            if any(t.text == ';' for t in body): raise ExtractError('rewrite inline:%s: closure body is not a single expression' % fname)
        else:
            k = b0
            while toks[k].text != ';':
                if toks[k].text in ('(', '[', '{'): k = R.match_close(toks, k)
                k += 1
            body = toks[b0:k]; i_end = k
        edits.append((toks[i_let].pos, toks[i_end].end, ''))
        k = i_end + 1; ncalls = 0
        while k < len(toks):
            if toks[k].text == fname and toks[k].kind == 'id':
                if toks[k + 1].text != '(': raise ExtractError('rewrite inline:%s: the closure is used other than by a direct call' % fname)
                c = R.match_close(toks, k + 1)
                args = []; cur = []
                depth = 0
                for t in toks[k + 2:c]:
                    if t.text in ('(', '[', '{'): depth += 1
                    elif t.text in (')', ']', '}'): depth -= 1
                    if t.text == ',' and depth == 0: args.append(cur); cur = []
                    else: cur.append(t)
                if cur: args.append(cur)
                if len(args) != len(params) or any(len(a) != 1 for a in args):
                    raise ExtractError('rewrite inline:%s: call with non-atomic arguments' % fname)
                sub = dict(zip(params, [a[0].text for a in args]))
                parts = []
                for bi, t in enumerate(body):
                    prev = body[bi - 1].text if bi > 0 else ''
                    parts.append(sub[t.text] if (t.kind == 'id' and t.text in sub and prev not in ('.', '::')) else t.text)
                edits.append((toks[k].pos, toks[c].end, ' '.join(parts)))
                ncalls += 1; k = c + 1
            else: k += 1
        applied.append('closure %s(%s) inlined at %d call sites' % (fname, ', '.join(params), ncalls))
    # R4: wildcard closure parameters `|_, v|` -> `|_w0, v|` (Verus: "only variables are supported here, not general patterns").
    #     Declared per function as `rewrites=wild`. A `|` opens a closure parameter list when it follows `(`, `,`, `=`, `move`,
    #     `{`, `;` or `return`; inside it a bare `_` between `|`/`,` and `,`/`|`/`:` is an unused binding and is given a name.
    if 'wild' in rewrites:
        n = 0; i = 0
        while i < len(toks):
            if toks[i].text == '|' and i > 0 and toks[i - 1].text in ('(', ',', '=', 'move', '{', ';', 'return'):
                j = i + 1
                while j < len(toks) and toks[j].text != '|': j += 1
                for k in range(i + 1, j):
                    if toks[k].text == '_' and toks[k - 1].text in ('|', ',') and toks[k + 1].text in (',', '|', ':'):
                        edits.append((toks[k].pos, toks[k].end, '_w%d' % n)); n += 1
                i = j + 1
            else: i += 1
        if n: applied.append('%d wildcard closure parameter(s) named' % n)
    # R5: `for _ in 0..N { BODY }` -> `let mut _fiK: usize = 0; while _fiK < N { _fiK += 1; BODY }` (Verus: "for-loops do not yet
    #     support continue"). Declared per function as `rewrites=for2while`. Only for an unused loop variable `_`, the literal
    #     lower bound 0 and an upper bound that is a plain identifier which the function never declares `mut` nor assigns
    #     (so evaluating it once, as `for` does, or on every test, as `while` does, is the same). `continue` then re-tests the
    #     guard after the increment, exactly as the range iterator would; `_fiK < N` bounds the increment.
    if 'for2while' in rewrites:
        n = 0
        for i in range(len(toks) - 6):
            if [t.text for t in toks[i:i + 4]] == ['for', '_', 'in', '0'] and toks[i + 4].text == '..' and toks[i + 5].kind == 'id' and toks[i + 6].text == '{':
                bound = toks[i + 5].text
                T = [t.text for t in toks]
                for k in range(len(T) - 1):
                    if T[k] == bound and ((k > 0 and T[k - 1] == 'mut') or (T[k + 1] in ('=', '+=', '-=', '*=', '/=') )):
                        raise ExtractError('rewrite for2while: the bound %s is mutable or assigned' % bound)
                v = '_fi%d' % n; n += 1
                edits.append((toks[i].pos, toks[i + 6].end, 'let mut %s: usize = 0; while %s < %s { %s += 1;' % (v, v, bound, v)))
        if n: applied.append('%d `for _ in 0..N` loop(s) written as while loops' % n)
        else: applied.append('for2while: no `for _ in 0..N` loop in the current text (nothing rewritten)')
    # R6: `E.into_iter().for_each(|x| { BODY });` -> `for x in E { BODY }` (Verus rejects closures that capture `&mut`).
    #     Declared per function as `rewrites=foreach2for`. This is the definition of `Iterator::for_each` for a closure whose
    #     body neither returns early nor uses `?`; refused unless the statement has exactly this shape, the closure parameter is
    #     one plain identifier, the body is a block, and the body contains no `return` / `?` / `break` / `continue` / `.await`.
    if 'foreach2for' in rewrites:
        n = 0
        T = [t.text for t in toks]
        for i in range(len(toks) - 10):
            if T[i:i + 8] == ['.', 'into_iter', '(', ')', '.', 'for_each', '(', '|'] and toks[i + 8].kind == 'id' and T[i + 9] == '|' and T[i + 10] == '{':
                b1 = R.match_close(toks, i + 10)
                if T[b1 + 1] != ')' or T[b1 + 2] != ';': raise ExtractError('rewrite foreach2for: unexpected shape after the closure body')
                if any(t in ('return', '?', 'break', 'continue', 'await') for t in T[i + 11:b1]):
                    raise ExtractError('rewrite foreach2for: the closure body leaves early')
                # receiver: back to the start of the statement
                j = i - 1
                while j >= 0 and T[j] not in (';', '{', '}'):
                    if T[j] in (')', ']'):
                        # skip back over a bracketed group
                        d = 0
                        while j >= 0:
                            if T[j] in (')', ']'): d += 1
                            elif T[j] in ('(', '['):
                                d -= 1
                                if d == 0: break
                            j -= 1
                    j -= 1
                r0 = j + 1
                if r0 >= i: raise ExtractError('rewrite foreach2for: empty receiver')
                recv = fn_text[toks[r0].pos:toks[i - 1].end]
                x = T[i + 8]
                edits.append((toks[r0].pos, toks[i + 10].end, 'for %s in %s {' % (x, recv)))
                edits.append((toks[b1].pos, toks[b1 + 2].end, '}'))
                n += 1
        if n: applied.append('%d `E.into_iter().for_each(|x| { .. });` statement(s) written as `for x in E { .. }`' % n)
        else: applied.append('foreach2for: no `.into_iter().for_each(|x| { .. });` statement in the current text (nothing rewritten)')
    # R7: the initialiser of ONE local is replaced by a call of an assumed (external_body) function: `let v = EXPR;` ->
    #     `let v = CALL;`. Declared as `rewrites=absexpr:v` with `abs=CALL` and `abs_sha=<sha1[:12] of EXPR's tokens>`. EXPR is
    #     NOT verified: it is named in the evidence as dropped text, and the assumed contract of CALL is tied to the exact
    #     token sequence it stands for (any edit of EXPR makes the unit undecided instead of silently keeping the contract).
    for rw in sorted(rewrites):
        if not rw.startswith('absexpr:'): continue
        v = rw.split(':', 1)[1]
        call = (extra or {}).get('abs'); sha = (extra or {}).get('abs_sha')
        if not call or not sha: raise ExtractError('rewrite absexpr:%s needs abs= and abs_sha=' % v)
        T = [t.text for t in toks]
        hits = [i for i in range(len(toks) - 3) if T[i] == 'let' and T[i + 1] == v and T[i + 2] == '=']
        if len(hits) != 1: raise ExtractError('rewrite absexpr:%s: `let %s =` occurs %d times' % (v, v, len(hits)))
        i = hits[0]; j = i + 3
        while T[j] != ';':
            if T[j] in ('(', '[', '{'): j = R.match_close(toks, j)
            j += 1
        expr_toks = T[i + 3:j]
        import hashlib
        got = hashlib.sha1(' '.join(expr_toks).encode()).hexdigest()[:12]
        if got != sha:
            raise ExtractError('rewrite absexpr:%s: the abstracted expression changed (sha %s, contract written for %s): its assumed contract may no longer describe it' % (v, got, sha))
        edits.append((toks[i + 3].pos, toks[j - 1].end, call))
        applied.append('initialiser of `%s` (%d tokens: `%s`) replaced by the ASSUMED contract of `%s`: that expression is NOT verified' % (v, len(expr_toks), ' '.join(expr_toks), call))
    # R8: `for PAT in X.by_ref() { BODY }` (or `for PAT in &mut X { BODY }`) -> `loop { match X.next() { Some(PAT) => { BODY } None => break, } }` (Verus has no
    #     specification for `by_ref` / for-loops over `&mut I`). Declared per function as `rewrites=forbyref2loop`. This is the
    #     definition of `for` over `&mut I` (`<&mut I as Iterator>::next` is `I::next`); `break` / `continue` in BODY bind to
    #     the new loop exactly as they did to the `for`. Refused when BODY contains a loop label.
    if 'forbyref2loop' in rewrites:
        n = 0
        T = [t.text for t in toks]
        i = 0
        while i < len(toks):
            if T[i] == 'for' and toks[i].kind == 'id':
                j = i + 1; d = 0
                while j < len(toks) and not (T[j] == 'in' and d == 0):
                    if T[j] in ('(', '['): d += 1
                    elif T[j] in (')', ']'): d -= 1
                    j += 1
                k = j + 1
                while k < len(toks) and T[k] != '{':
                    if T[k] in ('(', '['): k = R.match_close(toks, k)
                    k += 1
                byref = k < len(toks) and k - 4 > j and T[k - 4:k] == ['.', 'by_ref', '(', ')']
                mutref = k < len(toks) and k - 2 > j and T[j + 1:j + 3] == ['&', 'mut']      # `for PAT in &mut X {`: the same desugaring
                if byref or mutref:
                    b1 = R.match_close(toks, k)
                    if any(t.kind == 'lifetime' for t in toks[k:b1]) or any(t.startswith("'") and len(t) > 1 and not t.endswith("'") for t in T[k:b1]):
                        raise ExtractError('rewrite forbyref2loop: the loop body uses a label')
                    pat = fn_text[toks[i + 1].pos:toks[j - 1].end]
                    recv = fn_text[toks[j + 1].pos:toks[k - 5].end] if byref else fn_text[toks[j + 3].pos:toks[k - 1].end]
                    edits.append((toks[i].pos, toks[k].end, 'loop { match %s.next() { Some(%s) => {' % (recv, pat)))
                    edits.append((toks[b1].pos, toks[b1].end, '} None => break, } }'))
                    n += 1
                    i = k + 1; continue
            i += 1
        if n: applied.append('%d `for PAT in X.by_ref() { .. }` loop(s) written as `loop { match X.next() { Some(PAT) => { .. } None => break, } }`' % n)
        else: applied.append('forbyref2loop: no `for PAT in X.by_ref()` loop in the current text (nothing rewritten)')
    out = fn_text
    for s, e, r in sorted(edits, reverse=True):
        out = out[:s] + r + out[e:]
    return out, applied


def strip_vis_struct(toks):
    """token texts of a struct/enum definition with visibility and attributes removed"""
    out = []
    i = 0
    while i < len(toks):
        t = toks[i].text
        if t == '#' and i + 1 < len(toks) and toks[i + 1].text == '[':
            i = R.match_close(toks, i + 1) + 1; continue
        if t == 'pub':
            if i + 1 < len(toks) and toks[i + 1].text == '(':
                i = R.match_close(toks, i + 1) + 1
            else:
                i += 1
            continue
        out.append(t); i += 1
    return out


# ----------------------------------------------------------------------------------------------
# re-anchoring
# ----------------------------------------------------------------------------------------------

def line_tags(mirror_lines, ln):
    m = TAGS.search(mirror_lines[ln - 1]) if 0 < ln <= len(mirror_lines) else None
    return m.group(1).replace(' ', '') if m else ''


def reanchor(mirror_text, mirror_toks, src_text, src_toks):
    """carry the annotation chunks of the mirror onto src. Returns the merged text."""
    base = [t for t in mirror_toks if not t.ann]
    btxt = R.texts(base); stxt = R.texts(src_toks)
    chunks = {}   # base index (chunk goes before base[bi]) -> list of ann tokens
    bi = 0
    for t in mirror_toks:
        if t.ann: chunks.setdefault(bi, []).append(t)
        else: bi += 1
    sm = difflib.SequenceMatcher(a=btxt, b=stxt, autojunk=False)
    b2s = {}
    for tag, i1, i2, j1, j2 in sm.get_opcodes():
        if tag == 'equal':
            for d in range(i2 - i1): b2s[i1 + d] = j1 + d
    # renamed locals: when every occurrence of identifier `a` in the mirror's code was replaced by the same new identifier `b`
    # (and `a` no longer occurs in the source, `b` did not occur in the mirror), the annotations follow the rename
    ren = {}; bad = set()
    for tag, i1, i2, j1, j2 in sm.get_opcodes():
        if tag == 'replace' and i2 - i1 == j2 - j1:
            for d in range(i2 - i1):
                a, b = base[i1 + d], src_toks[j1 + d]
                if a.kind == 'id' and b.kind == 'id' and a.text != b.text:
                    if ren.get(a.text, b.text) != b.text: bad.add(a.text)
                    ren[a.text] = b.text
    sset = set(stxt); bset = set(btxt)
    ren = {a: b for a, b in ren.items() if a not in bad and a not in sset and b not in bset}
    place = {}   # src token index -> list of ann tokens to insert BEFORE it (len(src) = at end)
    displaced = 0
    for bi, toks in chunks.items():
        if bi in b2s: j = b2s[bi]
        elif bi == len(base) and (bi == 0 or (bi - 1) in b2s): j = len(src_toks)
        elif bi > 0 and (bi - 1) in b2s: j = b2s[bi - 1] + 1
        elif bi == 0: j = 0
        else:
            # both neighbours were rewritten: hang the insertion behind the nearest surviving token to its left that ends a
            # statement or block (`;`, `{`, `}`); if there is none the merge is a conflict
            l = bi - 1
            while l >= 0 and not (l in b2s and btxt[l] in (';', '{', '}')): l -= 1
            if l < 0:
                raise ExtractError('merge conflict: no surviving anchor for an annotation (mirror line %d)' % toks[0].line)
            j = b2s[l] + 1
            # ... but never in the middle of a statement of the new text: advance to the next statement boundary
            while j < len(src_toks) and j > 0 and stxt[j - 1] not in (';', '{', '}'): j += 1
            displaced += 1
        place.setdefault(j, []).extend(toks)
    mirror_lines = mirror_text.split('\n')
    out = []
    pos = 0
    for j in sorted(place):
        off = src_toks[j].pos if j < len(src_toks) else len(src_text)
        out.append(src_text[pos:off]); pos = off
        # one output line per mirror line of the chunk
        byline = {}
        order = []
        for t in place[j]:
            if t.line not in byline: byline[t.line] = [t, t]; order.append(t.line)
            else: byline[t.line][1] = t
        for ln in order:
            tg = line_tags(mirror_lines, ln)
            a, b = byline[ln]
            seg = mirror_text[a.pos:b.end].replace(R.ANN_ON, ' ').replace(R.ANN_OFF, ' ')
            for o, nw in ren.items(): seg = re.sub(r'(?<![A-Za-z0-9_])%s(?![A-Za-z0-9_])' % re.escape(o), nw, seg)
            out.append('\n' + seg + ' //@' + (' [' + tg + ']' if tg else '') + '\n')
    out.append(src_text[pos:])
    return ''.join(out)


# ----------------------------------------------------------------------------------------------
# assembling a unit
# ----------------------------------------------------------------------------------------------

def fn_item_text(text, toks, it):
    """source text of a fn item from the `fn` keyword to the closing brace"""
    return text[toks[it.start].pos:toks[it.end - 1].end]


def signature_of(toks, what):
    """(list of (param name, type text), return type text) of the first fn in the token list; spec-only result naming
    `-> (r: T)` is read as `-> T`; `mut` binding modifiers and `self` forms are kept as names"""
    T = [t.text for t in toks]
    k = T.index('fn')
    i = k + 2
    if T[i] == '<':     # generics
        d = 0
        while True:
            if T[i] == '<': d += 1
            elif T[i] == '>': d -= 1
            elif T[i] == '>>': d -= 2
            i += 1
            if d <= 0: break
    if T[i] != '(': raise ExtractError('%s: cannot find the parameter list' % what)
    c = R.match_close(toks, i)
    params = []; cur = []; d = 0
    for t in T[i + 1:c]:
        if t in ('(', '[', '{', '<'): d += 1
        elif t in (')', ']', '}', '>'): d -= 1
        elif t == '>>': d -= 2
        if t == ',' and d == 0:
            if cur: params.append(cur)
            cur = []
        else: cur.append(t)
    if cur: params.append(cur)
    sig = []
    for pr in params:
        if pr and pr[0] == 'mut': pr = pr[1:]
        if ':' in pr:
            j = pr.index(':'); sig.append((' '.join(pr[:j]), ' '.join(pr[j + 1:])))
        else: sig.append((' '.join(pr), ''))
    ret = ''
    j = c + 1
    if j < len(T) and T[j] == '->':
        j += 1; r = []; d = 0
        while j < len(T):
            t = T[j]
            if d == 0 and t in ('where', '{', 'requires', 'ensures', ';'): break
            if t in ('(', '[', '<'): d += 1
            elif t in (')', ']', '>'): d -= 1
            elif t == '>>': d -= 2
            r.append(t); j += 1
        if len(r) >= 4 and r[0] == '(' and r[2] == ':' and r[-1] == ')': r = r[3:-1]    # (r: T)
        ret = ' '.join(r)
    return sig, ret


def process_sig(repo, args, mirror_text):
    """An ASSUMED contract (external_body stub) standing for a function of /repo whose contract is proved in another unit or
    checked by another back end. The stub text is emitted as written; what is checked on every run is that its parameter
    names, their order, their types and the return type are those of the current source: a caller is verified against THIS
    contract, so it must at least be about the function that is really called."""
    rel, owner, name = args['file'], args.get('owner', '-'), args['name']
    text, toks, it = locate(repo, rel, 'fn', owner, name)
    src_fn = fn_item_text(text, toks, it)
    try:
        mt = [t for t in R.lex(mirror_text, markers=True) if not t.ann]
    except R.LexError as e:
        raise ExtractError('cannot lex stub of %s: %s' % (name, e))
    what = '%s::%s in %s' % (owner, name, rel)
    ssig, sret = signature_of(R.lex(src_fn), what)
    msig, mret = signature_of(mt, 'stub of ' + what)
    loose = args.get('types', '') == 'loose'
    if [n for n, _ in ssig] != [n for n, _ in msig]:
        raise ExtractError('assumed contract of %s: parameters are (%s) in the source but (%s) in the contract' % (what, ', '.join(n for n, _ in ssig), ', '.join(n for n, _ in msig)))
    if not loose:
        for (n, ts), (_, tm) in zip(ssig, msig):
            if ts.replace(' ', '') != tm.replace(' ', ''):
                raise ExtractError('assumed contract of %s: parameter %s has type %s in the source but %s in the contract' % (what, n, ts, tm))
        if sret.replace(' ', '') != mret.replace(' ', ''):
            raise ExtractError('assumed contract of %s: return type %s in the source but %s in the contract' % (what, sret or '()', mret or '()'))
    info = dict(file=rel, owner=owner, name=name, status='signature-checked' + (' (names and order only)' if loose else ''), source_line=toks[it.start].line if hasattr(toks[it.start], 'line') else 0,
                source_tokens=0, inserted_tokens=0, rewrites=[])
    return mirror_text, info


def process_fn(repo, args, mirror_text):
    rel, owner, name = args['file'], args.get('owner', '-'), args['name']
    text, toks, it = locate(repo, rel, 'fn', owner, name)
    src_fn = fn_item_text(text, toks, it)
    rewrites = set(args.get('rewrites', '').split(',')) - {''}
    src_fn, applied = rewrite_source(src_fn, rewrites, args)
    src_toks = R.lex(src_fn)
    try:
        mtoks = R.lex(mirror_text, markers=True)
    except R.LexError as e:
        raise ExtractError('cannot lex mirror of %s: %s' % (name, e))
    # the mirror's head (visibility/qualifiers before `fn`) is kept; comparison starts at `fn`
    k = next((i for i, t in enumerate(mtoks) if t.text == 'fn' and not t.ann), None)
    if k is None: raise ExtractError('mirror of %s has no fn keyword' % name)
    head_text = mirror_text[:mtoks[k].pos]
    body_mirror = mirror_text[mtoks[k].pos:]
    mt = R.lex(body_mirror, markers=True)
    base = [t.text for t in mt if not t.ann]
    if base == R.texts(src_toks):
        status = 'identical'
        out = head_text + body_mirror
    else:
        status = 'reanchored'
        out = head_text + reanchor(body_mirror, mt, src_fn, src_toks)
    # SELF-CHECK: what will be verified, minus marked insertions, is the current source
    chk = R.lex(out[len(head_text):], markers=True)
    if [t.text for t in chk if not t.ann] != R.texts(src_toks):
        raise ExtractError('self-check mismatch for %s::%s' % (owner, name))
    info = dict(file=rel, owner=owner, name=name, status=status, rewrites=applied,
                source_line=toks[it.start].line, source_tokens=len(src_toks),
                inserted_tokens=sum(1 for t in chk if t.ann))
    return out, info


def process_def(repo, kind, args, mirror_text):
    rel, name = args['file'], args['name']
    text, toks, it = locate(repo, rel, kind, '*', name)
    src = strip_vis_struct(toks[it.start:it.end])
    rewrites = set(args.get('rewrites', '').split(',')) - {''}
    applied = []
    if 'default_discriminants' in rewrites:
        # declared rewrite: explicit enum discriminants that equal the default numbering (0, 1, 2, ..) are dropped
        # (Verus' macro mangles explicit discriminants); any other explicit discriminant is an error
        out = []; idx = 0; i = 0; depth = 0
        while i < len(src):
            t = src[i]
            if t == '{': depth += 1
            elif t == '}': depth -= 1
            if depth == 1 and t == '=' and i + 1 < len(src) and re.fullmatch(r'\d+', src[i + 1]):
                if int(src[i + 1]) != idx: raise ExtractError('enum %s: discriminant %s is not the default %d' % (name, src[i + 1], idx))
                i += 2; continue
            if depth == 1 and t == ',': idx += 1
            out.append(t); i += 1
        src = out; applied.append('explicit default enum discriminants dropped')
    mt = R.lex(mirror_text, markers=True)
    k = next((i for i, t in enumerate(mt) if t.text == kind and not t.ann), None)
    if k is None: raise ExtractError('mirror of %s %s has no %s keyword' % (kind, name, kind))
    base = strip_vis_struct([t for t in mt[k:] if not t.ann])
    if base != src:
        raise ExtractError('definition of %s %s changed (fields/variants differ from the mirror)' % (kind, name))
    return mirror_text, dict(file=rel, owner='-', name=name, status='identical', rewrites=applied, source_line=toks[it.start].line,
                             source_tokens=len(src), inserted_tokens=sum(1 for t in mt if t.ann))


def process_static(repo, args):
    rel, name = args['file'], args['name']
    text, toks, it = locate(repo, rel, 'static', '*', name)
    seg = toks[it.start:it.end]     # static NAME : T = v ;
    eq = next(i for i, t in enumerate(seg) if t.text == '=')
    ty = text[seg[2].end:seg[eq].pos].strip()
    val = text[seg[eq].end:seg[-1].pos].strip()
    ens = args.get('ensures')
    if not ens: raise ExtractError('STATIC %s needs ensures=' % name)
    out = 'pub exec static %s: %s\n    ensures %s //@\n{ %s }\n' % (name, ty, ens, val)
    return out, dict(file=rel, owner='-', name=name, status='generated', rewrites=['static X: T = v; -> exec static X: T ensures .. { v }'],
                     source_line=toks[it.start].line, source_tokens=len(seg), inserted_tokens=0)


def process_const(repo, args):
    rel, name = args['file'], args['name']
    text, toks, it = locate(repo, rel, 'const', args.get('owner', '*'), name)
    out = 'pub ' + text[toks[it.start].pos:toks[it.end - 1].end] + '\n'
    return out, dict(file=rel, owner='-', name=name, status='copied', rewrites=[], source_line=toks[it.start].line,
                     source_tokens=it.end - it.start, inserted_tokens=0)


def stub_from_mirror(mirror_text):
    """the mirror's header (signature + contract) with an `external_body` stub body: used when a function of the current
    source cannot be brought under its annotations (it is then an ASSUMED contract and every property it serves is undecided)"""
    toks = R.lex(mirror_text, markers=True)
    k = next(i for i, t in enumerate(toks) if t.text == 'fn' and not t.ann)
    j = k; depth = 0; body = None
    while j < len(toks):
        t = toks[j]
        if t.text in ('(', '['): depth += 1
        elif t.text in (')', ']'): depth -= 1
        elif t.text == '{' and depth == 0 and not t.ann:
            body = t; break
        j += 1
    if body is None: raise ExtractError('cannot stub: no body found in the mirror')
    # qualifiers before `fn` (pub, unsafe, ..) stay in front of the attribute-free header
    head = mirror_text[:body.pos].rstrip()
    first = toks[0].pos if toks else 0
    return mirror_text[:first] + '#[verifier::external_body] ' + head[first:] + '\n    { unimplemented!() }'


def assemble(template_path, repo, stub=None, tolerant=False):
    """-> (unit text, blocks, linemap). blocks: list of info dicts with first/last output line.
    linemap[line] = (block index or None, tags string)"""
    lines = open(template_path).read().split('\n')
    out_lines = []
    blocks = []
    changed_types = {}
    i = 0
    while i < len(lines):
        m = DIRECTIVE.match(lines[i])
        if not m:
            out_lines.append(lines[i]); i += 1; continue
        kind, rest = m.group(1), m.group(2)
        if kind == 'END': raise ExtractError('stray END at template line %d' % (i + 1))
        args = parse_kv(rest)
        body = []
        if kind in ('FN', 'SIG', 'STRUCT', 'ENUM'):
            j = i + 1
            while j < len(lines) and not (DIRECTIVE.match(lines[j]) and DIRECTIVE.match(lines[j]).group(1) == 'END'):
                if DIRECTIVE.match(lines[j]): raise ExtractError('nested directive at template line %d' % (j + 1))
                body.append(lines[j]); j += 1
            if j >= len(lines): raise ExtractError('missing END for directive at template line %d' % (i + 1))
            nxt = j + 1
        else:
            nxt = i + 1
        mirror = '\n'.join(body)
        skey = (args.get('owner', '-'), args.get('name'))
        own = args.get('owner', '-').split('<')[0].strip()
        ct = next((t for t in changed_types if own == t or own.endswith(' for ' + t)), None)
        if kind == 'FN' and ct and not (stub and skey in stub):
            stub = dict(stub or {}); stub[skey] = 'the definition of %s differs from the mirror (%s)' % (ct, changed_types[ct][:100])
        if kind == 'FN' and stub and skey in stub:
            text = stub_from_mirror(mirror)
            info = dict(file=args['file'], owner=args.get('owner', '-'), name=args['name'], status='STUBBED (assumed contract: ' + stub[skey][:160] + ')', rewrites=[],
                        source_line=0, source_tokens=0, inserted_tokens=0, stubbed=stub[skey])
        elif kind == 'FN' and tolerant:
            try:
                text, info = process_fn(repo, args, mirror)
            except ExtractError as e:
                text = stub_from_mirror(mirror)
                info = dict(file=args['file'], owner=args.get('owner', '-'), name=args['name'], status='STUBBED (assumed contract: extractor: ' + str(e)[:160] + ')', rewrites=[],
                            source_line=0, source_tokens=0, inserted_tokens=0, stubbed='extractor: ' + str(e))
        elif kind == 'FN': text, info = process_fn(repo, args, mirror)
        elif kind == 'SIG': text, info = process_sig(repo, args, mirror)
        elif kind in ('STRUCT', 'ENUM') and tolerant:
            # a changed type definition: keep the mirror's definition for the rest of the unit and turn every function of that
            # type (inherent and trait impls) into an assumed contract: the properties they serve are undecided in this run
            try:
                text, info = process_def(repo, 'struct' if kind == 'STRUCT' else 'enum', args, mirror)
            except ExtractError as e:
                if 'changed' not in str(e) or not args.get('degrade'): raise
                text = mirror
                info = dict(file=args['file'], owner='-', name=args['name'], status='MIRROR KEPT (the definition in the source differs: its functions are stubbed)', rewrites=[],
                            source_line=0, source_tokens=0, inserted_tokens=0)
                changed_types[args['name']] = str(e)
        elif kind == 'STRUCT': text, info = process_def(repo, 'struct', args, mirror)
        elif kind == 'ENUM': text, info = process_def(repo, 'enum', args, mirror)
        elif kind == 'STATIC': text, info = process_static(repo, args)
        else: text, info = process_const(repo, args)
        info['kind'] = kind
        info['tags'] = [t for t in args.get('tags', '').split(',') if t]
        info['template_line'] = i + 1
        if args.get('never_called'): info['never_called'] = True
        out_lines.append('// >>> %s %s %s::%s  [%s]' % (kind, info['file'], info['owner'], info['name'], info['status']))
        info['first_line'] = len(out_lines) + 1
        tl = text.split('\n')
        out_lines.extend(tl)
        info['last_line'] = len(out_lines)
        out_lines.append('// <<<')
        blocks.append(info)
        i = nxt
    linemap = {}
    for bi, b in enumerate(blocks):
        allt = set(b['tags'])
        for ln in range(b['first_line'], b['last_line'] + 1):
            m = TAGS.search(out_lines[ln - 1])
            linemap[ln] = (bi, m.group(1).replace(' ', '') if m else '')
            if m: allt |= set(m.group(1).replace(' ', '').split(','))
        b['all_tags'] = sorted(allt)
    return '\n'.join(out_lines), blocks, linemap


if __name__ == '__main__':
    import argparse, json
    ap = argparse.ArgumentParser()
    ap.add_argument('template'); ap.add_argument('--repo', default='/repo'); ap.add_argument('-o', '--out')
    a = ap.parse_args()
    try:
        text, blocks, linemap = assemble(a.template, a.repo)
    except ExtractError as e:
        print('EXTRACT-ERROR: %s' % e); sys.exit(2)
    if a.out: open(a.out, 'w').write(text)
    for b in blocks:
        print('%-8s %-34s %-28s %-10s src_tokens=%d inserted=%d' % (b['kind'], b['file'], b['owner'] + '::' + b['name'], b['status'], b['source_tokens'], b['inserted_tokens']))
