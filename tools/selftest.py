#!/usr/bin/env python3
"""setup: nothing to build (Python + pre-installed verus/kani); checks the tools are present and the lexer round-trips."""
import shutil, sys, os
sys.path.insert(0, os.path.dirname(os.path.abspath(__file__)))
import rustlex as R
ok = True
for t in ('verus', 'cargo', 'cargo-kani'):
    if not shutil.which(t): print('missing tool', t); ok = False
toks = R.lex("fn f<'a>(x: &'a str) -> Vec<Vec<u8>> { let c = 'x'; let r = 0..4; x.len() as u8 >>= 1; r#\"a\"# }")
assert [t.text for t in toks][:4] == ['fn', 'f', '<', "'a"], toks[:4]
print('selftest ok' if ok else 'selftest FAILED'); sys.exit(0 if ok else 1)
