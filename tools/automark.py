#!/usr/bin/env python3
"""Authoring aid (not part of any check): (re)insert the annotation markers of a contract template.

For every `//@@ FN` block: strip existing markers, align the block's tokens with the current source of
the function (after the declared rewrites) and mark every token that is not source as inserted
(`//@` for whole lines, `/*@+*/../*@-*/` in-line). Tag comments `//@ [C01]` / `// [C01]` at line ends
are preserved. Fails if a source token has no counterpart in the block (the mirror deviates from the code).
"""
import difflib
import os
import re
import sys

sys.path.insert(0, os.path.dirname(os.path.abspath(__file__)))
import rustlex as R
import extract as X

TAGC = re.compile(r'\s*//@?\s*(\[\s*C\d+(?:\s*,\s*C\d+)*\s*\])\s*$')


def strip_markers(text):
    out = []
    for l in text.split('\n'):
        tag = ''
        m = TAGC.search(l)
        if m:
            tag = ' // ' + m.group(1); l = l[:m.start()]
        l = re.sub(r'\s*//@\s*$', '', l)
        l = l.replace(R.ANN_ON, '').replace(R.ANN_OFF, '')
        out.append(l.rstrip() + tag)
    return '\n'.join(out)


def mark(block_text, src_toks, name):
    clean = strip_markers(block_text)
    toks = R.lex(clean)
    k = next(i for i, t in enumerate(toks) if t.text == 'fn')
    p = R.texts(toks[k:]); s = R.texts(src_toks)
    is_src = [False] * len(toks)
    matched = 0
    # split both sides at the opening brace of the function body (the brace matching the last token)
    def body_open(tl):
        d = 0
        for i in range(len(tl) - 1, -1, -1):
            if tl[i] == '}': d += 1
            elif tl[i] == '{':
                d -= 1
                if d == 0: return i
        raise SystemExit('automark: %s: no body' % name)
    pb, sb = body_open(p), body_open(s)
    # in the mirror's head everything from the first clause keyword at bracket depth 0 is annotation
    d = 0; cut = pb
    for i in range(pb):
        if p[i] in ('(', '[', '{'): d += 1
        elif p[i] in (')', ']', '}'): d -= 1
        elif d == 0 and p[i] in ('requires', 'ensures', 'recommends', 'decreases', 'opens_invariants', 'no_unwind'):
            cut = i; break
    unmatched = []
    # loop annotations: from `invariant` / `invariant_except_break` / `decreases` inside the body up to (not including)
    # the first `{` at relative depth 0 that directly follows a `,` (= the loop body; clauses end with a trailing comma)
    forced = [False] * len(p)
    i = pb + 1
    while i < len(p):
        if p[i] in ('invariant', 'invariant_except_break', 'decreases'):
            d = 0; j = i
            while j < len(p):
                if p[j] in ('(', '['): d += 1
                elif p[j] in (')', ']'): d -= 1
                elif p[j] == '{':
                    if d == 0 and p[j - 1] == ',': break
                    d += 1
                elif p[j] == '}': d -= 1
                forced[j] = True; j += 1
            i = j
        else:
            i += 1
    def tok_align(pa, pz, sa, sz):
        nonlocal matched
        idx = [x for x in range(pa, pz) if not forced[x]]
        sm = difflib.SequenceMatcher(a=[p[x] for x in idx], b=s[sa:sz], autojunk=False)
        for tag, i1, i2, j1, j2 in sm.get_opcodes():
            if tag == 'equal':
                for d in range(i2 - i1): is_src[k + idx[i1 + d]] = True
                matched += i2 - i1
            elif tag in ('insert', 'replace'):
                unmatched.append(' '.join(s[sa + j1:sa + j2])[:80])
    tok_align(0, cut, 0, sb)
    # body: first match whole lines (token-identical), then align tokens inside the remaining regions
    def line_groups(tl, lo, hi):
        groups = []   # (first index, last index + 1) per source line
        cur = None
        for i in range(lo, hi):
            if cur is None or tl[i].line != cur:
                groups.append([i, i + 1]); cur = tl[i].line
            else: groups[-1][1] = i + 1
        return groups
    pg = line_groups(toks[k:], pb, len(p)); sg = line_groups(src_toks, sb, len(s))
    pl = [tuple(p[a:b]) if not any(forced[a:b]) else ('<forced %d>' % a,) for a, b in pg]; sl = [tuple(s[a:b]) for a, b in sg]
    lm = difflib.SequenceMatcher(a=pl, b=sl, autojunk=False)
    for tag, i1, i2, j1, j2 in lm.get_opcodes():
        if tag == 'equal':
            for d in range(i2 - i1):
                a, b = pg[i1 + d]
                for x in range(a, b): is_src[k + x] = True
                matched += b - a
        else:
            pa = pg[i1][0] if i1 < i2 else 0; pz = pg[i2 - 1][1] if i1 < i2 else 0
            sa = sg[j1][0] if j1 < j2 else 0; sz = sg[j2 - 1][1] if j1 < j2 else 0
            if j1 < j2: tok_align(pa, pz, sa, sz)
    if matched != len(s):
        # show the first unmatched source tokens
        un = unmatched
        raise SystemExit('automark: %s: %d source tokens have no counterpart in the mirror: %s' % (name, len(s) - matched, un[:5]))
    # bracket discipline: both tokens of a matched bracket pair must have the same status. The aligner may have matched the
    # closing brace of an inserted block (`proof { .. }`) with a source brace; repair by swapping with the nearest
    # complementary mismatch (the token texts are identical, so the source token sequence is unchanged).
    opens = {'(': ')', '[': ']', '{': '}'}
    stack = []; pairs = []
    for i in range(k, len(toks)):
        t = toks[i].text
        if t in opens: stack.append(i)
        elif t in opens.values():
            if stack and opens[toks[stack[-1]].text] == t: pairs.append((stack.pop(), i))
    def src_seq_ok():
        return [toks[i].text for i in range(k, len(toks)) if is_src[i]] == s
    for _round in range(200):
        A = [(o, c) for o, c in pairs if is_src[o] and not is_src[c]]     # source open, inserted close
        B = [(o, c) for o, c in pairs if not is_src[o] and is_src[c]]     # inserted open, source close
        if not A and not B: break
        if not A or not B: raise SystemExit('automark: %s: unbalanced marking near line %d' % (name, toks[(A or B)[0][1]].line))
        o, c = A[0]
        done = False
        for _, o2, c2 in sorted((abs(c2 - c), o2, c2) for o2, c2 in B if toks[c2].text == toks[c].text):
            for variant in ('closes', 'opens'):
                if variant == 'closes': is_src[c], is_src[c2] = True, False
                else: is_src[o], is_src[o2] = False, True
                if src_seq_ok(): done = True; break
                if variant == 'closes': is_src[c], is_src[c2] = False, True
                else: is_src[o], is_src[o2] = True, False
            if done: break
        if not done: raise SystemExit('automark: %s: cannot repair bracket marking near line %d' % (name, toks[c].line))
    if not src_seq_ok():
        raise SystemExit('automark: %s: marking does not reproduce the source token sequence' % name)
    for i in range(k): is_src[i] = True     # head (visibility etc.) is never marked
    lines = clean.split('\n')
    by_line = {}
    for i, t in enumerate(toks): by_line.setdefault(t.line, []).append(i)
    # line start offsets
    starts = [0]
    for l in lines: starts.append(starts[-1] + len(l) + 1)
    out = []
    for ln, l in enumerate(lines, 1):
        idx = by_line.get(ln, [])
        tagm = TAGC.search(l)
        tag = ''
        if tagm:
            tag = ' ' + tagm.group(1); l_code = l[:tagm.start()]
        else:
            l_code = l
        if not idx:
            # comment-only or blank line: belongs to an annotation if it carries a tag, else leave
            out.append(l_code + (' //@' + tag if tag else '')); continue
        if all(not is_src[i] for i in idx):
            out.append(l_code.rstrip() + ' //@' + tag); continue
        if tag:
            raise SystemExit('automark: %s: tag on a line with source tokens: %r' % (name, l))
        # in-line runs
        res = ''; pos = 0; base = starts[ln - 1]
        run = None
        for i in idx + [None]:
            ann = (i is not None) and not is_src[i]
            if ann and run is None: run = i
            if (not ann) and run is not None:
                a = toks[run].pos - base; last = (idx[idx.index(i) - 1] if i is not None else idx[-1])
                b = toks[last].end - base
                res += l_code[pos:a] + R.ANN_ON + l_code[a:b] + R.ANN_OFF; pos = b; run = None
        res += l_code[pos:]
        out.append(res)
    return '\n'.join(out)


def main(path, repo='/repo'):
    lines = open(path).read().split('\n')
    out = []; i = 0
    while i < len(lines):
        m = X.DIRECTIVE.match(lines[i])
        if not m or m.group(1) != 'FN':
            out.append(lines[i]); i += 1; continue
        args = X.parse_kv(m.group(2))
        j = i + 1; body = []
        while not (X.DIRECTIVE.match(lines[j]) and X.DIRECTIVE.match(lines[j]).group(1) == 'END'):
            body.append(lines[j]); j += 1
        text, toks, it = X.locate(repo, args['file'], 'fn', args.get('owner', '-'), args['name'])
        src = X.fn_item_text(text, toks, it)
        src, _ = X.rewrite_source(src, set(args.get('rewrites', '').split(',')) - {''})
        out.append(lines[i])
        out.append(mark('\n'.join(body), R.lex(src), args['name']))
        out.append(lines[j])
        i = j + 1
    open(path, 'w').write('\n'.join(out))


if __name__ == '__main__':
    main(sys.argv[1], sys.argv[2] if len(sys.argv) > 2 else '/repo')
