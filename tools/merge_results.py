#!/usr/bin/env python3
"""Merge seeded/RESULTS.json files produced by parallel background runs (each run re-checks its own ids only).
   merge_results.py <run_dir>...   (a run dir holds `log` and `verif/seeded/RESULTS.json`); later arguments win.
   Development aid only: the table of DESIGN.md section 9 is generated from the merged file."""
import json, os, sys
HERE = os.path.dirname(os.path.abspath(__file__)); VERIF = os.path.dirname(HERE)
out = {}
for d in sys.argv[1:]:
    if d.endswith('.json'):
        out.update(json.load(open(d))); continue
    res = json.load(open(os.path.join(d, 'verif', 'seeded', 'RESULTS.json')))
    ids = {l.split()[0] for l in open(os.path.join(d, 'log')) if ' OWN ' in l}
    out.update({k: v for k, v in res.items() if k in ids})
have = {x for x in os.listdir(os.path.join(VERIF, 'seeded')) if os.path.isdir(os.path.join(VERIF, 'seeded', x))}
print('merged %d entries; missing: %s' % (len(out), sorted(have - set(out))))
json.dump(out, open(os.path.join(VERIF, 'seeded', 'RESULTS.json'), 'w'), indent=1)
print('detected %d / %d; not detected: %s' % (sum(1 for v in out.values() if v['detected']), len(out), sorted(k for k, v in out.items() if not v['detected'])))
