#!/usr/bin/env python3
"""check.py <property> [--tier quick|thorough]

Regenerates the Verus units from /repo's working tree (tools/extract.py), runs Verus (and the Kani
harnesses registered for the property), maps every failed obligation to property tags, writes
evidence/<property>.json and prints

    VIOLATION property=<id> replay=<path> [no-failing-input-found]      (exit 1)
    KNOWN-FINDING: property=<id> <what fails>                           (exit 0, listed in known_findings.txt)
    UNDECIDED ...                                                       (exit 2: lost anchor, rejected construct, rlimit ...)
"""
import argparse
import concurrent.futures as cf
import hashlib
import json
import os
import re
import shutil
import subprocess
import sys
import time

HERE = os.path.dirname(os.path.abspath(__file__))
VERIF = os.path.dirname(HERE)
sys.path.insert(0, HERE)
import extract as X
import units as U

CANARY = re.compile(r'\bproof\s+fn\s+(verif_canary_\w+)')
CHEATS = [
    (re.compile(r'#\[verifier::external_body\]'), 'external_body'),
    (re.compile(r'\bassume_specification\b'), 'assume_specification'),
    (re.compile(r'\baxiom\s+fn\b'), 'axiom'),
    (re.compile(r'\bassume\s*\('), 'assume'),
    (re.compile(r'(?<![:\w.])admit\s*\(\s*\)'), 'admit'),    # Verus' `admit()`; not the cache's own function `admit(..)`
    (re.compile(r'\buninterp\s+spec\s+fn\b'), 'uninterpreted spec fn'),
    (re.compile(r'#\[verifier::external\]'), 'external'),
    (re.compile(r'#\[verifier::exec_allows_no_decreases_clause\]'), 'no-decreases'),
]


def sh(cmd, cwd=None, timeout=None, env=None):
    p = subprocess.run(cmd, cwd=cwd, stdout=subprocess.PIPE, stderr=subprocess.PIPE, text=True, timeout=timeout, env=env)
    return p.returncode, p.stdout, p.stderr


def repo_state(repo):
    rc, head, _ = sh(['git', '-C', repo, 'rev-parse', 'HEAD'])
    rc2, st, _ = sh(['git', '-C', repo, 'status', '--porcelain', '--untracked-files=no'])
    return dict(head=head.strip(), dirty=bool(st.strip()), dirty_files=[l[3:] for l in st.strip().split('\n') if l.strip()])


# ----------------------------------------------------------------------------------------------
# Verus
# ----------------------------------------------------------------------------------------------

def scan_cheats(text):
    found = {}
    for ln, l in enumerate(text.split('\n'), 1):
        code = l.split('//')[0]
        for rx, name in CHEATS:
            if rx.search(code):
                found.setdefault(name, []).append(ln)
    return found


def vacuity_variant(text, blocks):
    """insert `proof { assert(false); }` at the start of every FN body: every function must then FAIL,
    i.e. no precondition is contradictory and the environment's axioms are not inconsistent on that path."""
    lines = text.split('\n')
    for b in blocks:
        if b['kind'] != 'FN': continue
        seg = '\n'.join(lines[b['first_line'] - 1:b['last_line']])
        toks = X.R.lex(seg, markers=True)
        k = next(i for i, t in enumerate(toks) if t.text == 'fn' and not t.ann)
        # body brace: first non-annotated `{` at bracket depth 0 after the signature
        j = k; depth = 0; body = None
        while j < len(toks):
            t = toks[j]
            if t.text in ('(', '['): depth += 1
            elif t.text in (')', ']'): depth -= 1
            elif t.text == '{' and depth == 0 and not t.ann:
                body = t; break
            j += 1
        if body is None: continue
        seg = seg[:body.end] + ' /*@+*/ proof { assert(false); } /*@-*/ ' + seg[body.end:]
        nl = seg.split('\n')
        assert len(nl) == b['last_line'] - b['first_line'] + 1
        lines[b['first_line'] - 1:b['last_line']] = nl
    return '\n'.join(lines)


def run_verus(path, rlimit, extra=()):
    cmd = ['verus', os.path.basename(path), '--triggers-mode', 'silent', '--output-json', '--error-format=json', '--time',
           '--multiple-errors', '10', '--rlimit', str(rlimit), '--no-report-long-running'] + list(extra)
    t0 = time.time()
    try:
        rc, out, err = sh(cmd, cwd=os.path.dirname(path), timeout=1500)
    except subprocess.TimeoutExpired:
        return dict(cmd=' '.join(cmd), rc=None, timeout=True, wall=time.time() - t0, out='', err='')
    return dict(cmd=' '.join(cmd), rc=rc, timeout=False, wall=time.time() - t0, out=out, err=err)


def parse_verus(run, text, blocks, linemap):
    """-> dict(status, reason, diags, functions, verified, errors, times)"""
    res = dict(status='ok', reason='', diags=[], functions=[], verified=0, errors=0, smt_ms=0, total_ms=0)
    if run.get('timeout'):
        res.update(status='undecided', reason='verus timed out'); return res
    try:
        j = json.loads(run['out'])
    except Exception:
        res.update(status='undecided', reason='verus produced no JSON (crash?): ' + run['err'][-2000:]); return res
    vr = j.get('verification-results', {})
    res['verified'] = vr.get('verified', 0); res['errors'] = vr.get('errors', 0)
    tm = j.get('times-ms', {})
    res['total_ms'] = tm.get('total', 0)
    smt = tm.get('smt', {})
    res['smt_ms'] = smt.get('total', 0)
    for mt in smt.get('smt-run-module-times', []):
        for fb in mt.get('function-breakdown', []):
            res['functions'].append(dict(function=fb['function'].split('::', 1)[-1], mode=fb.get('mode:', ''), ms=fb.get('time', 0),
                                         rlimit=fb.get('rlimit', 0), success=fb.get('success', False)))
    lines = text.split('\n')
    canary_lines = {}
    for ln, l in enumerate(lines, 1):
        m = CANARY.search(l)
        if m: canary_lines[ln] = m.group(1)
    res['canaries_expected'] = sorted(set(canary_lines.values()))
    res['canaries_failed'] = []
    block_of_line = {}
    for bi, b in enumerate(blocks):
        for ln in range(b['first_line'], b['last_line'] + 1): block_of_line[ln] = bi
    hard_errors = []
    for l in run['err'].split('\n'):
        l = l.strip()
        if not l.startswith('{'): continue
        try: d = json.loads(l)
        except Exception: continue
        if d.get('level') != 'error': continue
        msg = d.get('message', '')
        if msg.startswith('aborting due to'): continue
        spans = d.get('spans', [])
        sp_lines = [(s['line_start'], s.get('is_primary', False), s.get('label') or '') for s in spans]
        if any(ln in canary_lines for ln, _, _ in sp_lines):
            for ln, _, _ in sp_lines:
                if ln in canary_lines: res['canaries_failed'].append(canary_lines[ln])
            continue
        is_verif = any(k in msg for k in (
            'postcondition not satisfied', 'precondition not satisfied', 'invariant not satisfied', 'assertion failed',
            'possible arithmetic', 'possible division by zero', 'possible bit shift', 'decreases not satisfied', 'recommendation not met',
            'index out of bounds', 'unreachable', 'panic', 'possible', 'cannot show', 'could not prove', 'loop invariant', 'Resource limit', 'rlimit',
            'termination', 'failed', 'unable to prove', 'post-condition', 'pre-condition'))
        if d.get('code') or not spans or not is_verif:
            hard_errors.append(msg + ' @' + ','.join(str(x[0]) for x in sp_lines)); continue
        if 'Resource limit' in msg or 'rlimit' in msg:
            res['rlimit'] = res.get('rlimit', []) + [msg + ' @' + ','.join(str(x[0]) for x in sp_lines)]
            continue
        prim = next((ln for ln, p, _ in sp_lines if p), sp_lines[0][0])
        bi = block_of_line.get(prim)
        tags = set()
        clause_lines = []
        for ln, p, lab in sp_lines:
            tg = linemap.get(ln, (None, ''))[1] if isinstance(linemap.get(ln), tuple) else ''
            m = X.TAGS.search(lines[ln - 1]) if 0 < ln <= len(lines) else None
            if m:
                tags |= set(m.group(1).replace(' ', '').split(','))
                clause_lines.append(ln)
        kind = 'clause'
        if not tags:
            if 'arithmetic' in msg or 'overflow' in msg or 'underflow' in msg or 'bit shift' in msg or 'division' in msg:
                tags = {'C08'}; kind = 'arithmetic'
            elif bi is not None:
                # an inserted proof hint (assert / lemma precondition) or an untagged clause failed. Verus assumes a failed
                # hint for the rest of the body, so the contract clauses that depended on it are not re-reported: attribute
                # a failed HINT to every property the function's clauses serve, an untagged CLAUSE to the function's own tags.
                is_hint = ('assertion failed' in msg) or ('precondition not satisfied' in msg and not any(
                    X.TAGS.search(lines[ln - 1]) for ln, _, _ in sp_lines if 0 < ln <= len(lines)))
                tags = set(blocks[bi].get('all_tags', blocks[bi]['tags'])) if is_hint else set(blocks[bi]['tags'])
                kind = 'hint' if is_hint else 'untagged'
        fn = (blocks[bi]['owner'] + '::' + blocks[bi]['name']) if bi is not None else None
        res['diags'].append(dict(message=msg, fn=fn, block=bi, line=prim, kind=kind, tags=sorted(tags),
                                 clause=[lines[ln - 1].strip() for ln in clause_lines] or [lines[prim - 1].strip()],
                                 source_status=blocks[bi]['status'] if bi is not None else None,
                                 rendered=d.get('rendered', '')))
    if hard_errors:
        res.update(status='undecided', reason='verus rejected the unit (not a proof failure): ' + ' | '.join(hard_errors[:3]))
    elif not vr:
        res.update(status='undecided', reason='no verification results')
    elif vr.get('encountered-vir-error'):
        res.update(status='undecided', reason='VIR error: ' + run['err'][-1500:])
    return res


def verus_unit(name, cfg, repo, build, tier):
    r = dict(unit=name, kind='verus', template=cfg['template'])
    t0 = time.time()
    # DEGRADE, DO NOT GIVE UP: a function whose annotations cannot be carried onto the current source (lost anchor, a rewrite
    # that is refused, re-anchoring that yields text Verus rejects) is replaced by its CONTRACT ONLY (`external_body` stub made
    # from the mirror's header). It is then an assumed contract: every property it serves is UNDECIDED in this run, the other
    # functions of the unit are still verified (callers against that contract). Never a violation, never silent.
    stub = {}
    path = os.path.join(build, name + '.rs')
    for _round in range(4):
        try:
            text, blocks, linemap = X.assemble(os.path.join(VERIF, cfg['template']), repo, stub=stub, tolerant=True)
        except X.ExtractError as e:
            r.update(status='undecided', reason='extractor: %s' % e, blocks=[], diags=[], functions=[], wall=time.time() - t0)
            return r
        open(path, 'w').write(text)
        run = run_verus(path, cfg.get('rlimit', 30))
        p = parse_verus(run, text, blocks, linemap)
        if p['status'] != 'undecided' or 'verus rejected the unit' not in p.get('reason', ''): break
        # which extracted functions do the rejections point into?
        hit = {}
        for m in re.finditer(r'([^|]*?) @([\d,]+)', p['reason'].split(': ', 1)[-1]):
            for ln in m.group(2).split(','):
                if not ln: continue
                for b in blocks:
                    if b['kind'] == 'FN' and not b.get('stubbed') and b['first_line'] <= int(ln) <= b['last_line']:
                        hit[(b['owner'], b['name'])] = 'verus rejected the re-anchored text: ' + m.group(1).strip(' |')[:120]
        if not hit: break
        stub.update(hit)
    r['unit_path'] = path
    r['unit_sha256'] = hashlib.sha256(text.encode()).hexdigest()
    r['blocks'] = blocks
    r['stubbed'] = [dict(function=b['owner'] + '::' + b['name'], tags=sorted(b.get('all_tags', b['tags'])), reason=b['stubbed']) for b in blocks if b.get('stubbed')]
    r['cheats'] = scan_cheats(text)
    # an edited loop (e.g. `for` rewritten as `while`) has no `decreases`: Verus refuses the unit. Termination is not one of
    # the claimed properties (C09 is not applicable), so re-run with the termination check switched off for exactly those
    # functions and say so in the evidence; every other obligation of the function is still generated.
    r['termination_unchecked'] = []
    for _attempt in range(4):
        mm = re.search(r'loop must have a decreases clause @(\d+)', p.get('reason', '')) if p['status'] == 'undecided' else None
        if not mm: break
        ln = int(mm.group(1))
        b = next((b for b in blocks if b['kind'] == 'FN' and b['first_line'] <= ln <= b['last_line']), None)
        if b is None: break
        L = text.split('\n')
        L[b['first_line'] - 1] = '#[verifier::exec_allows_no_decreases_clause] ' + L[b['first_line'] - 1]
        text = '\n'.join(L)
        open(path, 'w').write(text)
        r['termination_unchecked'].append(b['owner'] + '::' + b['name'])
        run = run_verus(path, cfg.get('rlimit', 30))
        p = parse_verus(run, text, blocks, linemap)
    if p.get('rlimit') and p['status'] == 'ok':
        run = run_verus(path, cfg.get('rlimit', 30) * 10)
        p = parse_verus(run, text, blocks, linemap)
        if p.get('rlimit'):
            p.update(status='undecided', reason='resource limit exceeded after retry with 10x rlimit: ' + '; '.join(p['rlimit'][:3]))
    r.update(p)
    r['cmd'] = run['cmd']
    # an annotation INSIDE an edited function's closure: the inserted `ensures` of a closure was written for the old closure text.
    # When the function was edited (re-anchored) and such an annotation fails, this is not evidence against the code, and since
    # Verus assumes a closure's `ensures` at its call sites, nothing else reported for that function can be trusted either: every
    # diagnostic of that function is dropped and the properties it serves are UNDECIDED in this run (never a violation).
    stale_blocks = {d['block'] for d in r['diags'] if d.get('block') is not None and 'closure' in d['message'] and blocks[d['block']]['status'] != 'identical'}
    if stale_blocks:
        r['diags'] = [d for d in r['diags'] if d.get('block') not in stale_blocks]
        for bi in sorted(stale_blocks):
            bl = blocks[bi]
            r['stubbed'].append(dict(function=bl['owner'] + '::' + bl['name'], tags=sorted(bl.get('all_tags', bl['tags'])),
                                     reason='an inserted closure annotation no longer fits the edited function'))
    # a loop of these functions was restructured (no `decreases` fits any more): the inserted invariants were written for the
    # old loop form, so a failed obligation there is not evidence against the code: undecided, never a violation
    if r['status'] == 'ok' and r['termination_unchecked']:
        hit = [d for d in r['diags'] if d['fn'] in r['termination_unchecked']]
        if hit:
            r.update(status='undecided', reason='loop restructured in %s: the loop annotations no longer fit (%s)' % (hit[0]['fn'], hit[0]['message']))
            r['diags'] = [d for d in r['diags'] if d['fn'] not in r['termination_unchecked']]
    # a diagnostic outside every extracted function is a failure of the proof infrastructure, not of the code
    if r['status'] == 'ok':
        stray = [d for d in r['diags'] if d['block'] is None]
        if stray:
            r.update(status='undecided', reason='failure outside extracted code: %s line %d' % (stray[0]['message'], stray[0]['line']))
    if r['status'] == 'ok':
        if sorted(set(r['canaries_failed'])) != r['canaries_expected']:
            r.update(status='undecided', reason='vacuity canary did not fail (inconsistent environment?): expected %s failed %s' % (r['canaries_expected'], r['canaries_failed']))
    # vacuity pass: every extracted function must fail `assert(false)` at the top of its body
    r['vacuity'] = None
    if r['status'] == 'ok' and not r['diags'] and (tier == 'thorough' or cfg.get('vacuity_quick')):
        vtext = vacuity_variant(text, blocks)
        vpath = os.path.join(build, name + '_vacuity.rs')
        open(vpath, 'w').write(vtext)
        vrun = run_verus(vpath, cfg.get('rlimit', 30))
        vp = parse_verus(vrun, vtext, blocks, linemap)
        failed_blocks = {d['block'] for d in vp['diags']}
        # functions declared `never_called=1` have the precondition `false` BY DESIGN (the `unreachable!()` setters of the node
        # kinds that carry no such stamp): their bodies are unreachable, which is exactly what their contract says
        fnblocks = [i for i, b in enumerate(blocks) if b['kind'] == 'FN' and not b.get('never_called') and not b.get('stubbed')]
        never = [blocks[i]['owner'] + '::' + blocks[i]['name'] for i, b in enumerate(blocks) if b['kind'] == 'FN' and b.get('never_called')]
        missing = [blocks[i]['owner'] + '::' + blocks[i]['name'] for i in fnblocks if i not in failed_blocks]
        r['vacuity'] = dict(functions=len(fnblocks), reachable=len(fnblocks) - len(missing), vacuous=missing, never_called_by_contract=never, wall=vrun['wall'])
        if vp['status'] != 'ok':
            r['vacuity'] = dict(functions=len(fnblocks), reachable=None, vacuous=[], wall=vrun['wall'], note='vacuity variant undecided: ' + vp['reason'])
        elif missing:
            r.update(status='undecided', reason='vacuous contract (assert(false) verified) in: ' + ', '.join(missing))
    r['wall'] = time.time() - t0
    return r


# ----------------------------------------------------------------------------------------------
# Kani
# ----------------------------------------------------------------------------------------------

def copy_tree(repo, scratch):
    """copy the CURRENT working tree (tracked and untracked-but-not-ignored files; no build output) to a scratch directory"""
    rc, _, _ = sh(['git', '-C', repo, 'rev-parse', '--is-inside-work-tree'])
    if rc == 0:
        rc, out, err = sh(['bash', '-c', 'cd %s && git ls-files -co --exclude-standard -z | xargs -0 -I{} cp --parents {} %s/ 2>/dev/null; (cp -n Cargo.lock %s/ 2>/dev/null || true); test -f %s/Cargo.toml' % (repo, scratch, scratch, scratch)])
    else:
        rc, out, err = sh(['bash', '-c', 'rsync -a --exclude target --exclude .git %s/ %s/ && test -f %s/Cargo.toml' % (repo, scratch, scratch)])
    return rc, out, err


def kani_playback(scratch, env, cfg, h):
    """CBMC's counterexample replayed on the real code: re-run the failed harness with concrete playback, add the generated
    unit tests to a COPY of the harness file inside the scratch tree and execute them natively (`cargo kani playback`).
    Returns a failing_input record (found=True only when a generated test really fails against the code)."""
    try:
        cmd = ['cargo', 'kani'] + cfg.get('flags', []) + h.get('flags', []) + ['-Z', 'concrete-playback', '--concrete-playback=print', '--harness', h['name']]
        cmd = ['bash', '-c', 'ulimit -v 24000000; exec "$@"', 'kani'] + cmd
        rc, out, err = sh(cmd, cwd=scratch, env=env, timeout=h.get('timeout', 1800))
        tests = re.findall(r'```\n(.*?)```', out, re.S)
        tests = [t for t in tests if 'kani::concrete_playback_run' in t]
        if not tests: return dict(found=False, harness=h['name'], note='kani produced no concrete playback test')
        # the harness file is attached by absolute path: work on a copy inside the scratch tree
        src_h = None; mod_file = None
        for mf, hf in cfg['attach'].items():
            if ('fn %s' % h['name']) in open(os.path.join(VERIF, hf)).read(): src_h, mod_file = os.path.join(VERIF, hf), os.path.join(scratch, mf)
        if not src_h: return dict(found=False, harness=h['name'], tests=tests[:3], note='harness file not found for playback')
        cp = os.path.join(scratch, 'verif_playback_' + os.path.basename(src_h))
        open(cp, 'w').write(open(src_h).read() + '\n#[cfg(kani)]\nmod verif_playback {\nuse super::*;\n' + '\n'.join(tests) + '\n}\n')
        ms = open(mod_file).read().replace(src_h, cp)
        open(mod_file, 'w').write(ms)
        rc, out2, err2 = sh(['cargo', 'kani', 'playback', '-Z', 'concrete-playback', '--', 'kani_concrete_playback'], cwd=scratch, env=env, timeout=900)
        open(mod_file, 'w').write(ms.replace(cp, src_h))
        lines = [l for l in (out2 + err2).split('\n') if re.search(r'^test .*(FAILED|ok)$|panicked at|test result', l)]
        failed = any(l.endswith('FAILED') for l in lines)
        return dict(found=failed, kind='CBMC counterexample replayed natively on the real code (cargo kani playback)', harness=h['name'],
                    concrete_playback_tests=tests[:3], replay_output=lines[:12])
    except Exception as e:
        return dict(found=False, harness=h['name'], note='playback failed: %s' % e)


def kani_unit(name, cfg, repo, build, tier, prop=None):
    """copy the working tree to a scratch dir, append one `#[cfg(kani)] mod` line per harness file, run the harnesses"""
    r = dict(unit=name, kind='kani', status='ok', reason='', diags=[], harnesses=[], wall=0.0)
    t0 = time.time()
    scratch = os.path.join('/tmp', 'verif_kani_%s_%d' % (name, os.getpid()))
    shutil.rmtree(scratch, ignore_errors=True)
    try:
        os.makedirs(scratch)
        rc, out, err = copy_tree(repo, scratch)
        if rc != 0:
            r.update(status='undecided', reason='cannot copy repo: ' + err[-500:]); return r
        for mod_file, harness_file in cfg['attach'].items():
            dst = os.path.join(scratch, mod_file)
            if not os.path.exists(dst):
                r.update(status='undecided', reason='lost anchor: %s missing' % mod_file); return r
            hp = os.path.join(VERIF, harness_file)
            with open(dst, 'a') as f:
                f.write('\n#[cfg(kani)]\n#[path = "%s"]\nmod verif_k_%s;\n' % (hp, re.sub(r'\W', '_', os.path.basename(harness_file).replace('.rs', ''))))
        env = dict(os.environ, CARGO_NET_OFFLINE='true', CARGO_TARGET_DIR=os.path.join(scratch, 'target'))
        hs = [h for h in cfg['harnesses'] if (tier == 'thorough' or not h.get('thorough_only')) and (prop is None or prop in h['tags'])]
        # compile once (first harness), then the rest in parallel
        def run_h(h):
            t1 = time.time()
            cmd = ['cargo', 'kani'] + cfg.get('flags', []) + h.get('flags', []) + ['--harness', h['name']]
            if tier == 'thorough' and h.get('thorough_flags'): cmd += h['thorough_flags']
            # CBMC can exhaust memory on a harness that an edit has made harder: cap the address space (24 GB) and the time
            cmd = ['bash', '-c', 'ulimit -v 24000000; exec "$@"', 'kani'] + cmd
            try:
                rc, out, err = sh(cmd, cwd=scratch, env=env, timeout=h.get('timeout', 1800))
            except subprocess.TimeoutExpired:
                return dict(h, rc=None, result='TIMEOUT', wall=time.time() - t1, checks=0, failed_checks=[], out='')
            # `--harness` matches by substring: should several harnesses have run, any failure counts
            allres = re.findall(r'VERIFICATION:- (\w+)', out)
            result = ('FAILED' if 'FAILED' in allres else allres[0]) if allres else 'NO-RESULT'
            if re.search(r'\*\* 0 of \d+ failed', out) and h.get('should_panic'): pass
            mm = re.search(r'\*\* (\d+) of (\d+) failed', out)
            nchecks = int(mm.group(2)) if mm else 0
            failed = re.findall(r'Failed Checks: (.*)', out)
            cover = re.findall(r'\*\* (\d+) of (\d+) cover properties satisfied', out)
            vt = re.search(r'Verification Time: ([0-9.]+)s', out)
            return dict(h, rc=rc, result=result, wall=time.time() - t1, checks=nchecks, failed_checks=failed,
                        cover=[(int(a), int(b)) for a, b in cover], cbmc_s=float(vt.group(1)) if vt else None,
                        out=out[-6000:] + '\n--- stderr ---\n' + err[-3000:])
        results = []
        if hs:
            results.append(run_h(hs[0]))
            with cf.ThreadPoolExecutor(max_workers=cfg.get('jobs', 6)) as ex:
                results += list(ex.map(run_h, hs[1:]))
        for h in results:
            ok = h['result'] == 'SUCCESSFUL'
            # cover properties: `cover_unsat` harnesses demand that NO cover is satisfied, others that ALL are
            if ok and h.get('cover') :
                sat, tot = h['cover'][-1]
                if h.get('cover_must_be_unsat') and sat != 0: ok = False; h['failed_checks'].append('a cover that must be unreachable was satisfied (%d of %d)' % (sat, tot))
                if not h.get('cover_must_be_unsat') and sat != tot:
                    r.update(status='undecided', reason='vacuity: cover unsatisfied in harness %s (%d of %d)' % (h['name'], sat, tot))
            r['harnesses'].append(dict(name=h['name'], tags=h['tags'], result=h['result'], ok=ok, wall=round(h['wall'], 1), checks=h['checks'],
                                       cbmc_s=h.get('cbmc_s'), bounded=h.get('bounded'), what=h.get('what', ''), failed_checks=h['failed_checks']))
            if h['result'] in ('TIMEOUT', 'NO-RESULT'):
                r.update(status='undecided', reason='kani harness %s: %s %s' % (h['name'], h['result'], h['out'][-1500:]))
            elif not ok:
                fi = None
                if not h.get('should_panic'):
                    fi = kani_playback(scratch, env, cfg, h)
                r['diags'].append(dict(message='kani harness %s FAILED: %s' % (h['name'], '; '.join(h['failed_checks'][:4])), fn=h.get('function', h['name']), block=None,
                                       line=0, kind='kani', tags=h['tags'], clause=h['failed_checks'][:6], source_status='in place', rendered=h['out'][-4000:],
                                       failing_input=fi))
    finally:
        shutil.rmtree(scratch, ignore_errors=True)
        r['wall'] = time.time() - t0
    return r


# ----------------------------------------------------------------------------------------------
# bounded runtime stand-in (real crate, executable form of the contracts); also the replay aid
# ----------------------------------------------------------------------------------------------

def rt_unit(name, cfg, repo, build, tier, prop=None):
    r = dict(unit=name, kind='rt', status='ok', reason='', diags=[], summary=None, wall=0.0, findings=[])
    t0 = time.time()
    scratch = os.path.join('/tmp', 'verif_rt_%s_%d' % (name, os.getpid()))
    shutil.rmtree(scratch, ignore_errors=True)
    try:
        os.makedirs(scratch)
        rc, out, err = copy_tree(repo, scratch)
        if rc != 0:
            r.update(status='undecided', reason='cannot copy repo: ' + err[-500:]); return r
        for mod_file, spec in cfg['attach'].items():
            harness_file, modname, public = spec if isinstance(spec, (tuple, list)) else (spec, 'verif_rt', False)
            dst = os.path.join(scratch, mod_file)
            if not os.path.exists(dst):
                r.update(status='undecided', reason='lost anchor: %s missing' % mod_file); return r
            with open(dst, 'a') as f:
                f.write('\n#[cfg(test)]\n#[path = "%s"]\n%smod %s;\n' % (os.path.join(VERIF, harness_file), 'pub(crate) ' if public else '', modname))
        env = dict(os.environ, CARGO_NET_OFFLINE='true', CARGO_TARGET_DIR=os.path.join(scratch, 'target'), VERIF_RT_TIER=tier,
                   VERIF_SEED=os.environ.get('VERIF_SEED', '1') or '1')
        cmd = ['cargo', 'test', '--offline', '--lib', cfg['test'], '--', '--nocapture', '--test-threads', '1']
        try:
            rc, out, err = sh(cmd, cwd=scratch, env=env, timeout=cfg.get('timeout', 1500))
        except subprocess.TimeoutExpired:
            r.update(status='undecided', reason='runtime harness timed out'); return r
        r['cmd'] = ' '.join(cmd)
        m = re.search(r'RT-SUMMARY (.*)', out)
        if m:
            r['summary'] = dict(kv.split('=', 1) for kv in m.group(1).split() if '=' in kv)
        for l in out.split('\n'):
            fm = re.search(r'RT-FAIL tags=(\S+) what=(.*?) cfg=(.*?) failing_op_index=(\d+) history=(.*)$', l.strip())
            if fm:
                f = dict(tags=fm.group(1).split(','), what=fm.group(2), cfg=fm.group(3), history=fm.group(5))
                r['findings'].append(f)
                r['diags'].append(dict(message='bounded runtime contract check: ' + f['what'], fn=cfg.get('fn', 'unsync::Cache(runtime)'), block=None, line=0, kind='rt', tags=f['tags'],
                                       clause=['cfg=%s history=%s' % (f['cfg'], f['history'])], source_status='real crate', rendered=l.strip(),
                                       failing_input=dict(found=True, harness=name, config=f['cfg'], history=f['history'], observed=f['what'],
                                                          rerun='attach %s as #[cfg(test)] child modules and run: %s' % (json.dumps(cfg['attach']), ' '.join(cmd)))))
        if not m and not r['findings']:
            # the harness did not run to its summary: it does not compile against the edited source (undecided), or it panicked
            pm = re.search(r"panicked at (.*)", out)
            if 'error[' in err or 'error:' in err and 'could not compile' in err:
                r.update(status='undecided', reason='runtime harness does not compile against this source: ' + ' | '.join(re.findall(r'^error.*$', err, re.M)[:3]))
            elif pm:
                # a panic inside the cache under test (internal invariant check, overflow, unwrap): C08
                loc = re.search(r'panicked at ([^\n]*)\n([^\n]*)', out + err)
                what = 'panic while executing a history: %s' % ((loc.group(1) + ' ' + loc.group(2)) if loc else pm.group(1))
                r['findings'].append(dict(tags=['C08'], what=what, cfg='', history='(see output)'))
                r['diags'].append(dict(message='bounded runtime contract check: ' + what, fn=cfg.get('fn', 'unsync::Cache(runtime)'), block=None, line=0, kind='rt', tags=['C08'], clause=[what],
                                       source_status='real crate', rendered=(out + err)[-3000:], failing_input=dict(found=True, harness=name, observed=what)))
            else:
                r.update(status='undecided', reason='runtime harness produced no summary: ' + (out + err)[-800:])
    finally:
        shutil.rmtree(scratch, ignore_errors=True)
        r['wall'] = time.time() - t0
    return r


# ----------------------------------------------------------------------------------------------
# known findings
# ----------------------------------------------------------------------------------------------

def cfg_what(unit):
    return getattr(U, 'RT_UNITS', {}).get(unit, {}).get('what', 'runtime form of the contracts executed against the real crate')


def load_known():
    known, fixed = [], []
    p = os.path.join(VERIF, 'known_findings.txt')
    if os.path.exists(p):
        for l in open(p):
            l = l.strip()
            if l.startswith('fixed:'): fixed.append(l)
            m = re.match(r'known:\s+property=(C\d+)\s+unit=(\S+)\s+fn=(\S+)\s+obligation=(.*?)\s+::\s+(.*)$', l)
            if m: known.append(dict(prop=m.group(1), unit=m.group(2), fn=m.group(3), obligation=m.group(4), what=m.group(5)))
    return known, fixed


def is_known(known, prop, unit, d):
    for k in known:
        if k['prop'] == prop and k['unit'] == unit and k['fn'] == (d['fn'] or '') and \
                (k['obligation'] in d['message'] or any(k['obligation'] in c for c in d['clause'])):
            return k
    return None


# ----------------------------------------------------------------------------------------------
# main
# ----------------------------------------------------------------------------------------------

def matrix(a):
    """development aid: run every unit ONCE against --repo and print one verdict line per claimed property
    (no evidence is written, no replay files). Used by the mutation / seeded sensitivity passes."""
    build = os.path.join(VERIF, 'build', 'MATRIX-' + hashlib.sha256(a.repo.encode()).hexdigest()[:8])
    shutil.rmtree(build, ignore_errors=True); os.makedirs(build)
    results = []
    with cf.ThreadPoolExecutor(max_workers=8) as ex:
        futs = [ex.submit(verus_unit, n, c, a.repo, build, a.tier) for n, c in U.VERUS_UNITS.items()]
        futs += [ex.submit(kani_unit, n, c, a.repo, build, a.tier, None) for n, c in U.KANI_UNITS.items()]
        futs += [ex.submit(rt_unit, n, c, a.repo, build, a.tier, None) for n, c in getattr(U, 'RT_UNITS', {}).items()]
        for f in futs: results.append(f.result())
    known, _ = load_known()
    props = sorted(set(U.CLAIMS))
    for prop in props:
        mine = [r for r in results if prop in (U.VERUS_UNITS.get(r['unit']) or U.KANI_UNITS.get(r['unit']) or U.RT_UNITS.get(r['unit']))['props']]
        v = [(r, d) for r in mine for d in r['diags'] if prop in d['tags'] and not is_known(known, prop, r['unit'], d)]
        und = [r for r in mine if r['status'] != 'ok']
        und += [dict(r, reason='; '.join('%s not under contract in this source (%s): assumed' % (s['function'], s['reason'][:120]) for s in r.get('stubbed', []) if prop in s['tags'])) for r in mine if r['status'] == 'ok' and any(prop in s['tags'] for s in r.get('stubbed', []))]
        rc = 1 if v else (2 if und else 0)
        detail = ('%s fn=%s %s :: %s' % (v[0][0]['unit'], v[0][1]['fn'], v[0][1]['message'], ' | '.join(v[0][1]['clause'])[:160])) if v else (und[0]['reason'][:200] if und else '')
        print('MATRIX %s %d %s' % (prop, rc, detail.replace('\n', ' ')))
    shutil.rmtree(build, ignore_errors=True)
    sys.exit(0)


def main():
    ap = argparse.ArgumentParser()
    ap.add_argument('prop')
    ap.add_argument('--tier', default=os.environ.get('VERIF_TIER', 'quick'), choices=['quick', 'thorough'])
    ap.add_argument('--repo', default=os.environ.get('VERIF_REPO', '/repo'))
    ap.add_argument('--keep', action='store_true')
    ap.add_argument('--replay')
    a = ap.parse_args()
    if a.replay:
        rp = json.load(open(a.replay))
        print('replay of %s (recorded at repo %s%s)' % (a.replay, rp['repo']['head'][:12], ', dirty' if rp['repo']['dirty'] else ''))
        for o in rp['failed_obligations']:
            print('  obligation: unit=%s fn=%s %s :: %s' % (o['unit'], o['function'], o['message'], ' | '.join(o['obligation'])[:300]))
        if rp.get('failing_input'): print('  failing input: %s' % json.dumps(rp['failing_input'])[:2000])
        print('re-running the obligations on the current tree ...')
    if a.prop == 'MATRIX':
        return matrix(a)
    prop = a.prop
    seed = int(os.environ.get('VERIF_SEED', '1') or 1)
    t0 = time.time()
    build = os.path.join(VERIF, 'build', prop if os.path.realpath(a.repo) == '/repo' else prop + '-' + hashlib.sha256(a.repo.encode()).hexdigest()[:8])
    shutil.rmtree(build, ignore_errors=True)
    os.makedirs(build)
    os.makedirs(os.path.join(VERIF, 'evidence'), exist_ok=True)

    vunits = {n: c for n, c in U.VERUS_UNITS.items() if prop in c['props']}
    kunits = {n: c for n, c in U.KANI_UNITS.items() if prop in c['props']}
    runits = {n: c for n, c in getattr(U, 'RT_UNITS', {}).items() if prop in c['props']}
    if not vunits and not kunits:
        print('property %s has no registered check (see MANIFEST.not_applicable)' % prop); sys.exit(2)
    results = []
    with cf.ThreadPoolExecutor(max_workers=8) as ex:
        futs = [ex.submit(verus_unit, n, c, a.repo, build, a.tier) for n, c in vunits.items()]
        futs += [ex.submit(kani_unit, n, c, a.repo, build, a.tier, prop) for n, c in kunits.items()]
        futs += [ex.submit(rt_unit, n, c, a.repo, build, a.tier, prop) for n, c in runits.items()]
        for f in futs: results.append(f.result())

    known, fixed = load_known()
    undecided = [r for r in results if r['status'] != 'ok']
    for r in results:
        mine = [s for s in r.get('stubbed', []) if prop in s['tags']]
        if r['status'] == 'ok' and mine:
            undecided.append(dict(r, reason='; '.join('%s is not under contract in this source (%s): assumed, so %s is undecided' % (s['function'], s['reason'][:200], prop) for s in mine)))
    violations, known_hits = [], []
    for r in results:
        for d in r['diags']:
            if prop in d['tags']:
                k = is_known(known, prop, r['unit'], d)
                (known_hits if k else violations).append((r, d, k))

    # ---- evidence -------------------------------------------------------------------------
    obligations = discharged = 0
    fn_under_contract, samples, assumptions, backends = [], [], [], []
    smt_ms = 0; cbmc_s = 0.0
    clause_count = 0
    bounded = []
    for r in results:
        if r['kind'] == 'verus':
            tagged = {}
            def bkey(b): return (b['owner'] + '::' + b['name']) if b['kind'] == 'FN' else b['name']
            allkeys = {bkey(b) for b in r.get('blocks', []) if b['kind'] in ('FN', 'STATIC')}
            for b in r.get('blocks', []):
                if b['kind'] in ('FN', 'STATIC') and prop in b.get('all_tags', b['tags']):
                    tagged[bkey(b)] = b
            failed_fns = {d['fn'] for d in r['diags'] if prop in d['tags']} | {(d['fn'] or '').split('::')[-1] for d in r['diags'] if prop in d['tags'] and (d['fn'] or '').startswith('-::')}
            for f in r.get('functions', []):
                short = '::'.join(f['function'].split('::')[-2:])
                if short not in allkeys and short.split('::')[-1] in allkeys: short = short.split('::')[-1]
                is_block = short in allkeys
                if is_block and short not in tagged: continue          # extracted function that does not serve this property
                if 'verif_canary' in f['function']: continue
                obligations += 1
                if short not in failed_fns and (f['success'] or is_block): discharged += 1
            smt_ms += r.get('smt_ms', 0)
            for k, b in tagged.items():
                fn_under_contract.append('%s %s (%s, line %d, %s)' % (r['unit'], k, b['file'], b['source_line'], b['status']))
            if r.get('unit_path') and os.path.exists(r['unit_path']):
                ul = open(r['unit_path']).read().split('\n')
                for b in tagged.values():
                    for ln in range(b['first_line'], b['last_line'] + 1):
                        m = X.TAGS.search(ul[ln - 1])
                        if m and prop in m.group(1).replace(' ', '').split(','):
                            clause_count += 1
                            if len(samples) < 8: samples.append(dict(unit=r['unit'], function=b['owner'] + '::' + b['name'], obligation=ul[ln - 1].strip()[:300], backend='verus/z3'))
            sigs = [b for b in r.get('blocks', []) if b['kind'] == 'SIG']
            if sigs:
                assumptions.append('%s: %d ASSUMED contracts of /repo functions (external_body stubs; proved in another unit or checked by Kani / not at all) whose parameter names, order%s and return type are compared with the current source on every run: %s' % (
                    r['unit'], len(sigs), ', types', ', '.join(sorted({(b['owner'] + '::' if b['owner'] != '-' else '') + b['name'] for b in sigs}))))
            for name, lns in sorted(r.get('cheats', {}).items()):
                assumptions.append('%s: %d x %s in the assumed environment / specs (unit lines %s%s)' % (r['unit'], len(lns), name, ','.join(map(str, lns[:12])), ',...' if len(lns) > 12 else ''))
            backends.append('verus 0.2026.09.13 / z3: unit %s: %d functions verified, %d errors besides the %d vacuity canaries that must fail, smt %d ms, wall %.1f s' % (
                r['unit'], r.get('verified', 0), r.get('errors', 0) - len(r.get('canaries_expected', [])), len(r.get('canaries_expected', [])), r.get('smt_ms', 0), r.get('wall', 0)))
        elif r['kind'] == 'rt':
            sm = r.get('summary') or {}
            bounded.append(dict(harness=r['unit'], bound='every history of length <= %s over %s operations in %s configurations, plus %s sampled histories (seed %s)' % (
                sm.get('exhaustive_len'), sm.get('alphabet'), sm.get('configs'), sm.get('sampled'), sm.get('seed')), result='%s findings' % sm.get('findings'),
                what=cfg_what(r['unit']),
                histories=int(sm.get('histories', 0) or 0), steps=int(sm.get('steps', 0) or 0), wall_s=round(r.get('wall', 0), 1)))
            backends.append('cargo test (real crate) / runtime contract harness %s: %s histories, wall %.1f s [bounded]' % (r['unit'], sm.get('histories'), r.get('wall', 0)))
        else:
            for h in r.get('harnesses', []):
                if prop not in h['tags']: continue
                if h.get('bounded'):
                    bounded.append(dict(harness=h['name'], bound=h['bounded'], result=h['result'], what=h['what'], checks=h['checks']))
                    continue
                obligations += max(1, h['checks'])
                if h['ok']: discharged += max(1, h['checks'])
                cbmc_s += h.get('cbmc_s') or 0.0
                fn_under_contract.append('kani %s: %s' % (h['name'], h['what']))
                if len(samples) < 10: samples.append(dict(unit=r['unit'], function=h['name'], obligation=h['what'], backend='kani 0.68 / cbmc 6.11', checks=h['checks']))
            backends.append('kani 0.68 / cbmc: unit %s: %d harnesses, wall %.1f s' % (r['unit'], len(r.get('harnesses', [])), r.get('wall', 0)))
    notes = U.NOTES.get(prop, {}) if hasattr(U, 'NOTES') else {}
    ev = dict(
        property_id=prop, tier=a.tier, seed=seed, level=U.LEVEL.get(prop, 'proof'),
        coverage=dict(
            obligations=obligations, discharged=discharged,
            checker_cmd='; '.join(r.get('cmd', 'cargo kani --harness <h>') for r in results),
            trusted_base=(notes.get('trusted_base') or []) + U.TRUSTED_BASE if hasattr(U, 'TRUSTED_BASE') else [],
            explanation=notes.get('explanation') or (U.CLAIMS.get(prop, {}).get('text', '') if hasattr(U, 'CLAIMS') else ''),
            tagged_clauses=clause_count,
            functions_under_contract=fn_under_contract,
            backends=backends, smt_ms=smt_ms, cbmc_s=round(cbmc_s, 1),
            bounded_standins=bounded,
            samples=samples,
            units=[dict(unit=r['unit'], kind=r['kind'], status=r['status'], reason=r['reason'][:500], wall_s=round(r.get('wall', 0), 1),
                        unit_sha256=r.get('unit_sha256'), vacuity=r.get('vacuity'),
                        extraction=[dict(fn=b['owner'] + '::' + b['name'], file=b['file'], line=b['source_line'], status=b['status'], rewrites=b['rewrites'],
                                         source_tokens=b['source_tokens'], inserted_tokens=b['inserted_tokens']) for b in r.get('blocks', [])]) for r in results],
            repo=repo_state(a.repo),
            extraction_drops='everything of /repo not listed under functions_under_contract; doc comments, attributes and visibility before `fn`; the concrete definitions of dependency types (replaced by the assumed environment)',
            fixed_findings=[l for l in fixed if 'property=%s ' % prop in l],
        ),
        assumptions=assumptions + (notes.get('assumptions') or []),
        wall_s=round(time.time() - t0, 1),
        violations=len(violations),
    )
    if not ev['coverage']['explanation']: del ev['coverage']['explanation']
    # evidence is only (re)written when the check runs against /repo itself; runs against scratch copies (mutation / seeded
    # sensitivity passes) leave their record next to the generated units
    evpath = os.path.join(VERIF, 'evidence', prop + '.json') if os.path.realpath(a.repo) == '/repo' else os.path.join(build, 'evidence.json')
    open(evpath, 'w').write(json.dumps(ev, indent=1))

    for r in results:
        print('[%s] unit %-12s %-9s wall %.1fs %s' % (prop, r['unit'], r['status'], r.get('wall', 0), r['reason'][:300]))
    for r, d, k in known_hits:
        print('KNOWN-FINDING: property=%s %s' % (prop, k['what']))
    if violations:
        os.makedirs(os.path.join(VERIF, 'replays'), exist_ok=True)
        rp = os.path.join(VERIF, 'replays', '%s-%s.json' % (prop, time.strftime('%Y%m%d-%H%M%S')))
        # a failing input replayed on the real code: the bounded runtime harness ran next to the verifier; take a history it
        # found for this property (or, failing that, any history it found on this tree)
        # 1. an input attached to one of the violations themselves (a history of the runtime harness, or CBMC's counterexample
        #    replayed natively on the real code); 2. otherwise a history the runtime harness found on this tree that is NOT one
        #    of the recorded known findings; never the input of a known finding
        failing = None
        own = [d.get('failing_input') for _, d, _ in violations if d.get('failing_input') and d['failing_input'].get('found')]
        if own: failing = own[0]
        else:
            known_diags = {id(d) for _, d, _ in known_hits}
            cands = [d for r in results if r['kind'] == 'rt' for d in r['diags'] if id(d) not in known_diags and 'pattern=KF-' not in d.get('message', '')]
            mine = [d for d in cands if prop in d['tags']] or cands
            if mine: failing = mine[0].get('failing_input')
            if failing is None:
                anyfi = [d.get('failing_input') for _, d, _ in violations if d.get('failing_input')]
                if anyfi: failing = anyfi[0]
        found = bool(failing and failing.get('found'))
        json.dump(dict(property=prop, repo=repo_state(a.repo), failing_input=failing,
                       failed_obligations=[dict(unit=r['unit'], function=d['fn'], kind=d['kind'], message=d['message'], obligation=d['clause'], tags=d['tags'],
                                                source_status=d['source_status'], verifier_output=d['rendered']) for r, d, _ in violations]),
                  open(rp, 'w'), indent=1)
        for r, d, _ in violations[:12]:
            print('  failed obligation: unit=%s fn=%s %s :: %s' % (r['unit'], d['fn'], d['message'], ' | '.join(d['clause'])[:200]))
        print('VIOLATION property=%s replay=%s%s' % (prop, rp, '' if found else ' no-failing-input-found'))
        sys.exit(1)
    if undecided:
        for r in undecided:
            print('UNDECIDED property=%s unit=%s: %s' % (prop, r['unit'], r['reason'][:1000]))
        sys.exit(2)
    print('OK property=%s obligations=%d discharged=%d wall=%.1fs' % (prop, obligations, discharged, time.time() - t0))
    sys.exit(0)


if __name__ == '__main__':
    main()
