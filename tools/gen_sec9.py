#!/usr/bin/env python3
"""Regenerate the detection table of DESIGN.md section 9 from seeded/RESULTS.json (between the two marker comments)."""
import json, os, re, collections
HERE = os.path.dirname(os.path.abspath(__file__)); VERIF = os.path.dirname(HERE)
r = json.load(open(os.path.join(VERIF, 'seeded', 'RESULTS.json')))
rows = []; cnt = collections.Counter(); und = []
def keyf(x): a, b = x.split('-'); return (a, int(b))
for k in sorted(r, key=keyf):
    e = r[k]; own = e['checks'].get(e['breaks'], {})
    obl = own.get('obligations') or [own.get('detail', '')]
    # prefer a verifier obligation over a bounded stand-in when both fired
    pick = next((o for o in obl if 'unit=rt_' not in o and 'unit=' in o), obl[0] if obl else '')
    m = re.search(r'unit=(\S+) fn=(\S+)', pick)
    unit, fn = (m.group(1), m.group(2)) if m else ('?', '?')
    if own.get('rc') != 1: by = '**not reported** (%s)' % {0: 'pass', 2: 'undecided'}.get(own.get('rc'), '?'); und.append(k)
    elif unit.startswith('rt_'): by = 'runtime stand-in (bounded) `%s`' % unit; cnt['rt'] += 1
    elif unit == 'kani': by = 'Kani · `%s`' % fn; cnt['kani'] += 1
    else: by = 'Verus `%s` · `%s`' % (unit, fn); cnt['verus'] += 1
    t = e['title']
    t = re.sub(r'^C\d+[^a-zA-Z`]*(?:seeded change|round \d+, change|change)\s*\d*\s*(?:\(round \d+\))?\s*(?:--|:)\s*', '', t)
    t = re.sub(r'^(?:Seeded change \d+|C\d+ seeded change \d+)\s*(?:\(round \d+\))?\s*--\s*', '', t)
    t = t.replace('|', '\\|')
    rows.append('| %s | `%s` | %s | %s |' % (k, e['files'][0].replace('src/', ''), t[:130], by))
table = '| id | file | change | caught by (unit · function of the failed obligation) |\n|---|---|---|---|\n' + '\n'.join(rows) + '\n'
summary = '%d changes: %d reported by a Verus obligation, %d by a Kani harness, %d only by a bounded runtime stand-in; not reported: %s' % (
    len(rows), cnt['verus'], cnt['kani'], cnt['rt'], ', '.join(und) or 'none')
p = os.path.join(VERIF, 'DESIGN.md')
s = open(p).read()
a = '<!-- SEC9-TABLE-BEGIN -->'; b = '<!-- SEC9-TABLE-END -->'
if a in s:
    s = s[:s.index(a) + len(a)] + '\n' + summary + '\n\n' + table + s[s.index(b):]
    open(p, 'w').write(s)
print(summary)
