#!/usr/bin/env python3
"""False-alarm measurement: behaviour-preserving patches (written by independent sub-agents) must leave every check silent.

  refactors.py run [ids...]   apply each refactors/<id>/patch.diff to a scratch copy of /repo, confirm the 35 unit tests pass,
                              run every unit once (check.py MATRIX) and report any property whose verdict is not 0.
"""
import json, os, re, shutil, subprocess, sys, tempfile
HERE = os.path.dirname(os.path.abspath(__file__)); VERIF = os.path.dirname(HERE)
sys.path.insert(0, HERE)
import seeded as S
RD = os.path.join(VERIF, 'refactors')

def main():
    ids = sys.argv[2:] or sorted(x for x in os.listdir(RD) if os.path.isdir(os.path.join(RD, x)))
    d = S.scratch_copy('/repo')
    res = {}
    rp = os.path.join(RD, 'RESULTS.json')
    if os.path.exists(rp) and sys.argv[2:]: res = json.load(open(rp))
    try:
        for i in ids:
            S.sh(['git', 'checkout', '-q', '--', '.'], cwd=d); S.sh(['git', 'clean', '-fdq'], cwd=d)
            rc, out = S.sh(['git', 'apply', os.path.join(RD, i, 'patch.diff')], cwd=d)
            if rc != 0: print('%-8s patch does not apply' % i); continue
            rc, out, m = S.cargo_test(d, ['--lib'])
            suite_ok = rc == 0 and m and m[0][1] == '35' and m[0][2] == '0'
            r = subprocess.run([sys.executable, os.path.join(HERE, 'check.py'), 'MATRIX', '--repo', d], stdout=subprocess.PIPE, stderr=subprocess.STDOUT, text=True, cwd=VERIF)
            row = {}
            for l in r.stdout.split('\n'):
                mm = re.match(r'MATRIX (C\d+) (\d) ?(.*)$', l)
                if mm: row[mm.group(1)] = dict(rc=int(mm.group(2)), detail=mm.group(3)[:300])
            alarms = sorted(p for p, v in row.items() if v['rc'] == 1); undec = sorted(p for p, v in row.items() if v['rc'] == 2)
            res[i] = dict(suite_ok=suite_ok, alarms=alarms, undecided=undec, detail={p: row[p]['detail'] for p in alarms + undec})
            print('%-8s suite=%s  silent=%d  FALSE-ALARM=%s  undecided=%s  %s' % (i, 'ok' if suite_ok else 'FAIL', sum(1 for v in row.values() if v['rc'] == 0), alarms, undec,
                  (row[(alarms + undec)[0]]['detail'][:160] if (alarms + undec) else '')))
            sys.stdout.flush()
        json.dump(res, open(rp, 'w'), indent=1)
    finally:
        shutil.rmtree(d, ignore_errors=True)

if __name__ == '__main__':
    main()
