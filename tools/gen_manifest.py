#!/usr/bin/env python3
"""Regenerate MANIFEST.json from tools/units.py (single source of truth for what is claimed)."""
import json, os, sys
HERE = os.path.dirname(os.path.abspath(__file__)); VERIF = os.path.dirname(HERE)
sys.path.insert(0, HERE)
import units as U

claimed = sorted({p for c in list(U.VERUS_UNITS.values()) + list(U.KANI_UNITS.values()) for p in c['props']} & set(U.CLAIMS))
checks = []
for p in claimed:
    c = U.CLAIMS[p]
    checks.append({
        'property_id': p,
        'quick_cmd': './check %s quick' % p,
        'thorough_cmd': './check %s thorough' % p,
        'evidence_file': '/verif/evidence/%s.json' % p,
        'replay_cmd_template': './check %s --replay {path}' % p,
        'engine': 'contracts',
        'technique': c['technique'],
        'level_claimed': {'category': U.LEVEL[p], 'text': c['text'], 'design_ref': 'DESIGN.md section 4, ' + p},
        'level_note': c['note'],
    })
m = {
    'version': 1,
    'setup_cmd': 'python3 tools/selftest.py',
    'hooks': {
        'guard': 'kani',
        'enable': 'no source hooks: Verus units are generated from the working tree by tools/extract.py; Kani harness files are attached to a scratch copy of the tree as `#[cfg(kani)] #[path] mod` lines (cfg(kani) is set by the Kani compiler only)',
        'baseline_off_cmd': 'cd /repo && cargo test --workspace --no-fail-fast --offline',
        'source_commits': [],
        'add_only': True,
    },
    'engines': [{'name': 'contracts', 'path': 'tools/check.py', 'serves_properties': claimed,
                 'kind_free_text': 'contract-based deductive verification: Verus on functions extracted mechanically from /repo on every run (annotated mirrors + token-level self-check), Kani function/leaf harnesses on the real crate for code Verus cannot take'}],
    'checks': checks,
    'not_applicable': [{'property_id': p, 'reason': r} for p, r in sorted(U.NOT_APPLICABLE.items()) if p not in claimed],
    'notes': 'exit 0 = every obligation tagged with the property discharged; exit 1 = VIOLATION line; exit 2 = undecided (lost anchor, construct rejected by the verifier, resource limit). Known findings: known_findings.txt.',
}
json.dump(m, open(os.path.join(VERIF, 'MANIFEST.json'), 'w'), indent=1)
print('claimed:', ' '.join(claimed))
