#!/bin/sh
# run every claimed check (quick by default) against /repo and summarise
cd "$(dirname "$0")/.."
tier="${1:-quick}"
for p in $(python3 -c "import json;print(' '.join(c['property_id'] for c in json.load(open('MANIFEST.json'))['checks']))"); do
  start=$(date +%s)
  out=$(./check $p $tier 2>&1); rc=$?
  echo "$p rc=$rc $(($(date +%s)-start))s $(echo "$out" | grep -E '^(OK|VIOLATION|UNDECIDED|KNOWN-FINDING)' | head -3 | tr '\n' ' ' | cut -c1-260)"
done
