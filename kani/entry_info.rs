// Kani harnesses for `src/common/concurrent/entry_info.rs` (atomics and a Mutex, shared through `&self`). The Verus units
// ASSUME this record: `sp_*()` = "what the slot holds when the call reads it". These harnesses check the SEQUENTIAL meaning
// of every accessor on the real code (one thread: Kani has no thread model): a getter returns what the last setter stored,
// `take_*` empties the slot and returns its content, `unset_q_nodes` empties both, setters touch no other slot. All
// loop-free: complete for one thread; nothing is claimed about interleavings.
use super::*;
use crate::common::deque::DeqNode;
use crate::common::concurrent::{KeyDate, KeyHashDate};
use std::ptr::NonNull;

fn an_instant(secs: u64) -> Instant {
    // a symbolic-offset Instant without calling the OS clock: a fixed zero-pattern std Instant plus a Duration
    let base: std::time::Instant = unsafe { std::mem::zeroed() };
    Instant::new(base + std::time::Duration::from_secs(secs))
}

#[kani::proof]
fn entry_info_new_and_flags() {
    let w: u32 = kani::any();
    let s: u64 = kani::any();
    kani::assume(s < 1_000_000);
    let ts = an_instant(s);
    let e: EntryInfo<u8> = EntryInfo::new(ts, w);
    // a fresh record: not admitted, dirty (its write is not applied yet), the weight and both stamps as given, no nodes
    assert!(!e.is_admitted() && e.is_dirty() && e.policy_weight() == w);
    assert!(e.last_accessed() == Some(ts) && e.last_modified() == Some(ts));
    assert!(e.access_order_q_node().is_none() && e.write_order_q_node().is_none());
    let a: bool = kani::any(); let d: bool = kani::any(); let w2: u32 = kani::any();
    e.set_admitted(a);
    assert!(e.is_admitted() == a && e.is_dirty() && e.policy_weight() == w);
    e.set_dirty(d);
    assert!(e.is_admitted() == a && e.is_dirty() == d && e.policy_weight() == w);
    e.set_policy_weight(w2);
    assert!(e.is_admitted() == a && e.is_dirty() == d && e.policy_weight() == w2);
    assert!(e.last_accessed() == Some(ts) && e.last_modified() == Some(ts));
}

#[kani::proof]
fn entry_info_stamps() {
    let (s0, s1, s2): (u64, u64, u64) = (kani::any(), kani::any(), kani::any());
    kani::assume(s0 < 1_000_000 && s1 < 1_000_000 && s2 < 1_000_000);
    let e: EntryInfo<u8> = EntryInfo::new(an_instant(s0), 1);
    e.set_last_accessed(an_instant(s1));
    assert!(e.last_accessed() == Some(an_instant(s1)) && e.last_modified() == Some(an_instant(s0)));
    e.set_last_modified(an_instant(s2));
    assert!(e.last_accessed() == Some(an_instant(s1)) && e.last_modified() == Some(an_instant(s2)));
    assert!(e.is_dirty() && !e.is_admitted() && e.policy_weight() == 1);
}

#[kani::proof]
fn entry_info_node_slots() {
    let e: EntryInfo<u8> = EntryInfo::new(an_instant(0), 1);
    let ao: NonNull<DeqNode<KeyHashDate<u8>>> = NonNull::dangling();
    let wo: NonNull<DeqNode<KeyDate<u8>>> = NonNull::dangling();
    let tag: usize = kani::any();
    kani::assume(tag < 4);
    let tagged = tagptr::TagNonNull::compose(ao, tag);
    e.set_access_order_q_node(Some(tagged));
    assert!(e.access_order_q_node() == Some(tagged) && e.write_order_q_node().is_none());
    e.set_write_order_q_node(Some(wo));
    assert!(e.access_order_q_node() == Some(tagged) && e.write_order_q_node() == Some(wo));
    let which: bool = kani::any();
    if which {
        assert!(e.take_access_order_q_node() == Some(tagged));
        assert!(e.access_order_q_node().is_none() && e.write_order_q_node() == Some(wo));
        assert!(e.take_access_order_q_node().is_none());
    } else {
        assert!(e.take_write_order_q_node() == Some(wo));
        assert!(e.write_order_q_node().is_none() && e.access_order_q_node() == Some(tagged));
        assert!(e.take_write_order_q_node().is_none());
    }
    e.unset_q_nodes();
    assert!(e.access_order_q_node().is_none() && e.write_order_q_node().is_none());
    assert!(e.is_dirty() && !e.is_admitted() && e.policy_weight() == 1);
}
