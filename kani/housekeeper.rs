// Kani harnesses for `src/common/concurrent/housekeeper.rs`: sequential meaning of `should_apply*` and `try_sync` on the real
// code (one thread). Loop-free: complete for one thread. (Whether the time-based trigger fires early or late is a liveness /
// schedule matter: C09 is not applicable; what is checked here is that a full queue ALWAYS triggers, and that `try_sync` runs
// exactly one maintenance pass with MAX_SYNC_REPEATS and releases its flag.)
use super::*;
use std::cell::Cell;

fn an_instant(secs: u64) -> Instant {
    let base: std::time::Instant = unsafe { std::mem::zeroed() };
    Instant::new(base + std::time::Duration::from_secs(secs))
}

struct Probe { calls: Cell<u32>, repeats: Cell<usize>, now_secs: u64 }
impl InnerSync for Probe {
    fn sync(&self, max_sync_repeats: usize) { self.calls.set(self.calls.get() + 1); self.repeats.set(max_sync_repeats); }
    fn now(&self) -> Instant { an_instant(self.now_secs) }
}

fn a_housekeeper(sync_after_secs: u64) -> Housekeeper {
    Housekeeper { is_sync_running: Default::default(), sync_after: AtomicInstant::new(an_instant(sync_after_secs)) }
}

#[kani::proof]
fn housekeeper_full_queue_always_triggers() {
    let (sa, now): (u64, u64) = (kani::any(), kani::any());
    kani::assume(sa < 1_000_000 && now < 1_000_000);
    let hk = a_housekeeper(sa);
    let len: usize = kani::any();
    // C09-related safety part: a queue at its flush point triggers maintenance whatever the clock says
    if len >= READ_LOG_FLUSH_POINT { assert!(hk.should_apply_reads(len, an_instant(now))); }
    if len >= WRITE_LOG_FLUSH_POINT { assert!(hk.should_apply_writes(len, an_instant(now))); }
    // and the two entry points differ only in the flush point they pass on
    assert!(hk.should_apply_reads(len, an_instant(now)) == hk.should_apply(len, READ_LOG_FLUSH_POINT, an_instant(now)));
    assert!(hk.should_apply_writes(len, an_instant(now)) == hk.should_apply(len, WRITE_LOG_FLUSH_POINT, an_instant(now)));
}

#[kani::proof]
fn housekeeper_try_sync_runs_one_pass() {
    let (sa, now): (u64, u64) = (kani::any(), kani::any());
    kani::assume(sa < 1_000_000 && now < 1_000_000);
    let hk = a_housekeeper(sa);
    let p = Probe { calls: Cell::new(0), repeats: Cell::new(0), now_secs: now };
    assert!(hk.try_sync(&p));
    assert!(p.calls.get() == 1 && p.repeats.get() == MAX_SYNC_REPEATS);
    // the flag is released: the next attempt runs again
    assert!(hk.try_sync(&p));
    assert!(p.calls.get() == 2);
    // a pass that is already running is not entered a second time
    hk.is_sync_running.store(true, Ordering::Release);
    assert!(!hk.try_sync(&p));
    assert!(p.calls.get() == 2);
}
