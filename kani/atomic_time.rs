// Kani harnesses for `src/common/concurrent/atomic_time.rs` (an `RwLock<Option<Instant>>`): sequential meaning of the four
// accessors on the real code (one thread). Loop-free: complete for one thread.
use super::*;

fn an_instant(secs: u64) -> Instant {
    let base: std::time::Instant = unsafe { std::mem::zeroed() };
    Instant::new(base + std::time::Duration::from_secs(secs))
}

#[kani::proof]
fn atomic_instant_roundtrip() {
    let (s1, s2): (u64, u64) = (kani::any(), kani::any());
    kani::assume(s1 < 1_000_000 && s2 < 1_000_000);
    let ai = AtomicInstant::default();
    assert!(!ai.is_set() && ai.instant().is_none());          // `valid_after` of a new cache: no watermark
    ai.set_instant(an_instant(s1));
    assert!(ai.is_set() && ai.instant() == Some(an_instant(s1)));
    ai.set_instant(an_instant(s2));
    assert!(ai.is_set() && ai.instant() == Some(an_instant(s2)));
    let b = AtomicInstant::new(an_instant(s1));
    assert!(b.is_set() && b.instant() == Some(an_instant(s1)));
}
