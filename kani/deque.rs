// Kani harnesses for the raw-pointer list `src/common/deque.rs`; attached by tools/check.py to a scratch copy of the
// working tree as `#[cfg(kani)] #[path = ".."] mod verif_k_deque;` (a child module: private fields are visible, the file
// itself is untouched).
//
// The assertions of each window_* harness are mirrored, line by line, by the predicate `window_<op>` of the Verus lemma unit
// contracts/deque_lift.rs, which proves that any heap change satisfying them turns a list representing the sequence `s` into
// one representing `s.remove(i)` / `s.skip(1)` / `s.push(y)` / `s.remove(i).push(s[i])` (the assumed `Deque` contracts).
// window_* : loop-free LOCAL-WINDOW contracts of one list operation: real nodes P <-> X <-> N with symbolic presence of
//            P / N, dangling outer pointers that must never be dereferenced, symbolic head/tail/cursor/len. An operation
//            only touches its window, so each is a complete proof of the local pointer contract for lists of every length.
// seq_*    : BOUNDED stand-ins (N nodes x L symbolic operations, structural walker after every step).
use super::*;
use crate::common::CacheRegion::MainProbation;

fn raw(v: u8) -> NonNull<DeqNode<u8>> {
    NonNull::new(Box::into_raw(Box::new(DeqNode::new(v)))).unwrap()
}

#[kani::proof]
fn window_unlink() {
    let has_p: bool = kani::any();
    let has_n: bool = kani::any();
    let p_is_head: bool = kani::any();
    let n_is_tail: bool = kani::any();
    let p = raw(1);
    let x = raw(2);
    let n = raw(3);
    let far_l: NonNull<DeqNode<u8>> = NonNull::dangling();
    let far_r: NonNull<DeqNode<u8>> = NonNull::dangling();
    unsafe {
        (*x.as_ptr()).prev = if has_p { Some(p) } else { None };
        (*x.as_ptr()).next = if has_n { Some(n) } else { None };
        (*p.as_ptr()).next = Some(x);
        (*p.as_ptr()).prev = if p_is_head { None } else { Some(far_l) };
        (*n.as_ptr()).prev = Some(x);
        (*n.as_ptr()).next = if n_is_tail { None } else { Some(far_r) };
    }
    let len: usize = kani::any();
    kani::assume(len >= 3);
    let head = if !has_p { x } else if p_is_head { p } else { far_l };
    let tail = if !has_n { x } else if n_is_tail { n } else { far_r };
    let cursor_sel: u8 = kani::any();
    let cursor = match cursor_sel % 5 {
        0 => None,
        1 => Some(DeqCursor::Done),
        2 => Some(DeqCursor::Node(x)),
        3 if has_p => Some(DeqCursor::Node(p)),
        4 if has_n => Some(DeqCursor::Node(n)),
        _ => None,
    };
    let cursor_was_x = cursor_sel % 5 == 2;
    let mut d: Deque<u8> = Deque { region: MainProbation, len, head: Some(head), tail: Some(tail), cursor, marker: PhantomData };
    kani::cover!(has_p && has_n && !p_is_head && !n_is_tail);

    unsafe { d.unlink(x) };

    unsafe {
        assert!((*x.as_ptr()).prev.is_none() && (*x.as_ptr()).next.is_none());
        if has_p { assert!((*p.as_ptr()).next == if has_n { Some(n) } else { None }); }
        if has_n { assert!((*n.as_ptr()).prev == if has_p { Some(p) } else { None }); }
        if has_p { assert!((*p.as_ptr()).prev == if p_is_head { None } else { Some(far_l) }); }
        if has_n { assert!((*n.as_ptr()).next == if n_is_tail { None } else { Some(far_r) }); }
    }
    assert!(d.head == if !has_p { if has_n { Some(n) } else { None } } else { Some(head) });
    assert!(d.tail == if !has_n { if has_p { Some(p) } else { None } } else { Some(tail) });
    assert!(d.len == len - 1);
    if cursor_was_x {
        match d.cursor { Some(DeqCursor::Node(c)) => assert!(has_n && c == n), Some(DeqCursor::Done) => assert!(!has_n), None => assert!(false) }
    }
    std::mem::forget(d);
    unsafe { drop(Box::from_raw(p.as_ptr())); drop(Box::from_raw(x.as_ptr())); drop(Box::from_raw(n.as_ptr())); }
}

#[kani::proof]
fn window_move_to_back() {
    let has_p: bool = kani::any();
    let p_is_head: bool = kani::any();
    // shape: 0 = X is tail; 1 = N is tail; 2 = N then (far) ... then T
    let shape: u8 = kani::any();
    kani::assume(shape < 3);
    let p = raw(1);
    let x = raw(2);
    let n = raw(3);
    let t = raw(4);
    let far_l: NonNull<DeqNode<u8>> = NonNull::dangling();
    let far_m: NonNull<DeqNode<u8>> = NonNull::dangling();
    unsafe {
        (*x.as_ptr()).prev = if has_p { Some(p) } else { None };
        (*p.as_ptr()).next = Some(x);
        (*p.as_ptr()).prev = if p_is_head { None } else { Some(far_l) };
        match shape {
            0 => { (*x.as_ptr()).next = None; }
            1 => { (*x.as_ptr()).next = Some(n); (*n.as_ptr()).prev = Some(x); (*n.as_ptr()).next = None; }
            _ => {
                (*x.as_ptr()).next = Some(n); (*n.as_ptr()).prev = Some(x); (*n.as_ptr()).next = Some(far_m);
                (*t.as_ptr()).prev = Some(far_m); (*t.as_ptr()).next = None;
            }
        }
    }
    let tail = match shape { 0 => x, 1 => n, _ => t };
    let head = if !has_p { x } else if p_is_head { p } else { far_l };
    let len: usize = kani::any();
    kani::assume(len >= 4);
    let mut d: Deque<u8> = Deque { region: MainProbation, len, head: Some(head), tail: Some(tail), cursor: None, marker: PhantomData };
    kani::cover!(shape == 2 && has_p && !p_is_head);

    unsafe { d.move_to_back(x) };

    unsafe {
        assert!(d.tail == Some(x));
        assert!((*x.as_ptr()).next.is_none());
        assert!(d.len == len);
        if shape == 0 {
            assert!((*x.as_ptr()).prev == if has_p { Some(p) } else { None });
            assert!(d.head == Some(head));
        } else {
            assert!((*x.as_ptr()).prev == Some(tail));
            assert!((*tail.as_ptr()).next == Some(x));
            assert!((*n.as_ptr()).prev == if has_p { Some(p) } else { None });
            if has_p { assert!((*p.as_ptr()).next == Some(n)); assert!(d.head == Some(head)); } else { assert!(d.head == Some(n)); }
            if has_p { assert!((*p.as_ptr()).prev == if p_is_head { None } else { Some(far_l) }); }
            if shape == 2 { assert!((*n.as_ptr()).next == Some(far_m)); assert!((*t.as_ptr()).prev == Some(far_m)); }
        }
    }
    std::mem::forget(d);
    unsafe { drop(Box::from_raw(p.as_ptr())); drop(Box::from_raw(x.as_ptr())); drop(Box::from_raw(n.as_ptr())); drop(Box::from_raw(t.as_ptr())); }
}

/// push_back on a list whose tail is T (or empty): the new node hangs behind T, nothing else is touched
#[kani::proof]
fn window_push_back() {
    let empty: bool = kani::any();
    let t_is_head: bool = kani::any();
    let t = raw(1);
    let far_l: NonNull<DeqNode<u8>> = NonNull::dangling();
    unsafe { (*t.as_ptr()).prev = if t_is_head { None } else { Some(far_l) }; (*t.as_ptr()).next = None; }
    let len: usize = kani::any();
    kani::assume(len < usize::MAX);
    kani::assume(if empty { len == 0 } else { len >= 1 });
    let head = if empty { None } else if t_is_head { Some(t) } else { Some(far_l) };
    let mut d: Deque<u8> = Deque { region: MainProbation, len, head, tail: if empty { None } else { Some(t) }, cursor: None, marker: PhantomData };
    let v: u8 = kani::any();
    kani::cover!(!empty && !t_is_head);

    let x = d.push_back(Box::new(DeqNode::new(v)));

    unsafe {
        assert!((*x.as_ptr()).element == v);
        assert!((*x.as_ptr()).next.is_none());
        assert!(d.tail == Some(x));
        assert!(d.len == len + 1);
        if empty {
            assert!(d.head == Some(x) && (*x.as_ptr()).prev.is_none());
        } else {
            assert!(d.head == head);
            assert!((*x.as_ptr()).prev == Some(t) && (*t.as_ptr()).next == Some(x));
            assert!((*t.as_ptr()).prev == if t_is_head { None } else { Some(far_l) });
        }
    }
    std::mem::forget(d);
    unsafe { drop(Box::from_raw(t.as_ptr())); drop(Box::from_raw(x.as_ptr())); }
}

/// pop_front on H <-> N ...: returns H detached (ownership as a Box: freed exactly once by the caller), N becomes head
#[kani::proof]
fn window_pop_front() {
    let has_n: bool = kani::any();
    let n_is_tail: bool = kani::any();
    let h = raw(1);
    let n = raw(2);
    let far_r: NonNull<DeqNode<u8>> = NonNull::dangling();
    unsafe {
        (*h.as_ptr()).prev = None;
        (*h.as_ptr()).next = if has_n { Some(n) } else { None };
        (*n.as_ptr()).prev = Some(h);
        (*n.as_ptr()).next = if n_is_tail { None } else { Some(far_r) };
    }
    let len: usize = kani::any();
    kani::assume(if has_n { len >= 2 } else { len == 1 });
    let tail = if !has_n { h } else if n_is_tail { n } else { far_r };
    let cursor_on_h: bool = kani::any();
    let mut d: Deque<u8> = Deque { region: MainProbation, len, head: Some(h), tail: Some(tail),
        cursor: if cursor_on_h { Some(DeqCursor::Node(h)) } else { None }, marker: PhantomData };
    kani::cover!(has_n && !n_is_tail && cursor_on_h);

    let b = d.pop_front().unwrap();

    assert!(b.prev.is_none() && b.next.is_none() && b.element == 1);
    assert!(std::ptr::eq(&*b, h.as_ptr()));
    assert!(d.len == len - 1);
    unsafe {
        if has_n {
            assert!(d.head == Some(n) && (*n.as_ptr()).prev.is_none());
            assert!((*n.as_ptr()).next == if n_is_tail { None } else { Some(far_r) });
            assert!(d.tail == Some(tail));
        } else {
            assert!(d.head.is_none() && d.tail.is_none());
        }
    }
    if cursor_on_h {
        match d.cursor { Some(DeqCursor::Node(c)) => assert!(has_n && c == n), Some(DeqCursor::Done) => assert!(!has_n), None => assert!(false) }
    }
    drop(b); // the only release of H
    std::mem::forget(d);
    unsafe { drop(Box::from_raw(n.as_ptr())); }
}

fn walk<T>(d: &Deque<T>, max: usize) -> usize {
    let mut n = 0usize;
    let mut cur = d.head;
    let mut prev: Option<NonNull<DeqNode<T>>> = None;
    while let Some(p) = cur {
        let node = unsafe { p.as_ref() };
        assert!(node.prev == prev);
        prev = cur;
        cur = node.next;
        n += 1;
        if n > max { break; }
    }
    assert!(d.tail == prev);
    assert!(n == d.len);
    n
}

/// BOUNDED: 3 nodes x 3 symbolic operations (move_to_back / unlink_and_drop), structure re-walked after every step;
/// CBMC pointer checks (dangling, double free, invalid deref) on; the list is dropped at the end (Drop for Deque).
#[kani::proof]
#[kani::unwind(10)]
fn seq_3x3() {
    let mut d: Deque<u8> = Deque::new(MainProbation);
    let a = d.push_back(Box::new(DeqNode::new(1)));
    let b = d.push_back(Box::new(DeqNode::new(2)));
    let c = d.push_back(Box::new(DeqNode::new(3)));
    let nodes = [a, b, c];
    let mut live = [true, true, true];
    for _ in 0..3 {
        let which: usize = kani::any();
        kani::assume(which < 3);
        let op: u8 = kani::any();
        if live[which] {
            let n = nodes[which];
            assert!(d.contains(unsafe { n.as_ref() }));
            if op % 2 == 0 {
                unsafe { d.move_to_back(n) };
                assert!(d.tail == Some(n));
            } else {
                unsafe { d.unlink_and_drop(n) };
                live[which] = false;
            }
        }
        walk(&d, 8);
    }
}
