// Kani harnesses for the raw-pointer list `src/common/deque.rs`; attached by tools/check.py to a scratch copy of the
// working tree as `#[cfg(kani)] #[path = ".."] mod verif_k_deque;` (a child module: private fields are visible, the file
// itself is untouched).
//
// The assertions of each window_* harness are mirrored, line by line, by the predicate `window_<op>` of the Verus lemma unit
// contracts/deque_lift.rs, which proves that any heap change satisfying them turns a list representing the sequence `s` into
// one representing `s.remove(i)` / `s.skip(1)` / `s.push(y)` / `s.remove(i).push(s[i])` (the assumed `Deque` contracts).
// window_* : loop-free LOCAL-WINDOW contracts of one list operation: real nodes P <-> X <-> N with symbolic presence of
//            P / N, dangling outer pointers that must never be dereferenced, symbolic head/tail/cursor/len. An operation
//            only touches its window, so each is a complete proof of the local pointer contract for lists of every length.
// seq_*    : BOUNDED stand-ins (N nodes x L symbolic operations, structural walker after every step).
use super::*;
use crate::common::CacheRegion::MainProbation;

fn raw(v: u8) -> NonNull<DeqNode<u8>> {
    NonNull::new(Box::into_raw(Box::new(DeqNode::new(v)))).unwrap()
}

#[kani::proof]
fn window_unlink() {
    let has_p: bool = kani::any();
    let has_n: bool = kani::any();
    let p_is_head: bool = kani::any();
    let n_is_tail: bool = kani::any();
    let p = raw(1);
    let x = raw(2);
    let n = raw(3);
    let far_l: NonNull<DeqNode<u8>> = NonNull::dangling();
    let far_r: NonNull<DeqNode<u8>> = NonNull::dangling();
    unsafe {
        (*x.as_ptr()).prev = if has_p { Some(p) } else { None };
        (*x.as_ptr()).next = if has_n { Some(n) } else { None };
        (*p.as_ptr()).next = Some(x);
        (*p.as_ptr()).prev = if p_is_head { None } else { Some(far_l) };
        (*n.as_ptr()).prev = Some(x);
        (*n.as_ptr()).next = if n_is_tail { None } else { Some(far_r) };
    }
    let len: usize = kani::any();
    kani::assume(len >= 3);
    let head = if !has_p { x } else if p_is_head { p } else { far_l };
    let tail = if !has_n { x } else if n_is_tail { n } else { far_r };
    let cursor_sel: u8 = kani::any();
    let cursor = match cursor_sel % 5 {
        0 => None,
        1 => Some(DeqCursor::Done),
        2 => Some(DeqCursor::Node(x)),
        3 if has_p => Some(DeqCursor::Node(p)),
        4 if has_n => Some(DeqCursor::Node(n)),
        _ => None,
    };
    let cursor_was_x = cursor_sel % 5 == 2;
    let mut d: Deque<u8> = Deque { region: MainProbation, len, head: Some(head), tail: Some(tail), cursor, marker: PhantomData };
    kani::cover!(has_p && has_n && !p_is_head && !n_is_tail);

    unsafe { d.unlink(x) };

    unsafe {
        assert!((*x.as_ptr()).prev.is_none() && (*x.as_ptr()).next.is_none());
        if has_p { assert!((*p.as_ptr()).next == if has_n { Some(n) } else { None }); }
        if has_n { assert!((*n.as_ptr()).prev == if has_p { Some(p) } else { None }); }
        if has_p { assert!((*p.as_ptr()).prev == if p_is_head { None } else { Some(far_l) }); }
        if has_n { assert!((*n.as_ptr()).next == if n_is_tail { None } else { Some(far_r) }); }
    }
    assert!(d.head == if !has_p { if has_n { Some(n) } else { None } } else { Some(head) });
    assert!(d.tail == if !has_n { if has_p { Some(p) } else { None } } else { Some(tail) });
    assert!(d.len == len - 1);
    if cursor_was_x {
        match d.cursor { Some(DeqCursor::Node(c)) => assert!(has_n && c == n), Some(DeqCursor::Done) => assert!(!has_n), None => assert!(false) }
    }
    std::mem::forget(d);
    unsafe { drop(Box::from_raw(p.as_ptr())); drop(Box::from_raw(x.as_ptr())); drop(Box::from_raw(n.as_ptr())); }
}

#[kani::proof]
fn window_move_to_back() {
    let has_p: bool = kani::any();
    let p_is_head: bool = kani::any();
    // shape: 0 = X is tail; 1 = N is tail; 2 = N then (far) ... then T
    let shape: u8 = kani::any();
    kani::assume(shape < 3);
    let p = raw(1);
    let x = raw(2);
    let n = raw(3);
    let t = raw(4);
    let far_l: NonNull<DeqNode<u8>> = NonNull::dangling();
    let far_m: NonNull<DeqNode<u8>> = NonNull::dangling();
    unsafe {
        (*x.as_ptr()).prev = if has_p { Some(p) } else { None };
        (*p.as_ptr()).next = Some(x);
        (*p.as_ptr()).prev = if p_is_head { None } else { Some(far_l) };
        match shape {
            0 => { (*x.as_ptr()).next = None; }
            1 => { (*x.as_ptr()).next = Some(n); (*n.as_ptr()).prev = Some(x); (*n.as_ptr()).next = None; }
            _ => {
                (*x.as_ptr()).next = Some(n); (*n.as_ptr()).prev = Some(x); (*n.as_ptr()).next = Some(far_m);
                (*t.as_ptr()).prev = Some(far_m); (*t.as_ptr()).next = None;
            }
        }
    }
    let tail = match shape { 0 => x, 1 => n, _ => t };
    let head = if !has_p { x } else if p_is_head { p } else { far_l };
    let len: usize = kani::any();
    kani::assume(len >= 4);
    let mut d: Deque<u8> = Deque { region: MainProbation, len, head: Some(head), tail: Some(tail), cursor: None, marker: PhantomData };
    kani::cover!(shape == 2 && has_p && !p_is_head);

    unsafe { d.move_to_back(x) };

    unsafe {
        assert!(d.tail == Some(x));
        assert!((*x.as_ptr()).next.is_none());
        assert!(d.len == len);
        if shape == 0 {
            assert!((*x.as_ptr()).prev == if has_p { Some(p) } else { None });
            assert!(d.head == Some(head));
        } else {
            assert!((*x.as_ptr()).prev == Some(tail));
            assert!((*tail.as_ptr()).next == Some(x));
            assert!((*n.as_ptr()).prev == if has_p { Some(p) } else { None });
            if has_p { assert!((*p.as_ptr()).next == Some(n)); assert!(d.head == Some(head)); } else { assert!(d.head == Some(n)); }
            if has_p { assert!((*p.as_ptr()).prev == if p_is_head { None } else { Some(far_l) }); }
            if shape == 2 { assert!((*n.as_ptr()).next == Some(far_m)); assert!((*t.as_ptr()).prev == Some(far_m)); }
        }
    }
    std::mem::forget(d);
    unsafe { drop(Box::from_raw(p.as_ptr())); drop(Box::from_raw(x.as_ptr())); drop(Box::from_raw(n.as_ptr())); drop(Box::from_raw(t.as_ptr())); }
}

/// push_back on a list whose tail is T (or empty): the new node hangs behind T, nothing else is touched
#[kani::proof]
fn window_push_back() {
    let empty: bool = kani::any();
    let t_is_head: bool = kani::any();
    let t = raw(1);
    let far_l: NonNull<DeqNode<u8>> = NonNull::dangling();
    unsafe { (*t.as_ptr()).prev = if t_is_head { None } else { Some(far_l) }; (*t.as_ptr()).next = None; }
    let len: usize = kani::any();
    kani::assume(len < usize::MAX);
    kani::assume(if empty { len == 0 } else { len >= 1 });
    let head = if empty { None } else if t_is_head { Some(t) } else { Some(far_l) };
    let mut d: Deque<u8> = Deque { region: MainProbation, len, head, tail: if empty { None } else { Some(t) }, cursor: None, marker: PhantomData };
    let v: u8 = kani::any();
    kani::cover!(!empty && !t_is_head);

    let x = d.push_back(Box::new(DeqNode::new(v)));

    unsafe {
        assert!((*x.as_ptr()).element == v);
        assert!((*x.as_ptr()).next.is_none());
        assert!(d.tail == Some(x));
        assert!(d.len == len + 1);
        if empty {
            assert!(d.head == Some(x) && (*x.as_ptr()).prev.is_none());
        } else {
            assert!(d.head == head);
            assert!((*x.as_ptr()).prev == Some(t) && (*t.as_ptr()).next == Some(x));
            assert!((*t.as_ptr()).prev == if t_is_head { None } else { Some(far_l) });
        }
    }
    std::mem::forget(d);
    unsafe { drop(Box::from_raw(t.as_ptr())); drop(Box::from_raw(x.as_ptr())); }
}

/// pop_front on H <-> N ...: returns H detached (ownership as a Box: freed exactly once by the caller), N becomes head
#[kani::proof]
fn window_pop_front() {
    let has_n: bool = kani::any();
    let n_is_tail: bool = kani::any();
    let h = raw(1);
    let n = raw(2);
    let far_r: NonNull<DeqNode<u8>> = NonNull::dangling();
    unsafe {
        (*h.as_ptr()).prev = None;
        (*h.as_ptr()).next = if has_n { Some(n) } else { None };
        (*n.as_ptr()).prev = Some(h);
        (*n.as_ptr()).next = if n_is_tail { None } else { Some(far_r) };
    }
    let len: usize = kani::any();
    kani::assume(if has_n { len >= 2 } else { len == 1 });
    let tail = if !has_n { h } else if n_is_tail { n } else { far_r };
    let cursor_on_h: bool = kani::any();
    let mut d: Deque<u8> = Deque { region: MainProbation, len, head: Some(h), tail: Some(tail),
        cursor: if cursor_on_h { Some(DeqCursor::Node(h)) } else { None }, marker: PhantomData };
    kani::cover!(has_n && !n_is_tail && cursor_on_h);

    let b = d.pop_front().unwrap();

    assert!(b.prev.is_none() && b.next.is_none() && b.element == 1);
    assert!(std::ptr::eq(&*b, h.as_ptr()));
    assert!(d.len == len - 1);
    unsafe {
        if has_n {
            assert!(d.head == Some(n) && (*n.as_ptr()).prev.is_none());
            assert!((*n.as_ptr()).next == if n_is_tail { None } else { Some(far_r) });
            assert!(d.tail == Some(tail));
        } else {
            assert!(d.head.is_none() && d.tail.is_none());
        }
    }
    if cursor_on_h {
        match d.cursor { Some(DeqCursor::Node(c)) => assert!(has_n && c == n), Some(DeqCursor::Done) => assert!(!has_n), None => assert!(false) }
    }
    drop(b); // the only release of H
    std::mem::forget(d);
    unsafe { drop(Box::from_raw(n.as_ptr())); }
}

fn walk<T>(d: &Deque<T>, max: usize) -> usize {
    let mut n = 0usize;
    let mut cur = d.head;
    let mut prev: Option<NonNull<DeqNode<T>>> = None;
    while let Some(p) = cur {
        let node = unsafe { p.as_ref() };
        assert!(node.prev == prev);
        prev = cur;
        cur = node.next;
        n += 1;
        if n > max { break; }
    }
    assert!(d.tail == prev);
    assert!(n == d.len);
    n
}

/// BOUNDED: 3 nodes x 3 symbolic operations (move_to_back / unlink_and_drop), structure re-walked after every step;
/// CBMC pointer checks (dangling, double free, invalid deref) on; the list is dropped at the end (Drop for Deque).
#[kani::proof]
#[kani::unwind(10)]
fn seq_3x3() {
    let mut d: Deque<u8> = Deque::new(MainProbation);
    let a = d.push_back(Box::new(DeqNode::new(1)));
    let b = d.push_back(Box::new(DeqNode::new(2)));
    let c = d.push_back(Box::new(DeqNode::new(3)));
    let nodes = [a, b, c];
    let mut live = [true, true, true];
    for _ in 0..3 {
        let which: usize = kani::any();
        kani::assume(which < 3);
        let op: u8 = kani::any();
        if live[which] {
            let n = nodes[which];
            assert!(d.contains(unsafe { n.as_ref() }));
            if op % 2 == 0 {
                unsafe { d.move_to_back(n) };
                assert!(d.tail == Some(n));
            } else {
                unsafe { d.unlink_and_drop(n) };
                live[which] = false;
            }
        }
        walk(&d, 8);
    }
}

// ---------------------------------------------------------------------------------------------------------------------------
// read-only accessors and the remaining single operations (all loop-free: complete for lists of every length)
// ---------------------------------------------------------------------------------------------------------------------------

/// peek_front / peek_front_ptr hand out exactly the head node and touch nothing (`peek_back` is test-only code)
#[kani::proof]
fn window_peek() {
    let empty: bool = kani::any();
    let single: bool = kani::any();
    let h = raw(1);
    let t = raw(2);
    let far: NonNull<DeqNode<u8>> = NonNull::dangling();
    unsafe {
        (*h.as_ptr()).prev = None;
        (*h.as_ptr()).next = if single { None } else { Some(far) };
        (*t.as_ptr()).prev = Some(far);
        (*t.as_ptr()).next = None;
    }
    let len: usize = kani::any();
    kani::assume(if empty { len == 0 } else if single { len == 1 } else { len >= 2 });
    let head = if empty { None } else { Some(h) };
    let tail = if empty { None } else if single { Some(h) } else { Some(t) };
    let d: Deque<u8> = Deque { region: MainProbation, len, head, tail, cursor: None, marker: PhantomData };
    kani::cover!(!empty && !single);

    match d.peek_front() {
        Some(n) => { assert!(!empty && std::ptr::eq(n, h.as_ptr()) && n.element == 1); }
        None => assert!(empty),
    }
    assert!(d.peek_front_ptr() == head);
    assert!(d.head == head && d.tail == tail && d.len == len && d.cursor.is_none());
    unsafe { assert!((*h.as_ptr()).next == if single { None } else { Some(far) }); assert!((*t.as_ptr()).prev == Some(far)); }
    std::mem::forget(d);
    unsafe { drop(Box::from_raw(h.as_ptr())); drop(Box::from_raw(t.as_ptr())); }
}

/// contains(x): true for a member (it has a predecessor or it is the head), false for a detached node. (A node linked into
/// ANOTHER list also answers true: callers select the list by the node's region tag first: unsync/concurrent deques.rs.)
#[kani::proof]
fn window_contains() {
    let x_is_head: bool = kani::any();
    let x_linked: bool = kani::any();      // x is a member of d
    let p = raw(1);
    let x = raw(2);
    let other = raw(3);
    let far: NonNull<DeqNode<u8>> = NonNull::dangling();
    unsafe {
        (*p.as_ptr()).prev = Some(far); (*p.as_ptr()).next = Some(x);
        (*x.as_ptr()).prev = if x_linked && !x_is_head { Some(p) } else { None };
        (*x.as_ptr()).next = None;
    }
    let len: usize = kani::any();
    kani::assume(len >= 1);
    let head = if x_linked && x_is_head { x } else { other };
    let d: Deque<u8> = Deque { region: MainProbation, len, head: Some(head), tail: Some(far), cursor: None, marker: PhantomData };
    kani::cover!(x_linked && !x_is_head);
    kani::cover!(!x_linked);

    let b = d.contains(unsafe { x.as_ref() });

    assert!(b == x_linked);
    std::mem::forget(d);
    unsafe { drop(Box::from_raw(p.as_ptr())); drop(Box::from_raw(x.as_ptr())); drop(Box::from_raw(other.as_ptr())); }
}

/// move_front_to_back: the head node becomes the tail (the same local contract as move_to_back of the head), an empty list is untouched
#[kani::proof]
fn window_move_front_to_back() {
    // shape: 0 = empty; 1 = single node; 2 = H <-> N(tail); 3 = H <-> N ... (far) ... T
    let shape: u8 = kani::any();
    kani::assume(shape < 4);
    let h = raw(1);
    let n = raw(2);
    let t = raw(3);
    let far_m: NonNull<DeqNode<u8>> = NonNull::dangling();
    unsafe {
        (*h.as_ptr()).prev = None;
        match shape {
            0 | 1 => { (*h.as_ptr()).next = None; }
            2 => { (*h.as_ptr()).next = Some(n); (*n.as_ptr()).prev = Some(h); (*n.as_ptr()).next = None; }
            _ => {
                (*h.as_ptr()).next = Some(n); (*n.as_ptr()).prev = Some(h); (*n.as_ptr()).next = Some(far_m);
                (*t.as_ptr()).prev = Some(far_m); (*t.as_ptr()).next = None;
            }
        }
    }
    let len: usize = kani::any();
    kani::assume(match shape { 0 => len == 0, 1 => len == 1, 2 => len == 2, _ => len >= 4 });
    let head = if shape == 0 { None } else { Some(h) };
    let tail0 = match shape { 0 => None, 1 => Some(h), 2 => Some(n), _ => Some(t) };
    let mut d: Deque<u8> = Deque { region: MainProbation, len, head, tail: tail0, cursor: None, marker: PhantomData };
    kani::cover!(shape == 3);

    d.move_front_to_back();

    assert!(d.len == len);
    unsafe {
        match shape {
            0 => assert!(d.head.is_none() && d.tail.is_none()),
            1 => assert!(d.head == Some(h) && d.tail == Some(h) && (*h.as_ptr()).prev.is_none() && (*h.as_ptr()).next.is_none()),
            _ => {
                let old_tail = tail0.unwrap();
                assert!(d.head == Some(n) && (*n.as_ptr()).prev.is_none());
                assert!(d.tail == Some(h) && (*h.as_ptr()).next.is_none() && (*h.as_ptr()).prev == Some(old_tail));
                assert!((*old_tail.as_ptr()).next == Some(h));
                if shape == 3 { assert!((*n.as_ptr()).next == Some(far_m) && (*t.as_ptr()).prev == Some(far_m)); }
            }
        }
    }
    std::mem::forget(d);
    unsafe { drop(Box::from_raw(h.as_ptr())); drop(Box::from_raw(n.as_ptr())); drop(Box::from_raw(t.as_ptr())); }
}

/// unlink_and_drop: the neighbours are joined as by unlink and the node's allocation is released exactly once (CBMC's
/// deallocation checks are on: a second release by this harness would be a double free, none happens)
#[kani::proof]
fn window_drop_unlinked() {
    let has_p: bool = kani::any();
    let has_n: bool = kani::any();
    let p = raw(1);
    let x = raw(2);
    let n = raw(3);
    let far_l: NonNull<DeqNode<u8>> = NonNull::dangling();
    let far_r: NonNull<DeqNode<u8>> = NonNull::dangling();
    unsafe {
        (*x.as_ptr()).prev = if has_p { Some(p) } else { None };
        (*x.as_ptr()).next = if has_n { Some(n) } else { None };
        (*p.as_ptr()).next = Some(x); (*p.as_ptr()).prev = Some(far_l);
        (*n.as_ptr()).prev = Some(x); (*n.as_ptr()).next = Some(far_r);
    }
    let len: usize = kani::any();
    kani::assume(len >= 3);
    let head = if has_p { far_l } else { x };
    let tail = if has_n { far_r } else { x };
    let mut d: Deque<u8> = Deque { region: MainProbation, len, head: Some(head), tail: Some(tail), cursor: None, marker: PhantomData };
    kani::cover!(has_p && has_n);

    unsafe { d.unlink_and_drop(x) };

    unsafe {
        if has_p { assert!((*p.as_ptr()).next == if has_n { Some(n) } else { None }); }
        if has_n { assert!((*n.as_ptr()).prev == if has_p { Some(p) } else { None }); }
    }
    assert!(d.head == if has_p { Some(far_l) } else if has_n { Some(n) } else { None });
    assert!(d.tail == if has_n { Some(far_r) } else if has_p { Some(p) } else { None });
    assert!(d.len == len - 1);
    std::mem::forget(d);
    unsafe { drop(Box::from_raw(p.as_ptr())); drop(Box::from_raw(n.as_ptr())); }   // x is NOT released here: unlink_and_drop did
}

/// DeqNode::new, DeqNode::next_node_ptr, Deque::new, Deque::region
#[kani::proof]
fn node_and_list_constructors() {
    let v: u8 = kani::any();
    let node = DeqNode::new(v);
    assert!(node.next.is_none() && node.prev.is_none() && node.element == v);
    let a = raw(1);
    let far: NonNull<DeqNode<u8>> = NonNull::dangling();
    let linked: bool = kani::any();
    unsafe { (*a.as_ptr()).next = if linked { Some(far) } else { None }; }
    assert!(DeqNode::next_node_ptr(a) == if linked { Some(far) } else { None });
    let r: u8 = kani::any();
    kani::assume(r < 4);
    let region = crate::common::CacheRegion::from(r as usize);
    let d: Deque<u8> = Deque::new(region);
    assert!(d.len == 0 && d.head.is_none() && d.tail.is_none() && d.cursor.is_none());
    assert!(d.region() as usize == r as usize);
    unsafe { drop(Box::from_raw(a.as_ptr())); }
}
