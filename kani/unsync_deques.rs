// Kani harnesses for `src/unsync/deques.rs` (tagged pointers, region dispatch); attached as a child module of a scratch copy.
use super::*;
use std::rc::Rc;
use crate::unsync::AccessTime;

/// BOUNDED: two entries, symbolic move, unlink of both lists: the region dispatch never reaches `unreachable!()` / `panic!`,
/// the key clone pinned by each node is released exactly when the node is unlinked (Rc::strong_count), timestamps are read
/// through the node.
#[kani::proof]
#[kani::unwind(6)]
fn deques_tagged_rc() {
    let mut deqs: Deques<u8> = Deques::default();
    let k1 = Rc::new(1u8);
    let k2 = Rc::new(2u8);
    let mut e1: ValueEntry<u8, u8> = ValueEntry::new(10, 1);
    let mut e2: ValueEntry<u8, u8> = ValueEntry::new(20, 1);
    deqs.push_back_ao(CacheRegion::MainProbation, KeyHashDate::new(Rc::clone(&k1), 7, None), &mut e1);
    deqs.push_back_ao(CacheRegion::MainProbation, KeyHashDate::new(Rc::clone(&k2), 8, None), &mut e2);
    deqs.push_back_wo(KeyDate::new(Rc::clone(&k1), None), &mut e1);
    deqs.push_back_wo(KeyDate::new(Rc::clone(&k2), None), &mut e2);
    assert!(Rc::strong_count(&k1) == 3 && Rc::strong_count(&k2) == 3);
    assert!(e1.last_accessed().is_none());
    if kani::any() {
        deqs.move_to_back_ao(&e1);
        assert!(*deqs.probation.peek_front().unwrap().element.key == 2);
    }
    deqs.unlink_ao(&mut e1);
    Deques::unlink_wo(&mut deqs.write_order, &mut e1);
    assert!(e1.access_order_q_node().is_none() && e1.write_order_q_node().is_none());
    assert!(*deqs.probation.peek_front().unwrap().element.key == 2);
    assert!(Rc::strong_count(&k1) == 1);
    // invalidate_all: every list, the write-order list included, is emptied and every node released
    deqs.clear();
    assert!(Rc::strong_count(&k2) == 1);
    assert!(deqs.probation.peek_front().is_none() && deqs.write_order.peek_front().is_none());
}

fn an_instant(secs: u64) -> crate::common::time::Instant {
    let base: std::time::Instant = unsafe { std::mem::zeroed() };
    crate::common::time::Instant::new(base + std::time::Duration::from_secs(secs))
}

/// THE ENTRY <-> NODE STAMP COUPLING on the real code (the content of the Verus axioms `axiom_stamp_ao` / `axiom_stamp_wo` and of
/// the assumed setters of `impl AccessTime for ValueEntry`, src/unsync.rs): an entry's stamps are physically the `timestamp`
/// fields of the two list nodes its slots point to; what a scan reads through the list (`peek_front`, then the node's
/// `last_accessed` / `last_modified`) is what the entry's own getters return; without a node there is no stamp. One entry,
/// symbolic stamps and region tag, loop-free: complete for one entry (nothing about aliasing between entries is claimed).
#[kani::proof]
#[kani::unwind(3)]   // only loop: Drop of the (by then empty) lists; the unwinding assertion makes the bound exact
fn entry_node_stamp_coupling() {
    let mut deqs: Deques<u8> = Deques::default();
    let k = Rc::new(1u8);
    let mut e: ValueEntry<u8, u8> = ValueEntry::new(10, 1);
    assert!(e.last_accessed().is_none() && e.last_modified().is_none());
    let (s0, s1, s2): (u64, u64, u64) = (kani::any(), kani::any(), kani::any());
    kani::assume(s0 < 1_000_000 && s1 < 1_000_000 && s2 < 1_000_000);
    // a setter without a node stores nothing
    e.set_last_accessed(an_instant(s0)); e.set_last_modified(an_instant(s0));
    assert!(e.last_accessed().is_none() && e.last_modified().is_none());
    let with_stamp: bool = kani::any();
    let t0 = if with_stamp { Some(an_instant(s0)) } else { None };
    deqs.push_back_ao(CacheRegion::MainProbation, KeyHashDate::new(Rc::clone(&k), 7, t0), &mut e);
    deqs.push_back_wo(KeyDate::new(Rc::clone(&k), t0), &mut e);
    // the stamps the constructors put into the nodes are the entry's stamps
    assert!(e.last_accessed() == t0 && e.last_modified() == t0);
    e.set_last_accessed(an_instant(s1));
    e.set_last_modified(an_instant(s2));
    assert!(e.last_accessed() == Some(an_instant(s1)) && e.last_modified() == Some(an_instant(s2)));
    // ... and they are what the expiry scans read through the front node of each list
    let ao = deqs.probation.peek_front().unwrap();
    let wo = deqs.write_order.peek_front().unwrap();
    assert!(ao.last_accessed() == e.last_accessed() && ao.element.timestamp == Some(an_instant(s1)) && ao.last_modified().is_none());
    assert!(wo.last_modified() == e.last_modified() && wo.element.timestamp == Some(an_instant(s2)) && wo.last_accessed().is_none());
    deqs.unlink_ao(&mut e);
    Deques::unlink_wo(&mut deqs.write_order, &mut e);
    assert!(e.last_accessed().is_none() && e.last_modified().is_none());
}
