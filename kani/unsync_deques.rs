// Kani harnesses for `src/unsync/deques.rs` (tagged pointers, region dispatch); attached as a child module of a scratch copy.
use super::*;
use std::rc::Rc;
use crate::unsync::AccessTime;

/// BOUNDED: two entries, symbolic move, unlink of both lists: the region dispatch never reaches `unreachable!()` / `panic!`,
/// the key clone pinned by each node is released exactly when the node is unlinked (Rc::strong_count), timestamps are read
/// through the node.
#[kani::proof]
#[kani::unwind(6)]
fn deques_tagged_rc() {
    let mut deqs: Deques<u8> = Deques::default();
    let k1 = Rc::new(1u8);
    let k2 = Rc::new(2u8);
    let mut e1: ValueEntry<u8, u8> = ValueEntry::new(10, 1);
    let mut e2: ValueEntry<u8, u8> = ValueEntry::new(20, 1);
    deqs.push_back_ao(CacheRegion::MainProbation, KeyHashDate::new(Rc::clone(&k1), 7, None), &mut e1);
    deqs.push_back_ao(CacheRegion::MainProbation, KeyHashDate::new(Rc::clone(&k2), 8, None), &mut e2);
    deqs.push_back_wo(KeyDate::new(Rc::clone(&k1), None), &mut e1);
    deqs.push_back_wo(KeyDate::new(Rc::clone(&k2), None), &mut e2);
    assert!(Rc::strong_count(&k1) == 3 && Rc::strong_count(&k2) == 3);
    assert!(e1.last_accessed().is_none());
    if kani::any() {
        deqs.move_to_back_ao(&e1);
        assert!(*deqs.probation.peek_front().unwrap().element.key == 2);
    }
    deqs.unlink_ao(&mut e1);
    Deques::unlink_wo(&mut deqs.write_order, &mut e1);
    assert!(e1.access_order_q_node().is_none() && e1.write_order_q_node().is_none());
    assert!(*deqs.probation.peek_front().unwrap().element.key == 2);
    assert!(Rc::strong_count(&k1) == 1);
    // invalidate_all: every list, the write-order list included, is emptied and every node released
    deqs.clear();
    assert!(Rc::strong_count(&k2) == 1);
    assert!(deqs.probation.peek_front().is_none() && deqs.write_order.peek_front().is_none());
}
