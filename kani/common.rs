// Kani harnesses for leaf functions of `src/common.rs`: complete (loop-free, full domain)
use super::*;

/// the sketch capacity is the cache capacity clamped into 128..=u32::MAX (C14 anchor `sketch_capacity`)
#[kani::proof]
fn sketch_capacity_clamps() {
    let c: u64 = kani::any();
    let r = sketch_capacity(c);
    assert!(r >= 128);
    if c <= 128 { assert!(r == 128); }
    else if c <= u32::MAX as u64 { assert!(r as u64 == c); }
    else { assert!(r == u32::MAX); }
}

/// the 2-bit tag <-> region mapping used by the tagged node pointers is a bijection on 0..4
#[kani::proof]
fn cache_region_roundtrip() {
    let n: usize = kani::any();
    kani::assume(n < 4);
    let r = CacheRegion::from(n);
    assert!(r as usize == n);
    assert!(r == n);
}
