// Kani harnesses for `src/common/builder_utils.rs`: complete (loop-free, all Durations)
use super::*;

fn any_duration() -> Duration {
    let s: u64 = kani::any();
    let n: u32 = kani::any();
    kani::assume(n < 1_000_000_000);
    Duration::new(s, n)
}
fn any_opt() -> Option<Duration> { if kani::any() { Some(any_duration()) } else { None } }
fn max() -> Duration { Duration::from_secs(1_000 * 365 * 24 * 3600) }

/// C17 "<=": both durations at most 1000 years (or absent) ==> returns normally
#[kani::proof]
fn ensure_returns_when_within_1000_years() {
    let ttl = any_opt();
    let tti = any_opt();
    kani::assume(ttl.map_or(true, |d| d <= max()));
    kani::assume(tti.map_or(true, |d| d <= max()));
    kani::cover!(ttl == Some(max()) && tti.is_some());
    ensure_expirations_or_panic(ttl, tti);
}

/// C17 "=>": one of them longer than 1000 years ==> panics on EVERY such input: the cover after the call must be unreachable
#[kani::proof]
#[kani::should_panic]
fn ensure_panics_when_beyond_1000_years() {
    let ttl = any_opt();
    let tti = any_opt();
    kani::assume(ttl.map_or(false, |d| d > max()) || tti.map_or(false, |d| d > max()));
    ensure_expirations_or_panic(ttl, tti);
    kani::cover!(true, "returned normally although a duration exceeds 1000 years");
}
