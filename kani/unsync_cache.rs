// Kani harnesses for leaf / glue functions of `src/unsync/cache.rs` that Verus cannot take (dyn FnMut, closure capturing &mut).
use super::*;
use std::hash::{BuildHasher, Hasher};

/// complete (loop-free, full domain): without a weigher every entry weighs 1 (C17)
#[kani::proof]
fn weigh_defaults_to_one() {
    let k: u16 = kani::any();
    let v: u32 = kani::any();
    let mut w: Option<Weigher<u16, u32>> = None;
    assert!(weigh(&mut w, &k, &v) == 1);
}

/// complete: with a weigher, it is called exactly once with the pair and its result is returned unchanged
#[kani::proof]
fn weigh_calls_the_weigher_once_with_the_pair() {
    let k: u16 = kani::any();
    let v: u32 = kani::any();
    let c: u32 = kani::any();
    let calls = std::rc::Rc::new(std::cell::Cell::new(0u32));
    let calls2 = std::rc::Rc::clone(&calls);
    let mut w: Option<Weigher<u16, u32>> = Some(Box::new(move |kk: &u16, vv: &u32| {
        calls2.set(calls2.get() + 1);
        (*kk as u32).wrapping_add(*vv).wrapping_add(c)
    }));
    assert!(weigh(&mut w, &k, &v) == (k as u32).wrapping_add(v).wrapping_add(c));
    assert!(calls.get() == 1);
}

#[derive(Clone, Default)]
pub struct IdBuild;
pub struct IdHasher(u64);
impl Hasher for IdHasher {
    fn finish(&self) -> u64 { self.0 }
    fn write(&mut self, bytes: &[u8]) { for b in bytes { self.0 = (self.0 << 8) | *b as u64; } }
}
impl BuildHasher for IdBuild { type Hasher = IdHasher; fn build_hasher(&self) -> IdHasher { IdHasher(0) } }

fn stub_wo<K, V, S>(_this: &mut Cache<K, V, S>, _batch: usize, _now: Instant) -> (u64, u64)
where K: Hash + Eq, S: BuildHasher + Clone {
    let c: u64 = kani::any();
    let w: u64 = kani::any();
    kani::assume(c <= 100);
    unsafe { WO = (c, w); WO_CALLS += 1; }
    (c, w)
}
static mut WO: (u64, u64) = (0, 0);
static mut WO_CALLS: u32 = 0;
static mut AO: [(u64, u64); 3] = [(0, 0); 3];
static mut AO_CALLS: usize = 0;
fn stub_ao<K, V, S>(
    _deq_name: &str,
    _deq: &mut Deque<KeyHashDate<K>>,
    _write_order_deq: &mut Deque<KeyDate<K>>,
    _cache: &mut CacheStore<K, V, S>,
    _time_to_idle: &Option<Duration>,
    _batch_size: usize,
    _now: Instant,
) -> (u64, u64)
where K: Hash + Eq, S: BuildHasher + Clone {
    let c: u64 = kani::any();
    let w: u64 = kani::any();
    kani::assume(c <= 100);
    unsafe { if AO_CALLS < 3 { AO[AO_CALLS] = (c, w); } AO_CALLS += 1; }
    (c, w)
}

fn some_instant() -> Instant {
    // an arbitrary but valid Instant without calling the OS clock
    unsafe { std::mem::zeroed() }
}

/// `evict_expired` is glue around two loops that Verus verifies (`remove_expired_wo`, `remove_expired_ao`) but cannot take
/// itself (closure capturing `&mut`). With the two callees replaced by havoc stubs that record what they returned, the glue
/// is proved to subtract from the counters exactly what the callees reported, to call the write-order scan iff ttl is set
/// and the three access-order scans iff tti is set. Complete for the glue arithmetic (no loops).
#[kani::proof]
#[kani::stub(Cache::remove_expired_wo, stub_wo)]
#[kani::stub(Cache::remove_expired_ao, stub_ao)]
fn glue_evict_expired() {
    let ttl = if kani::any() { Some(Duration::from_secs(1)) } else { None };
    let tti = if kani::any() { Some(Duration::from_secs(1)) } else { None };
    let mut c: Cache<u8, u8, IdBuild> = Cache::with_everything(Some(10), None, IdBuild, None, ttl, tti);
    let ec: u64 = kani::any();
    let ws: u64 = kani::any();
    kani::assume(ec >= 400);
    c.entry_count = ec;
    c.weighted_size = ws;
    c.evict_expired(some_instant());
    unsafe {
        assert!(WO_CALLS == if ttl.is_some() { 1 } else { 0 });
        assert!(AO_CALLS == if tti.is_some() { 3 } else { 0 });
        let wo = if ttl.is_some() { WO } else { (0, 0) };
        let ao = if tti.is_some() { AO } else { [(0, 0); 3] };
        assert!(c.entry_count == ec - wo.0 - ao[0].0 - ao[1].0 - ao[2].0);
        assert!(c.weighted_size == ws.saturating_sub(wo.1).saturating_sub(ao[0].1).saturating_sub(ao[1].1).saturating_sub(ao[2].1));
    }
    kani::cover!(ttl.is_some() && tti.is_some());
}
