// Kani harnesses for `src/common/frequency_sketch.rs`: BOUNDED in the table length (2 words), complete over the table contents
// and over all 2^64 hashes. They stand in when the Verus unit cannot decide (a loop of the file was restructured so that the
// inserted loop annotations no longer fit); the unbounded proof is the Verus unit `sketch`.
// (No glob import: this file has its own `mod kani`, which would shadow the `kani` crate.)
use super::FrequencySketch;

const N: usize = 2;

fn nib(w: u64, c: u32) -> u64 { (w >> (c * 4)) & 0xF }

fn any_sketch() -> (FrequencySketch, [u64; N]) {
    let words: [u64; N] = ::kani::any();
    let size: u32 = ::kani::any();
    let sample_size: u32 = ::kani::any();
    ::kani::assume(size <= i32::MAX as u32 && sample_size <= i32::MAX as u32);
    (FrequencySketch { sample_size, table_mask: (N - 1) as u32, table: Box::new(words), size }, words)
}

/// C14: an aging step floor-halves EVERY counter of EVERY word
#[::kani::proof]
#[::kani::unwind(4)]
fn sketch_reset_halves_every_counter() {
    let (mut s, before) = any_sketch();
    let size0 = s.size;
    s.reset();
    let w: usize = ::kani::any();
    let c: u32 = ::kani::any();
    ::kani::assume(w < N && c < 16);
    assert!(nib(s.table[w], c) == nib(before[w], c) / 2);
    assert!(s.table.len() == N);
    assert!(s.size <= size0 >> 1);
}
