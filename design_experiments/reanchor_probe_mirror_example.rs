    pub(crate) fn increment(&mut self, hash: u64)
        requires old(self).wf(), //@
        ensures final(self).wf(), //@
    {
        if self.table.is_empty() {
            return;
        }

        let start = ((hash & 3) << 2) as u8;
        let mut added = false;
        for i in 0..4
            invariant //@
                self.table@.len() == old(self).table@.len(), //@
                added == any_room(old(self).table@, self.table_mask, hash, i as int), //@
        {
            let index = self.index_of(hash, i);
            /*@+*/{ let t = /*@-*/self.increment_at(index, start + i);/*@+*/ added = added || t; }/*@-*/
        }

        if added {
            self.size += 1;
            if self.size >= self.sample_size {
                self.reset();
            }
        }
    }
