#![feature(sized_hierarchy)]
#![feature(allocator_api)]
use vstd::prelude::*;
verus! {

pub mod env {
use vstd::prelude::*;
use std::rc::Rc;
use std::borrow::Borrow;
use std::hash::{BuildHasher, Hash};
use std::ptr::NonNull;

pub type KeyId = int;
pub uninterp spec fn kid<Q: ?Sized>(q: &Q) -> KeyId;
pub open spec fn kid_rc<K>(k: Rc<K>) -> KeyId { kid::<K>(&*k) }
pub broadcast axiom fn axiom_kid_rc<K>(k: Rc<K>)
    ensures #[trigger] kid::<Rc<K>>(&k) == kid::<K>(&*k);

#[verifier::external_type_specification]
#[verifier::external_body]
#[verifier::accept_recursive_types(T)]
pub struct ExNonNull<T: std::marker::PointeeSized>(NonNull<T>);

/// identity (address) of a node pointer
pub uninterp spec fn nid<T>(p: NonNull<T>) -> int;
/// FROZEN HEAP (only sound while the deques are not mutated; used by `admit` only)
pub uninterp spec fn heap_deref<T>(p: NonNull<T>) -> T;
pub uninterp spec fn heap_next(id: int) -> Option<int>;

pub uninterp spec fn ptr_reads<T: std::marker::PointeeSized>(p: &NonNull<T>, r: &T) -> bool;
pub assume_specification<T, 'a> [std::ptr::NonNull::<T>::as_ref] (p: &std::ptr::NonNull<T>) -> (r: &'a T)
    where T: std::marker::PointeeSized
    ensures ptr_reads(p, r);
pub broadcast axiom fn axiom_ptr_reads<T>(p: &NonNull<T>, r: &T)
    ensures #[trigger] ptr_reads(p, r) ==> *r == heap_deref(*p);

pub struct N { pub id: int, pub key: KeyId, pub hash: u64 }

#[derive(Clone, Copy)]
#[verifier::external_body]
pub struct Instant { x: u64 }

#[verifier::external_body]
#[verifier::reject_recursive_types(K)]
pub struct EntryInfo<K> { k: std::marker::PhantomData<K> }
#[verifier::reject_recursive_types(K)]
pub struct ValueEntry<K, V> { pub value: V, pub info: EntryInfo<K> }
impl<K, V> ValueEntry<K, V> {
    pub uninterp spec fn ao(&self) -> Option<int>;
    pub uninterp spec fn w(&self) -> u32;
}

pub struct KeyHashDate<K> { pub key: Rc<K>, pub hash: u64, pub timestamp: Option<Instant> }
#[verifier::reject_recursive_types(T)]
pub struct DeqNode<T> { pub element: T }
#[verifier::external_body]
#[verifier::reject_recursive_types(T)]
pub struct Deque<T> { k: std::marker::PhantomData<T> }
impl<T> Deque<T> {
    pub uninterp spec fn view(&self) -> Seq<N>;
    #[verifier::external_body]
    pub fn peek_front_ptr(&self) -> (r: Option<NonNull<DeqNode<T>>>)
        ensures match r { Some(p) => self@.len() > 0 && nid(p) == self@[0].id, None => self@.len() == 0 }
    { unimplemented!() }
}
impl<T> DeqNode<T> {
    #[verifier::external_body]
    pub fn next_node_ptr(this: NonNull<Self>) -> (r: Option<NonNull<DeqNode<T>>>)
        ensures match r { Some(p) => heap_next(nid(this)) == Some(nid(p)), None => heap_next(nid(this)).is_none() }
    { unimplemented!() }
}
#[verifier::reject_recursive_types(K)]
pub struct Deques<K> { pub probation: Deque<KeyHashDate<K>> }

/// the frozen-heap axiom: while `d` is not mutated, node pointers read what the view says
pub axiom fn axiom_frozen<K>(d: &Deque<KeyHashDate<K>>)
    ensures forall|p: NonNull<DeqNode<KeyHashDate<K>>>, i: int| 0 <= i < d@.len() && nid(p) == #[trigger] d@[i].id ==> {
        &&& kid_rc(#[trigger] heap_deref(p).element.key) == d@[i].key
        &&& heap_deref(p).element.hash == d@[i].hash
        &&& heap_next(nid(p)) == (if i + 1 < d@.len() { Some(d@[i + 1].id) } else { None::<int> })
    };

#[verifier::external_body]
#[verifier::reject_recursive_types(K)]
#[verifier::reject_recursive_types(V)]
#[verifier::reject_recursive_types(S)]
pub struct CacheStore<K, V, S> { k: std::marker::PhantomData<(K,V,S)> }
impl<K, V, S> CacheStore<K, V, S> {
    pub uninterp spec fn view(&self) -> Map<KeyId, ValueEntry<K, V>>;
    #[verifier::external_body]
    pub fn get<Q>(&self, key: &Q) -> (r: Option<&ValueEntry<K, V>>)
    where Rc<K>: Borrow<Q>, Q: Hash + Eq + ?Sized
        ensures match r { Some(e) => self@.contains_key(kid(key)) && *e == self@[kid(key)], None => !self@.contains_key(kid(key)) }
    { unimplemented!() }
}

#[verifier::external_body]
pub struct FrequencySketch { x: u64 }
impl FrequencySketch {
    pub uninterp spec fn freq(&self, hash: u64) -> u8;
    #[verifier::external_body]
    pub fn frequency(&self, hash: u64) -> (r: u8) ensures r == self.freq(hash), r <= 15 { unimplemented!() }
}

#[verifier::external_body]
#[verifier::reject_recursive_types(K)]
#[verifier::reject_recursive_types(V)]
pub struct Weigher<K, V> { k: std::marker::PhantomData<(K,V)> }
pub uninterp spec fn wspec<K, V>(w: Option<Weigher<K, V>>, key: KeyId, value: V) -> u32;
#[verifier::external_body]
pub fn weigh<K, V>(weigher: &mut Option<Weigher<K, V>>, key: &K, value: &V) -> (r: u32)
    ensures r == wspec(*old(weigher), kid(key), *value), *final(weigher) == *old(weigher),
        old(weigher).is_none() ==> r == 1,
{ unimplemented!() }

pub uninterp spec fn rc_reads<T: std::marker::MetaSized + ?Sized, A: std::alloc::Allocator>(rc: &std::rc::Rc<T, A>, r: &T) -> bool;
pub assume_specification<T, A> [<std::rc::Rc<T, A> as std::convert::AsRef<T>>::as_ref] (rc: &std::rc::Rc<T, A>) -> (r: &T)
    where A: std::alloc::Allocator, T: std::marker::MetaSized + ?Sized
    ensures rc_reads(rc, r);
pub broadcast axiom fn axiom_rc_reads<T>(rc: &Rc<T>, r: &T)
    ensures #[trigger] rc_reads(rc, r) ==> *r == **rc;

pub trait Array { type Item; }
impl<T, const N: usize> Array for [T; N] { type Item = T; }
#[verifier::reject_recursive_types(A)]
pub struct SmallVec<A: Array> { pub v: Vec<A::Item> }
impl<A: Array> Default for SmallVec<A> {
    fn default() -> (r: Self) ensures r.v@.len() == 0 { SmallVec { v: Vec::new() } }
}
impl<A: Array> SmallVec<A> {
    pub fn push(&mut self, x: A::Item) ensures final(self).v@ == old(self).v@.push(x) { self.v.push(x) }
}
} // env

pub mod cspec {
use vstd::prelude::*;
use super::env::*;
pub open spec fn wsum<K, V>(s: Seq<N>, m: Map<KeyId, ValueEntry<K, V>>) -> int
    decreases s.len()
{ if s.len() == 0 { 0 } else { wsum(s.drop_last(), m) + m[s.last().key].w() as int } }
pub open spec fn fsum(s: Seq<N>, sk: FrequencySketch) -> int
    decreases s.len()
{ if s.len() == 0 { 0 } else { fsum(s.drop_last(), sk) + sk.freq(s.last().hash) as int } }

/// least n (searching upwards from `from`) such that the first n nodes weigh at least cw
pub open spec fn least_prefix<K, V>(p: Seq<N>, m: Map<KeyId, ValueEntry<K, V>>, cw: int, from: int) -> Option<int>
    decreases p.len() - from
{
    if from < 0 || from > p.len() { None }
    else if wsum(p.take(from), m) >= cw { Some(from) }
    else if from == p.len() { None }
    else { least_prefix(p, m, cw, from + 1) }
}
/// C13, from the property statement: admitted iff a shortest sufficient LRU prefix exists and the candidate is strictly more popular than it
pub open spec fn spec_admit<K, V>(cw: int, cf: int, p: Seq<N>, m: Map<KeyId, ValueEntry<K, V>>, sk: FrequencySketch) -> bool {
    match least_prefix(p, m, cw, 0) { Some(n) => cf > fsum(p.take(n), sk), None => false }
}

pub proof fn lemma_wsum_take_mono<K, V>(p: Seq<N>, m: Map<KeyId, ValueEntry<K, V>>, a: int, b: int)
    requires 0 <= a <= b <= p.len()
    ensures wsum(p.take(a), m) <= wsum(p.take(b), m)
    decreases b - a
{
    if a < b {
        lemma_wsum_take_mono(p, m, a, b - 1);
        assert(p.take(b).drop_last() =~= p.take(b - 1));
    }
}
pub proof fn lemma_fsum_take_mono(p: Seq<N>, sk: FrequencySketch, a: int, b: int)
    requires 0 <= a <= b <= p.len()
    ensures fsum(p.take(a), sk) <= fsum(p.take(b), sk)
    decreases b - a
{
    if a < b {
        lemma_fsum_take_mono(p, sk, a, b - 1);
        assert(p.take(b).drop_last() =~= p.take(b - 1));
    }
}
/// characterisation of least_prefix
pub proof fn lemma_least_prefix<K, V>(p: Seq<N>, m: Map<KeyId, ValueEntry<K, V>>, cw: int, from: int)
    requires 0 <= from <= p.len(), forall|i: int| 0 <= i < from ==> wsum(#[trigger] p.take(i), m) < cw
    ensures match least_prefix(p, m, cw, from) {
        Some(n) => from <= n <= p.len() && wsum(p.take(n), m) >= cw && forall|i: int| 0 <= i < n ==> wsum(#[trigger] p.take(i), m) < cw,
        None => forall|i: int| 0 <= i <= p.len() ==> wsum(#[trigger] p.take(i), m) < cw,
    }
    decreases p.len() - from
{
    if wsum(p.take(from), m) >= cw { }
    else if from == p.len() { }
    else { lemma_least_prefix(p, m, cw, from + 1); }
}
}

pub mod code {
use vstd::prelude::*;
use std::rc::Rc;
use std::ptr::NonNull;
use std::hash::{BuildHasher, Hash};
use super::env::*;
use super::cspec::*;
broadcast use {axiom_kid_rc, axiom_ptr_reads, axiom_rc_reads};

#[derive(Default)]
pub struct EntrySizeAndFrequency {
    pub weight: u64,
    pub freq: u32,
}

pub assume_specification [<EntrySizeAndFrequency as Default>::default] () -> (r: EntrySizeAndFrequency)
    ensures r.weight == 0, r.freq == 0;

impl EntrySizeAndFrequency {
    fn add_policy_weight<K, V>(&mut self, key: &K, value: &V, weigher: &mut Option<Weigher<K, V>>)
        requires old(self).weight + u32::MAX <= u64::MAX,
        ensures final(self).weight == old(self).weight + wspec(*old(weigher), kid(key), *value), final(self).freq == old(self).freq,
            *final(weigher) == *old(weigher),
    {
        self.weight += weigh(weigher, key, value) as u64;
    }

    fn add_frequency(&mut self, freq: &FrequencySketch, hash: u64)
        requires old(self).freq + 15 <= u32::MAX,
        ensures final(self).freq == old(self).freq + freq.freq(hash), final(self).freq <= old(self).freq + 15, final(self).weight == old(self).weight,
    {
        self.freq += freq.frequency(hash) as u32;
    }
}

// Access-Order Queue Node
type AoqNode<K> = NonNull<DeqNode<KeyHashDate<K>>>;

#[verifier::reject_recursive_types(K)]
pub enum AdmissionResult<K> {
    Admitted {
        victim_nodes: SmallVec<[AoqNode<K>; 8]>,
        victims_weight: u64,
    },
    Rejected,
}

#[verifier::reject_recursive_types(K)]
#[verifier::reject_recursive_types(V)]
#[verifier::reject_recursive_types(S)]
pub struct Cache<K, V, S> { pub cache: CacheStore<K, V, S>, pub deques: Deques<K>, pub weigher: Option<Weigher<K, V>> }

pub open spec fn ptr_ids<K>(v: Seq<AoqNode<K>>) -> Seq<int> { v.map_values(|p: AoqNode<K>| nid(p)) }

impl<K, V, S> Cache<K, V, S>
where
    K: Hash + Eq,
    S: BuildHasher + Clone,
{
    #[inline]
    fn admit(
        candidate: &EntrySizeAndFrequency,
        cache: &CacheStore<K, V, S>,
        deqs: &Deques<K>,
        freq: &FrequencySketch,
        weigher: &mut Option<Weigher<K, V>>,
    ) -> (r: AdmissionResult<K>)
        requires
            candidate.weight <= u32::MAX, candidate.freq <= 15,
            forall|i: int| 0 <= i < deqs.probation@.len() ==> cache@.contains_key(#[trigger] deqs.probation@[i].key)
                && cache@[deqs.probation@[i].key].w() == wspec(*old(weigher), deqs.probation@[i].key, cache@[deqs.probation@[i].key].value),
        ensures
            *final(weigher) == *old(weigher),
            (r is Admitted) <==> spec_admit(candidate.weight as int, candidate.freq as int, deqs.probation@, cache@, *freq),
            match r {
                AdmissionResult::Admitted { victim_nodes, victims_weight } => {
                    let n = victim_nodes.v@.len() as int;
                    &&& least_prefix(deqs.probation@, cache@, candidate.weight as int, 0) == Some(n)
                    &&& wsum(deqs.probation@.take(n), cache@) == victims_weight
                    &&& ptr_ids(victim_nodes.v@) == deqs.probation@.take(n).map_values(|x: N| x.id)
                },
                AdmissionResult::Rejected => true,
            }
    {
        let mut victims = EntrySizeAndFrequency::default();
        let mut victim_nodes = SmallVec::default();

        // Get first potential victim at the LRU position.
        let mut next_victim = deqs.probation.peek_front_ptr();

        // Aggregate potential victims.
        proof { axiom_frozen(&deqs.probation); }
        while victims.weight < candidate.weight
            invariant
                candidate.weight <= u32::MAX, candidate.freq <= 15,
                0 <= victim_nodes.v@.len() <= deqs.probation@.len(),
                ptr_ids(victim_nodes.v@) == deqs.probation@.take(victim_nodes.v@.len() as int).map_values(|x: N| x.id),
                match next_victim { Some(q) => victim_nodes.v@.len() < deqs.probation@.len() && nid(q) == deqs.probation@[victim_nodes.v@.len() as int].id, None => victim_nodes.v@.len() == deqs.probation@.len() },
                victims.weight == wsum(deqs.probation@.take(victim_nodes.v@.len() as int), cache@),
                victims.freq == fsum(deqs.probation@.take(victim_nodes.v@.len() as int), *freq),
                victims.freq <= 30,
                victim_nodes.v@.len() > 0 ==> wsum(deqs.probation@.take(victim_nodes.v@.len() - 1), cache@) < candidate.weight,
                *weigher == *old(weigher),
                forall|i: int| 0 <= i < deqs.probation@.len() ==> cache@.contains_key(#[trigger] deqs.probation@[i].key)
                    && cache@[deqs.probation@[i].key].w() == wspec(*old(weigher), deqs.probation@[i].key, cache@[deqs.probation@[i].key].value),
                forall|p: NonNull<DeqNode<KeyHashDate<K>>>, i: int| 0 <= i < deqs.probation@.len() && nid(p) == #[trigger] deqs.probation@[i].id ==> {
                    &&& kid_rc(#[trigger] heap_deref(p).element.key) == deqs.probation@[i].key
                    &&& heap_deref(p).element.hash == deqs.probation@[i].hash
                    &&& heap_next(nid(p)) == (if i + 1 < deqs.probation@.len() { Some(deqs.probation@[i + 1].id) } else { None::<int> })
                },
            ensures
                victims.weight >= candidate.weight || candidate.freq <= victims.freq || victim_nodes.v@.len() == deqs.probation@.len(),
            decreases deqs.probation@.len() - victim_nodes.v@.len(),
        {
            if candidate.freq < victims.freq {
                break;
            }
            if let Some(victim) = next_victim.take() {
                next_victim = DeqNode::next_node_ptr(victim);
                let vic_elem = &unsafe { victim.as_ref() }.element;

                let vic_entry = cache
                    .get(&vic_elem.key)
                    .expect("Cannot get an victim entry");
                victims.add_policy_weight(vic_elem.key.as_ref(), &vic_entry.value, weigher);
                victims.add_frequency(freq, vic_elem.hash);
                victim_nodes.push(victim);
                proof {
                    let n = victim_nodes.v@.len() as int;
                    let p = deqs.probation@;
                    assert(p.take(n).drop_last() =~= p.take(n - 1));
                    assert(p.take(n).last() == p[n - 1]);
                    assert forall|i: int| 0 <= i < n implies ptr_ids(victim_nodes.v@)[i] == p.take(n).map_values(|x: N| x.id)[i] by {
                        if i < n - 1 {
                            assert(ptr_ids(victim_nodes.v@)[i] == ptr_ids(victim_nodes.v@.drop_last())[i]);
                            assert(p.take(n - 1).map_values(|x: N| x.id)[i] == p[i].id);
                        }
                    }
                    assert(ptr_ids(victim_nodes.v@) =~= p.take(n).map_values(|x: N| x.id));
                }
            } else {
                // No more potential victims.
                break;
            }
        }

        // Admit or reject the candidate.

        // TODO: Implement some randomness to mitigate hash DoS attack.
        // See Caffeine's implementation.

        proof {
            let p = deqs.probation@; let m = cache@; let n = victim_nodes.v@.len() as int; let cw = candidate.weight as int;
            assert forall|i: int| 0 <= i < n implies wsum(#[trigger] p.take(i), m) < cw by { lemma_wsum_take_mono(p, m, i, n - 1); }
            lemma_least_prefix(p, m, cw, 0);
            if victims.weight >= candidate.weight {
                assert(least_prefix(p, m, cw, 0) == Some(n)) by {
                    let l = least_prefix(p, m, cw, 0);
                    if l is Some { let ln = l.unwrap(); if ln < n { } else if ln > n { assert(wsum(p.take(n), m) < cw); } }
                }
            } else {
                match least_prefix(p, m, cw, 0) {
                    Some(ln) => {
                        if ln <= n { lemma_wsum_take_mono(p, m, ln, n); }
                        lemma_fsum_take_mono(p, *freq, n, ln);
                        if n == p.len() { lemma_wsum_take_mono(p, m, ln, n); }
                    },
                    None => {},
                }
            }
        }
        if victims.weight >= candidate.weight && candidate.freq > victims.freq {
            AdmissionResult::Admitted {
                victim_nodes,
                victims_weight: victims.weight,
            }
        } else {
            AdmissionResult::Rejected
        }
    }
}
}
}
fn main() {}
