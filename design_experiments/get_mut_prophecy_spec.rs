use vstd::prelude::*;
verus! {
pub struct E { pub v: u64, pub w: u32 }

#[verifier::external_body]
pub struct Store { x: u64 }
impl Store {
    pub uninterp spec fn view(&self) -> Map<int, E>;

    #[verifier::external_body]
    pub fn get_mut(&mut self, key: u64) -> (r: Option<&mut E>)
        ensures
            match r {
                Some(e) => old(self)@.contains_key(key as int) && *e == old(self)@[key as int]
                    && final(self)@ == old(self)@.insert(key as int, *final(e)),
                None => !old(self)@.contains_key(key as int) && final(self)@ == old(self)@,
            }
    { unimplemented!() }
}

pub struct C { pub s: Store, pub n: u64 }
impl C {
    fn bump(&mut self, key: u64) -> (r: Option<&u64>)
        ensures
            match r {
                Some(v) => old(self).s@.contains_key(key as int) && *v == old(self).s@[key as int].v
                     && final(self).s@ == old(self).s@.insert(key as int, E { v: old(self).s@[key as int].v, w: 7 }),
                None => final(self).s@ == old(self).s@,
            }
    {
        match (self.s.get_mut(key), &mut self.n) {
            (None, _) => None,
            (Some(entry), n) => {
                entry.w = 7;
                *n = 1;
                Some(&entry.v)
            }
        }
    }
}
}
fn main() {}
