// appended to src/common/deque.rs of a scratch copy; `cargo kani --harness window_unlink`: SUCCESSFUL, 1.8 s, loop-free (complete for the single operation)
#[cfg(kani)]
mod verif_window {
    use super::*;
    use crate::common::CacheRegion::MainProbation;

    fn raw(v: u8) -> NonNull<DeqNode<u8>> {
        NonNull::new(Box::into_raw(Box::new(DeqNode::new(v)))).unwrap()
    }

    /// Local-window contract of `unlink`: nodes P <-> X <-> N where P and N may be absent,
    /// `far_l`/`far_r` stand for the (arbitrarily long) rest of the list and must never be
    /// dereferenced: they are dangling.
    #[kani::proof]
    fn window_unlink() {
        let has_p: bool = kani::any();
        let has_n: bool = kani::any();
        let p_is_head: bool = kani::any();
        let n_is_tail: bool = kani::any();
        let p = raw(1);
        let x = raw(2);
        let n = raw(3);
        let far_l: NonNull<DeqNode<u8>> = NonNull::dangling();
        let far_r: NonNull<DeqNode<u8>> = NonNull::dangling();
        unsafe {
            (*x.as_ptr()).prev = if has_p { Some(p) } else { None };
            (*x.as_ptr()).next = if has_n { Some(n) } else { None };
            (*p.as_ptr()).next = Some(x);
            (*p.as_ptr()).prev = if p_is_head { None } else { Some(far_l) };
            (*n.as_ptr()).prev = Some(x);
            (*n.as_ptr()).next = if n_is_tail { None } else { Some(far_r) };
        }
        let len: usize = kani::any();
        kani::assume(len >= 3);
        let head = if !has_p { x } else if p_is_head { p } else { far_l };
        let tail = if !has_n { x } else if n_is_tail { n } else { far_r };
        let cursor_sel: u8 = kani::any();
        let cursor = match cursor_sel % 5 {
            0 => None,
            1 => Some(DeqCursor::Done),
            2 => Some(DeqCursor::Node(x)),
            3 if has_p => Some(DeqCursor::Node(p)),
            4 if has_n => Some(DeqCursor::Node(n)),
            _ => None,
        };
        let cursor_was_x = cursor_sel % 5 == 2;
        let mut d: Deque<u8> = Deque { region: MainProbation, len, head: Some(head), tail: Some(tail), cursor, marker: PhantomData };

        unsafe { d.unlink(x) };

        unsafe {
            // X is detached
            assert!((*x.as_ptr()).prev.is_none() && (*x.as_ptr()).next.is_none());
            // neighbours are spliced together
            if has_p { assert!((*p.as_ptr()).next == if has_n { Some(n) } else { None }); }
            if has_n { assert!((*n.as_ptr()).prev == if has_p { Some(p) } else { None }); }
            // outer links untouched
            if has_p { assert!((*p.as_ptr()).prev == if p_is_head { None } else { Some(far_l) }); }
            if has_n { assert!((*n.as_ptr()).next == if n_is_tail { None } else { Some(far_r) }); }
        }
        // head / tail move only if X was head / tail
        assert!(d.head == if !has_p { if has_n { Some(n) } else { None } } else { Some(head) });
        assert!(d.tail == if !has_n { if has_p { Some(p) } else { None } } else { Some(tail) });
        assert!(d.len == len - 1);
        // a cursor on X moved to X's successor
        if cursor_was_x {
            match d.cursor { Some(DeqCursor::Node(c)) => assert!(has_n && c == n), Some(DeqCursor::Done) => assert!(!has_n), None => assert!(false) }
        }
        // prevent Deque::drop from walking the fake list; free the three real nodes exactly once
        std::mem::forget(d);
        unsafe { drop(Box::from_raw(p.as_ptr())); drop(Box::from_raw(x.as_ptr())); drop(Box::from_raw(n.as_ptr())); }
    }
}
