// appended to src/unsync/cache.rs of a scratch copy; both harnesses SUCCESSFUL in < 1 s
#[cfg(kani)]
mod verif_leaf {
    use super::*;

    #[kani::proof]
    fn weigh_defaults_to_one() {
        let k: u16 = kani::any();
        let v: u32 = kani::any();
        let mut w: Option<Weigher<u16, u32>> = None;
        assert!(weigh(&mut w, &k, &v) == 1);
    }

    #[kani::proof]
    fn weigh_calls_the_weigher_once_with_the_pair() {
        let k: u16 = kani::any();
        let v: u32 = kani::any();
        let c: u32 = kani::any();
        let calls = std::rc::Rc::new(std::cell::Cell::new(0u32));
        let calls2 = std::rc::Rc::clone(&calls);
        let mut w: Option<Weigher<u16, u32>> = Some(Box::new(move |kk: &u16, vv: &u32| {
            calls2.set(calls2.get() + 1);
            (*kk as u32).wrapping_add(*vv).wrapping_add(c)
        }));
        assert!(weigh(&mut w, &k, &v) == (k as u32).wrapping_add(v).wrapping_add(c));
        assert!(calls.get() == 1);
    }
}
