#!/usr/bin/env python3
"""Feasibility probe (design phase): token-level re-anchoring of marked annotations onto edited source."""
import re, sys, difflib

TOK = re.compile(r'''
    (?P<ws>\s+)
  | (?P<lc>//[^\n]*)
  | (?P<bc>/\*.*?\*/)
  | (?P<str>b?"(?:\\.|[^"\\])*")
  | (?P<chr>b?'(?:\\.|[^'\\])')
  | (?P<life>'[A-Za-z_][A-Za-z0-9_]*)
  | (?P<num>[0-9][0-9A-Za-z_\.]*)
  | (?P<id>[A-Za-z_][A-Za-z0-9_]*)
  | (?P<op>::|->|=>|==|!=|<=|>=|&&|\|\||<<=|>>=|<<|>>|\+=|-=|\*=|/=|\|=|&=|\^=|\.\.=|\.\.|.)
''', re.X | re.S)

def lex(text):
    """-> list of (tok, is_annotation). Whitespace and ordinary comments dropped."""
    out = []; ann = False; pos = 0
    lines_ann = set()
    # whole-line annotations: lines ending with //@
    marked = []
    for line in text.split('\n'):
        marked.append(line.rstrip().endswith('//@'))
    lineno = 0
    for m in TOK.finditer(text):
        k = m.lastgroup; t = m.group()
        lineno = text.count('\n', 0, m.start())
        if k == 'ws': continue
        if k == 'bc':
            if t == '/*@+*/': ann = True; continue
            if t == '/*@-*/': ann = False; continue
            continue
        if k == 'lc': continue
        out.append((t, ann or marked[lineno]))
    return out

def reanchor(mirror_text, current_text):
    ours = lex(mirror_text)
    base = [t for t, a in ours if not a]
    theirs = [t for t, a in lex(current_text)]
    if base == theirs:
        return 'identical', [t for t, _ in ours]
    # insertion chunks keyed by index into base (chunk goes before base[i])
    chunks = {}; bi = 0
    for t, a in ours:
        if a: chunks.setdefault(bi, []).append(t)
        else: bi += 1
    sm = difflib.SequenceMatcher(a=base, b=theirs, autojunk=False)
    b2t = {}          # base index -> theirs index for equal tokens
    for tag, i1, i2, j1, j2 in sm.get_opcodes():
        if tag == 'equal':
            for d in range(i2 - i1): b2t[i1 + d] = j1 + d
    place = {}
    for bi, toks in chunks.items():
        left_ok = (bi - 1) in b2t or bi == 0
        right_ok = bi in b2t or bi == len(base)
        if right_ok and bi in b2t: j = b2t[bi]
        elif right_ok: j = len(theirs)
        elif left_ok: j = b2t[bi - 1] + 1 if bi > 0 else 0
        else: return 'conflict', None
        place.setdefault(j, []).extend(toks)
    merged = []
    for j, t in enumerate(theirs):
        merged.extend(place.get(j, [])); merged.append(t)
    merged.extend(place.get(len(theirs), []))
    return 'reanchored', merged

if __name__ == '__main__':
    st, toks = reanchor(open(sys.argv[1]).read(), open(sys.argv[2]).read())
    print(st)
    if toks: print(' '.join(toks))
