// appended to src/unsync/cache.rs of a scratch copy; `cargo kani -Z stubbing --harness glue_evict_expired`: SUCCESSFUL, 1.7 s.
// Kani prints `- Stub: Cache :: remove_expired_ao -> stub_ao` and `... remove_expired_wo -> stub_wo`.
#[cfg(kani)]
mod verif_glue {
    use super::*;
    use std::hash::{BuildHasher, Hasher};

    #[derive(Clone, Default)]
    pub struct IdBuild;
    pub struct IdHasher(u64);
    impl Hasher for IdHasher {
        fn finish(&self) -> u64 { self.0 }
        fn write(&mut self, bytes: &[u8]) { for b in bytes { self.0 = (self.0 << 8) | *b as u64; } }
    }
    impl BuildHasher for IdBuild { type Hasher = IdHasher; fn build_hasher(&self) -> IdHasher { IdHasher(0) } }

    fn stub_wo<K, V, S>(_this: &mut Cache<K, V, S>, _batch: usize, _now: Instant) -> (u64, u64)
    where K: Hash + Eq, S: BuildHasher + Clone {
        let c: u64 = kani::any();
        let w: u64 = kani::any();
        kani::assume(c <= 100);
        (c, w)
    }
    fn stub_ao<K, V, S>(
        _deq_name: &str,
        _deq: &mut Deque<KeyHashDate<K>>,
        _write_order_deq: &mut Deque<KeyDate<K>>,
        _cache: &mut CacheStore<K, V, S>,
        _time_to_idle: &Option<Duration>,
        _batch_size: usize,
        _now: Instant,
    ) -> (u64, u64)
    where K: Hash + Eq, S: BuildHasher + Clone {
        let c: u64 = kani::any();
        let w: u64 = kani::any();
        kani::assume(c <= 100);
        (c, w)
    }

    fn some_instant() -> Instant {
        // an arbitrary but valid Instant without calling the OS clock
        unsafe { std::mem::zeroed() }
    }

    #[kani::proof]
    #[kani::stub(Cache::remove_expired_wo, stub_wo)]
    #[kani::stub(Cache::remove_expired_ao, stub_ao)]
    fn glue_evict_expired() {
        let ttl = if kani::any() { Some(Duration::from_secs(1)) } else { None };
        let tti = if kani::any() { Some(Duration::from_secs(1)) } else { None };
        let mut c: Cache<u8, u8, IdBuild> = Cache::with_everything(Some(10), None, IdBuild, None, ttl, tti);
        let ec: u64 = kani::any();
        let ws: u64 = kani::any();
        kani::assume(ec >= 400);
        c.entry_count = ec;
        c.weighted_size = ws;
        c.evict_expired(some_instant());
        assert!(c.entry_count <= ec);
        assert!(c.weighted_size <= ws);
        if ttl.is_none() && tti.is_none() { assert!(c.entry_count == ec && c.weighted_size == ws); }
    }
}

