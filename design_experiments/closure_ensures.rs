use vstd::prelude::*;
verus! {
pub struct C { pub max_capacity: Option<u64>, pub weighted_size: u64 }
impl C {
    fn weights_to_evict(&self) -> (r: u64)
        ensures r == match self.max_capacity { Some(l) => if self.weighted_size > l { (self.weighted_size - l) as u64 } else { 0 }, None => 0 }
    {
        self.max_capacity
            .map(|limit| -> (r: u64) ensures r == if self.weighted_size > limit { (self.weighted_size - limit) as u64 } else { 0 } { self.weighted_size.saturating_sub(limit) })
            .unwrap_or_default()
    }
    fn w2(&self) -> (r: u64)
        ensures r == match self.max_capacity { Some(l) => if self.weighted_size > l { (self.weighted_size - l) as u64 } else { 0 }, None => 0 }
    {
        self.max_capacity
            .map(|limit| self.weighted_size.saturating_sub(limit))
            .unwrap_or_default()
    }
}
}
fn main() {}
