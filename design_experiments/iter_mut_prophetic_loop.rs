use vstd::prelude::*;
use vstd::std_specs::iter::IteratorSpec;
verus! {
fn halve(t: &mut Box<[u64]>)
    ensures final(t)@.len() == old(t)@.len(),
        forall|i: int| 0 <= i < old(t)@.len() ==> #[trigger] final(t)@[i] == old(t)@[i] >> 1,
{
    for entry in it: t.iter_mut()
        invariant
            forall|j: int| 0 <= j < it.index@ ==> *final(#[trigger] it.snapshot@.remaining()[j]) == *(it.snapshot@.remaining()[j]) >> 1,
    {
        *entry = *entry >> 1;
    }
}
}
fn main() {}
