use vstd::prelude::*;
verus! {
pub mod bv {
use vstd::prelude::*;

pub open spec fn nib(w: u64, c: u64) -> u64 { (w >> (c << 2)) & 0xF }

pub broadcast proof fn lemma_and_le(x: u64, m: u64)
    ensures #[trigger] (x & m) <= m
{ assert((x & m) <= m) by(bit_vector); }


global size_of usize == 8;

pub broadcast proof fn lemma_nib_inc(w: u64, c: u8)
    requires c < 16
    ensures
        (#[trigger] (w & (0xF_u64 << ((c as usize) << 2))) != (0xF_u64 << ((c as usize) << 2))) <==> nib(w, c as u64) < 15,
        nib(w, c as u64) <= 15,
        nib(w, c as u64) < 15 ==> w + (1u64 << ((c as usize) << 2)) <= u64::MAX,
        nib(w, c as u64) < 15 ==> nib((w + (1u64 << ((c as usize) << 2))) as u64, c as u64) == nib(w, c as u64) + 1,
        forall|d: u64| d < 16 && d != c && nib(w, c as u64) < 15 ==> nib((w + (1u64 << ((c as usize) << 2))) as u64, d) == #[trigger] nib(w, d),
{
    let off = (c as usize) << 2;
    assert(c < 16 ==> (((w & (0xF_u64 << ((c as usize) << 2))) != (0xF_u64 << ((c as usize) << 2))) <==> ((w >> ((c as u64) << 2)) & 0xF) < 15)) by(bit_vector);
    assert(((w >> ((c as u64) << 2)) & 0xF) <= 15) by(bit_vector);
    assert(c < 16 && ((w >> ((c as u64) << 2)) & 0xF) < 15 ==> w <= (0xFFFF_FFFF_FFFF_FFFFu64 - (1u64 << ((c as usize) << 2)))) by(bit_vector);
    assert(c < 16 && ((w >> ((c as u64) << 2)) & 0xF) < 15 ==> (((add(w, (1u64 << ((c as usize) << 2)))) >> ((c as u64) << 2)) & 0xF) == add(((w >> ((c as u64) << 2)) & 0xF), 1)) by(bit_vector);
    assert forall|d: u64| d < 16 && d != c && nib(w, c as u64) < 15 implies nib((w + (1u64 << ((c as usize) << 2))) as u64, d) == #[trigger] nib(w, d) by {
        assert(c < 16 && d < 16 && d != c && ((w >> ((c as u64) << 2)) & 0xF) < 15 ==> (((add(w, (1u64 << ((c as usize) << 2)))) >> (d << 2)) & 0xF) == ((w >> (d << 2)) & 0xF)) by(bit_vector);
    }
}

pub broadcast proof fn lemma_off(c: u8)
    requires c < 16
    ensures #[trigger] ((c as usize) << 2) == 4 * c, 
{ assert(c < 16 ==> ((c as usize) << 2) == 4 * c) by(bit_vector); }

} // mod bv
pub mod code {
use vstd::prelude::*;
use super::bv::*;
pub struct FrequencySketch {
    sample_size: u32,
    table_mask: u32,
    table: Box<[u64]>,
    size: u32,
}

pub exec static SEED: [u64; 4] = [
    0xc3a5_c85c_97cb_3127,
    0xb492_b66f_be98_f273,
    0x9ae1_6a3b_2f90_404f,
    0xcbf2_9ce4_8422_2325,
];

broadcast use lemma_and_le, lemma_off, lemma_nib_inc;

impl FrequencySketch {
    fn index_of(&self, hash: u64, depth: u8) -> (r: usize)
        requires depth < 4, self.table@.len() == self.table_mask as nat + 1,
        ensures r < self.table@.len(),
    {
        let i = depth as usize;
        let mut hash = hash.wrapping_add(SEED[i]).wrapping_mul(SEED[i]);
        hash = hash.wrapping_add(hash >> 32);
        (hash & (self.table_mask as u64)) as usize
    }

    fn increment_at(&mut self, table_index: usize, counter_index: u8) -> (r: bool)
        requires table_index < old(self).table@.len(), counter_index < 16,
        ensures
            final(self).table@.len() == old(self).table@.len(),
            forall|i: int| 0 <= i < old(self).table@.len() && i != table_index ==> final(self).table@[i] == old(self).table@[i],
            forall|c: u64| c < 16 && c != counter_index ==> nib(final(self).table@[table_index as int], c) == nib(old(self).table@[table_index as int], c),
            r == (nib(old(self).table@[table_index as int], counter_index as u64) < 15),
            nib(final(self).table@[table_index as int], counter_index as u64) == if r { nib(old(self).table@[table_index as int], counter_index as u64) + 1 } else { 15 },
            final(self).size == old(self).size, final(self).sample_size == old(self).sample_size, final(self).table_mask == old(self).table_mask,
    {
        let offset = (counter_index as usize) << 2;
        let mask = 0xF_u64 << offset;
        if self.table[table_index] & mask != mask {
            self.table[table_index] += 1u64 << offset;
            true
        } else {
            false
        }
    }
}
}
}
fn main() {}
