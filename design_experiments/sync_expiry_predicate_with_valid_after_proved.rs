use vstd::prelude::*;
use std::time::Duration;
verus! {
pub mod env {
use vstd::prelude::*;
use std::time::Duration;
#[derive(Clone, Copy)]
#[verifier::external_body]
pub struct Instant { x: u64 }
impl Instant { pub uninterp spec fn t(&self) -> int; }
pub uninterp spec fn dur_ns(d: Duration) -> int;
pub open spec fn max_dur_ns() -> int { 1000int * 365 * 24 * 3600 * 1_000_000_000 }
impl PartialEq for Instant {
    #[verifier::external_body]
    fn eq(&self, o: &Instant) -> (r: bool) ensures r == (self.t() == o.t()) { unimplemented!() }
}
impl PartialOrd for Instant {
    #[verifier::external_body]
    fn partial_cmp(&self, o: &Instant) -> (r: Option<std::cmp::Ordering>) { unimplemented!() }
    #[verifier::external_body]
    fn le(&self, o: &Instant) -> (r: bool) ensures r == (self.t() <= o.t()) { unimplemented!() }
    #[verifier::external_body]
    fn lt(&self, o: &Instant) -> (r: bool) ensures r == (self.t() < o.t()) { unimplemented!() }
}
impl Instant {
    #[verifier::external_body]
    pub fn checked_add(&self, d: Duration) -> (r: Option<Instant>)
        ensures dur_ns(d) <= max_dur_ns() ==> r.is_some() && r.unwrap().t() == self.t() + dur_ns(d)
    { unimplemented!() }
}
pub trait AccessTime {
    spec fn sp_last_accessed(&self) -> Option<Instant>;
    spec fn sp_last_modified(&self) -> Option<Instant>;
    fn last_accessed(&self) -> (r: Option<Instant>) ensures r == self.sp_last_accessed();
    fn last_modified(&self) -> (r: Option<Instant>) ensures r == self.sp_last_modified();
}
}
pub mod code {
use vstd::prelude::*;
use std::time::Duration;
use super::env::*;

/// C05/C07 (sync): from the statement — hidden iff written strictly before the watermark or ttl elapsed
pub open spec fn sp_expired_wo(ttl: Option<Duration>, va: Option<Instant>, tm: Option<Instant>, now: Instant) -> bool {
    tm.is_some() && ((va.is_some() && tm.unwrap().t() < va.unwrap().t()) || (ttl.is_some() && tm.unwrap().t() + dur_ns(ttl.unwrap()) <= now.t()))
}

#[inline]
fn is_expired_entry_wo(
    time_to_live: &Option<Duration>,
    valid_after: &Option<Instant>,
    entry: &impl AccessTime,
    now: Instant,
) -> (r: bool)
    requires time_to_live.is_some() ==> dur_ns(time_to_live.unwrap()) <= max_dur_ns(),
    ensures r == sp_expired_wo(*time_to_live, *valid_after, entry.sp_last_modified(), now),
{
    if let Some(ts) = entry.last_modified() {
        if let Some(va) = valid_after {
            if ts < *va {
                return true;
            }
        }
        if let Some(ttl) = time_to_live {
            let checked_add = ts.checked_add(*ttl);
            if checked_add.is_none() {
                panic!("ttl overflow");
            }
            return checked_add.unwrap() <= now;
        }
    }
    false
}
}
}
fn main() {}
