#![feature(sized_hierarchy)]
#![feature(allocator_api)]
use vstd::prelude::*;
verus! {
// =====================================================================
// ENV: assumed contracts (trusted) for the dependencies of unsync/cache.rs
// =====================================================================
pub mod env {
use vstd::prelude::*;
use std::time::Duration;
use std::rc::Rc;
use std::borrow::Borrow;
use std::hash::{BuildHasher, Hash};
use std::ptr::NonNull;

pub type KeyId = int;
pub uninterp spec fn kid<Q: ?Sized>(q: &Q) -> KeyId;
pub open spec fn kid_rc<K>(k: Rc<K>) -> KeyId { kid::<K>(&*k) }
pub broadcast axiom fn axiom_kid_rc<K>(k: Rc<K>)
    ensures #[trigger] kid::<Rc<K>>(&k) == kid::<K>(&*k);

// ---- time ----
#[derive(Clone, Copy)]
#[verifier::external_body]
pub struct Instant { x: u64 }
impl Instant { pub uninterp spec fn t(&self) -> int; }
pub uninterp spec fn dur_ns(d: Duration) -> int;
pub open spec fn max_dur_ns() -> int { 1000int * 365 * 24 * 3600 * 1_000_000_000 }
pub broadcast axiom fn axiom_dur_nonneg(d: Duration) ensures #[trigger] dur_ns(d) >= 0;
impl PartialEq for Instant {
    #[verifier::external_body]
    fn eq(&self, o: &Instant) -> (r: bool) ensures r == (self.t() == o.t()) { unimplemented!() }
}
impl PartialOrd for Instant {
    #[verifier::external_body]
    fn partial_cmp(&self, o: &Instant) -> (r: Option<std::cmp::Ordering>) { unimplemented!() }
    #[verifier::external_body]
    fn le(&self, o: &Instant) -> (r: bool) ensures r == (self.t() <= o.t()) { unimplemented!() }
}
impl Instant {
    #[verifier::external_body]
    pub fn checked_add(&self, d: Duration) -> (r: Option<Instant>)
        ensures dur_ns(d) <= max_dur_ns() ==> r.is_some() && r.unwrap().t() == self.t() + dur_ns(d)
    { unimplemented!() }
}

pub trait AccessTime {
    spec fn sp_last_accessed(&self) -> Option<Instant>;
    spec fn sp_last_modified(&self) -> Option<Instant>;
    fn last_accessed(&self) -> (r: Option<Instant>) ensures r == self.sp_last_accessed();
    fn last_modified(&self) -> (r: Option<Instant>) ensures r == self.sp_last_modified();
}

pub struct N { pub id: int, pub key: KeyId, pub hash: u64 }

#[verifier::external_body]
#[verifier::reject_recursive_types(K)]
pub struct EntryInfo<K> { k: std::marker::PhantomData<K> }

#[verifier::reject_recursive_types(K)]
pub struct ValueEntry<K, V> { pub value: V, pub info: EntryInfo<K> }

impl<K, V> ValueEntry<K, V> {
    pub uninterp spec fn ao(&self) -> Option<int>;
    pub uninterp spec fn wo(&self) -> Option<int>;
    pub uninterp spec fn w(&self) -> u32;
    pub uninterp spec fn ta(&self) -> Option<Instant>;
    pub uninterp spec fn tm(&self) -> Option<Instant>;
    /// everything except the value is the same
    pub open spec fn same_info(&self, o: &Self) -> bool {
        self.ao() == o.ao() && self.wo() == o.wo() && self.w() == o.w() && self.ta() == o.ta() && self.tm() == o.tm()
    }

    #[verifier::external_body]
    pub fn new(value: V, policy_weight: u32) -> (r: Self)
        ensures r.value == value, r.w() == policy_weight, r.ao().is_none(), r.wo().is_none()
    { unimplemented!() }
    #[verifier::external_body]
    pub fn policy_weight(&self) -> (r: u32) ensures r == self.w() { unimplemented!() }
    #[verifier::external_body]
    pub fn set_policy_weight(&mut self, policy_weight: u32)
        ensures final(self).w() == policy_weight, final(self).value == old(self).value, final(self).ao() == old(self).ao(),
            final(self).wo() == old(self).wo(), final(self).ta() == old(self).ta(), final(self).tm() == old(self).tm()
    { unimplemented!() }
    #[verifier::external_body]
    pub fn replace_deq_nodes_with(&mut self, other: Self)
        ensures final(self).ao() == other.ao(), final(self).wo() == other.wo(), final(self).ta() == other.ta(), final(self).tm() == other.tm(),
            final(self).w() == old(self).w(), final(self).value == old(self).value
    { unimplemented!() }
    #[verifier::external_body]
    pub fn set_last_accessed(&mut self, timestamp: Instant)
        ensures final(self).ta() == (if old(self).ao().is_some() { Some(timestamp) } else { old(self).ta() }),
            final(self).value == old(self).value, final(self).ao() == old(self).ao(), final(self).wo() == old(self).wo(),
            final(self).w() == old(self).w(), final(self).tm() == old(self).tm()
    { unimplemented!() }
    #[verifier::external_body]
    pub fn set_last_modified(&mut self, timestamp: Instant)
        ensures final(self).tm() == (if old(self).wo().is_some() { Some(timestamp) } else { old(self).tm() }),
            final(self).value == old(self).value, final(self).ao() == old(self).ao(), final(self).wo() == old(self).wo(),
            final(self).w() == old(self).w(), final(self).ta() == old(self).ta()
    { unimplemented!() }
}
impl<K, V> AccessTime for ValueEntry<K, V> {
    open spec fn sp_last_accessed(&self) -> Option<Instant> { if self.ao().is_some() { self.ta() } else { None } }
    open spec fn sp_last_modified(&self) -> Option<Instant> { if self.wo().is_some() { self.tm() } else { None } }
    #[verifier::external_body]
    fn last_accessed(&self) -> (r: Option<Instant>) { unimplemented!() }
    #[verifier::external_body]
    fn last_modified(&self) -> (r: Option<Instant>) { unimplemented!() }
}

pub struct KeyDate<K> { pub key: Rc<K>, pub timestamp: Option<Instant> }
impl<K> KeyDate<K> {
    pub fn new(key: Rc<K>, timestamp: Option<Instant>) -> (r: Self) ensures r.key == key, r.timestamp == timestamp { Self { key, timestamp } }
}
pub struct KeyHashDate<K> { pub key: Rc<K>, pub hash: u64, pub timestamp: Option<Instant> }
impl<K> KeyHashDate<K> {
    pub fn new(key: Rc<K>, hash: u64, timestamp: Option<Instant>) -> (r: Self) ensures r.key == key, r.hash == hash, r.timestamp == timestamp { Self { key, hash, timestamp } }
}
#[verifier::reject_recursive_types(T)]
pub struct DeqNode<T> { pub element: T }
/// a list node's own timestamp is read through a raw pointer: UNCONSTRAINED in this model
impl<K> AccessTime for DeqNode<KeyHashDate<K>> {
    uninterp spec fn sp_last_accessed(&self) -> Option<Instant>;
    open spec fn sp_last_modified(&self) -> Option<Instant> { None }
    #[verifier::external_body]
    fn last_accessed(&self) -> (r: Option<Instant>) { unimplemented!() }
    #[verifier::external_body]
    fn last_modified(&self) -> (r: Option<Instant>) { unimplemented!() }
}
impl<K> AccessTime for DeqNode<KeyDate<K>> {
    open spec fn sp_last_accessed(&self) -> Option<Instant> { None }
    uninterp spec fn sp_last_modified(&self) -> Option<Instant>;
    #[verifier::external_body]
    fn last_accessed(&self) -> (r: Option<Instant>) { unimplemented!() }
    #[verifier::external_body]
    fn last_modified(&self) -> (r: Option<Instant>) { unimplemented!() }
}

#[verifier::external_body]
#[verifier::reject_recursive_types(T)]
pub struct Deque<T> { k: std::marker::PhantomData<T> }
impl<T> Deque<T> { pub uninterp spec fn view(&self) -> Seq<N>; }

pub open spec fn has_id(s: Seq<N>, id: int) -> bool { exists|i: int| 0 <= i < s.len() && (#[trigger] s[i]).id == id }
pub open spec fn index_of_id(s: Seq<N>, id: int) -> int { choose|i: int| 0 <= i < s.len() && (#[trigger] s[i]).id == id }
pub open spec fn moved_to_back(s: Seq<N>, i: int) -> Seq<N> { s.remove(i).push(s[i]) }

impl<K> Deque<KeyHashDate<K>> {
    #[verifier::external_body]
    pub fn peek_front(&self) -> (r: Option<&DeqNode<KeyHashDate<K>>>)
        ensures match r {
            Some(n) => self@.len() > 0 && kid_rc(n.element.key) == self@[0].key && n.element.hash == self@[0].hash,
            None => self@.len() == 0,
        }
    { unimplemented!() }
    #[verifier::external_body]
    pub fn pop_front(&mut self) -> (r: Option<Box<DeqNode<KeyHashDate<K>>>>)
        ensures old(self)@.len() > 0 ==> final(self)@ == old(self)@.skip(1),
                old(self)@.len() == 0 ==> final(self)@ == old(self)@ && r.is_none(),
    { unimplemented!() }
}
impl<K> Deque<KeyDate<K>> {
    #[verifier::external_body]
    pub fn peek_front(&self) -> (r: Option<&DeqNode<KeyDate<K>>>)
        ensures match r {
            Some(n) => self@.len() > 0 && kid_rc(n.element.key) == self@[0].key,
            None => self@.len() == 0,
        }
    { unimplemented!() }
    #[verifier::external_body]
    pub fn pop_front(&mut self) -> (r: Option<Box<DeqNode<KeyDate<K>>>>)
        ensures old(self)@.len() > 0 ==> final(self)@ == old(self)@.skip(1),
                old(self)@.len() == 0 ==> final(self)@ == old(self)@ && r.is_none(),
    { unimplemented!() }
}

#[derive(Clone, Copy)]
pub enum CacheRegion { Window = 0, MainProbation = 1, MainProtected = 2, Other = 3 }

#[verifier::reject_recursive_types(K)]
pub struct Deques<K> {
    pub window: Deque<KeyHashDate<K>>,
    pub probation: Deque<KeyHashDate<K>>,
    pub protected: Deque<KeyHashDate<K>>,
    pub write_order: Deque<KeyDate<K>>,
}

impl<K> Deques<K> {
    pub open spec fn others_same(&self, o: &Self) -> bool { self.window@ == o.window@ && self.protected@ == o.protected@ }

    #[verifier::external_body]
    pub fn clear(&mut self)
        ensures final(self).window@.len() == 0, final(self).probation@.len() == 0, final(self).protected@.len() == 0, final(self).write_order@.len() == 0
    { unimplemented!() }

    #[verifier::external_body]
    pub fn push_back_ao<V>(&mut self, region: CacheRegion, kh: KeyHashDate<K>, entry: &mut ValueEntry<K, V>)
        requires region is MainProbation,
        ensures
            final(self).others_same(old(self)), final(self).write_order@ == old(self).write_order@,
            final(entry).ao().is_some(), !has_id(old(self).probation@, final(entry).ao().unwrap()),
            final(self).probation@ == old(self).probation@.push(N { id: final(entry).ao().unwrap(), key: kid_rc(kh.key), hash: kh.hash }),
            final(entry).ta() == kh.timestamp,
            final(entry).value == old(entry).value, final(entry).wo() == old(entry).wo(), final(entry).w() == old(entry).w(), final(entry).tm() == old(entry).tm(),
    { unimplemented!() }

    #[verifier::external_body]
    pub fn push_back_wo<V>(&mut self, kh: KeyDate<K>, entry: &mut ValueEntry<K, V>)
        ensures
            final(self).others_same(old(self)), final(self).probation@ == old(self).probation@,
            final(entry).wo().is_some(), !has_id(old(self).write_order@, final(entry).wo().unwrap()),
            final(self).write_order@ == old(self).write_order@.push(N { id: final(entry).wo().unwrap(), key: kid_rc(kh.key), hash: 0 }),
            final(entry).tm() == kh.timestamp,
            final(entry).value == old(entry).value, final(entry).ao() == old(entry).ao(), final(entry).w() == old(entry).w(), final(entry).ta() == old(entry).ta(),
    { unimplemented!() }

    /// panics (`unreachable!`) unless the entry's node is a member of the probation list
    #[verifier::external_body]
    pub fn move_to_back_ao<V>(&mut self, entry: &ValueEntry<K, V>)
        requires entry.ao().is_some() ==> has_id(old(self).probation@, entry.ao().unwrap()),
        ensures
            final(self).others_same(old(self)), final(self).write_order@ == old(self).write_order@,
            entry.ao().is_none() ==> final(self).probation@ == old(self).probation@,
            entry.ao().is_some() ==> final(self).probation@ == moved_to_back(old(self).probation@, index_of_id(old(self).probation@, entry.ao().unwrap())),
    { unimplemented!() }

    /// `entry.write_order_q_node().unwrap()`: panics if the entry has no write-order node
    #[verifier::external_body]
    pub fn move_to_back_wo<V>(&mut self, entry: &ValueEntry<K, V>)
        requires entry.wo().is_some(),
        ensures
            final(self).others_same(old(self)), final(self).probation@ == old(self).probation@,
            !has_id(old(self).write_order@, entry.wo().unwrap()) ==> final(self).write_order@ == old(self).write_order@,
            has_id(old(self).write_order@, entry.wo().unwrap()) ==> final(self).write_order@ == moved_to_back(old(self).write_order@, index_of_id(old(self).write_order@, entry.wo().unwrap())),
    { unimplemented!() }

    #[verifier::external_body]
    pub fn unlink_ao<V>(&mut self, entry: &mut ValueEntry<K, V>)
        requires old(entry).ao().is_some() ==> has_id(old(self).probation@, old(entry).ao().unwrap()),
        ensures
            final(self).others_same(old(self)), final(self).write_order@ == old(self).write_order@,
            final(entry).ao().is_none(), final(entry).wo() == old(entry).wo(), final(entry).w() == old(entry).w(),
            final(entry).value == old(entry).value, final(entry).tm() == old(entry).tm(),
            old(entry).ao().is_none() ==> final(self).probation@ == old(self).probation@,
            old(entry).ao().is_some() ==> final(self).probation@ == old(self).probation@.remove(index_of_id(old(self).probation@, old(entry).ao().unwrap())),
    { unimplemented!() }

    #[verifier::external_body]
    pub fn unlink_ao_from_deque<V>(deq_name: &str, deq: &mut Deque<KeyHashDate<K>>, entry: &mut ValueEntry<K, V>)
        requires old(entry).ao().is_some() ==> has_id(old(deq)@, old(entry).ao().unwrap()),
        ensures
            final(entry).ao().is_none(), final(entry).wo() == old(entry).wo(), final(entry).w() == old(entry).w(),
            final(entry).value == old(entry).value, final(entry).tm() == old(entry).tm(),
            old(entry).ao().is_none() ==> final(deq)@ == old(deq)@,
            old(entry).ao().is_some() ==> final(deq)@ == old(deq)@.remove(index_of_id(old(deq)@, old(entry).ao().unwrap())),
    { unimplemented!() }

    #[verifier::external_body]
    pub fn unlink_wo<V>(deq: &mut Deque<KeyDate<K>>, entry: &mut ValueEntry<K, V>)
        requires old(entry).wo().is_some() ==> has_id(old(deq)@, old(entry).wo().unwrap()),
        ensures
            final(entry).wo().is_none(), final(entry).ao() == old(entry).ao(), final(entry).w() == old(entry).w(),
            final(entry).value == old(entry).value, final(entry).ta() == old(entry).ta(),
            old(entry).wo().is_none() ==> final(deq)@ == old(deq)@,
            old(entry).wo().is_some() ==> final(deq)@ == old(deq)@.remove(index_of_id(old(deq)@, old(entry).wo().unwrap())),
    { unimplemented!() }
}

#[verifier::external_body]
#[verifier::reject_recursive_types(K)]
#[verifier::reject_recursive_types(V)]
#[verifier::reject_recursive_types(S)]
pub struct CacheStore<K, V, S> { k: std::marker::PhantomData<(K,V,S)> }
impl<K, V, S> CacheStore<K, V, S> {
    pub uninterp spec fn view(&self) -> Map<KeyId, ValueEntry<K, V>>;

    #[verifier::external_body]
    pub fn get<Q>(&self, key: &Q) -> (r: Option<&ValueEntry<K, V>>)
    where Rc<K>: Borrow<Q>, Q: Hash + Eq + ?Sized
        ensures match r { Some(e) => self@.contains_key(kid(key)) && *e == self@[kid(key)], None => !self@.contains_key(kid(key)) }
    { unimplemented!() }
    #[verifier::external_body]
    pub fn get_mut<Q>(&mut self, key: &Q) -> (r: Option<&mut ValueEntry<K, V>>)
    where Rc<K>: Borrow<Q>, Q: Hash + Eq + ?Sized
        ensures match r {
            Some(e) => old(self)@.contains_key(kid(key)) && *e == old(self)@[kid(key)] && final(self)@ == old(self)@.insert(kid(key), *final(e)),
            None => !old(self)@.contains_key(kid(key)) && final(self)@ == old(self)@,
        }
    { unimplemented!() }
    #[verifier::external_body]
    pub fn insert(&mut self, key: Rc<K>, v: ValueEntry<K, V>) -> (r: Option<ValueEntry<K, V>>)
        ensures final(self)@ == old(self)@.insert(kid_rc(key), v),
            match r { Some(e) => old(self)@.contains_key(kid_rc(key)) && e == old(self)@[kid_rc(key)], None => !old(self)@.contains_key(kid_rc(key)) },
    { unimplemented!() }
    #[verifier::external_body]
    pub fn remove<Q>(&mut self, key: &Q) -> (r: Option<ValueEntry<K, V>>)
    where Rc<K>: Borrow<Q>, Q: Hash + Eq + ?Sized
        ensures final(self)@ == old(self)@.remove(kid(key)),
            match r { Some(e) => old(self)@.contains_key(kid(key)) && e == old(self)@[kid(key)], None => !old(self)@.contains_key(kid(key)) },
    { unimplemented!() }
    #[verifier::external_body]
    pub fn clear(&mut self) ensures final(self)@ == Map::<KeyId, ValueEntry<K, V>>::empty() { unimplemented!() }
}

pub uninterp spec fn hspec<S>(s: S, k: KeyId) -> u64;

#[verifier::external_body]
pub struct FrequencySketch { x: u64 }
impl FrequencySketch {
    pub uninterp spec fn freq(&self, hash: u64) -> u8;
    pub uninterp spec fn incremented(&self, hash: u64) -> FrequencySketch;
    #[verifier::external_body]
    pub fn frequency(&self, hash: u64) -> (r: u8) ensures r == self.freq(hash), r <= 15 { unimplemented!() }
    #[verifier::external_body]
    pub fn increment(&mut self, hash: u64) ensures *final(self) == old(self).incremented(hash) { unimplemented!() }
}
} // mod env
// =====================================================================
// SPEC: representation invariant, views, lemmas
// =====================================================================
pub mod cspec {
use vstd::prelude::*;
use super::env::*;

pub open spec fn wsum<K, V>(s: Seq<N>, m: Map<KeyId, ValueEntry<K, V>>) -> int
    decreases s.len()
{ if s.len() == 0 { 0 } else { wsum(s.drop_last(), m) + m[s.last().key].w() as int } }

/// structural part of the invariant: list nodes <-> map entries, one to one
pub open spec fn core_wf<K, V>(m: Map<KeyId, ValueEntry<K, V>>, p: Seq<N>, wo: Seq<N>, ttl: bool) -> bool {
    &&& forall|i: int, j: int| 0 <= i < j < p.len() ==> (#[trigger] p[i]).id != (#[trigger] p[j]).id && p[i].key != p[j].key
    &&& forall|i: int| 0 <= i < p.len() ==> m.contains_key((#[trigger] p[i]).key) && m[p[i].key].ao() == Some(p[i].id)
    &&& forall|k: KeyId| #[trigger] m.contains_key(k) ==> exists|i: int| 0 <= i < p.len() && (#[trigger] p[i]).key == k
    &&& forall|i: int, j: int| 0 <= i < j < wo.len() ==> (#[trigger] wo[i]).id != (#[trigger] wo[j]).id && wo[i].key != wo[j].key
    &&& forall|i: int| 0 <= i < wo.len() ==> m.contains_key((#[trigger] wo[i]).key) && m[wo[i].key].wo() == Some(wo[i].id)
    &&& forall|k: KeyId| #[trigger] m.contains_key(k) ==> (m[k].wo().is_some() <==> ttl)
    &&& forall|k: KeyId| #[trigger] m.contains_key(k) && ttl ==> exists|i: int| 0 <= i < wo.len() && (#[trigger] wo[i]).key == k
}

/// timestamps exist whenever the corresponding policy is on (otherwise the entry would never expire)
pub open spec fn ts_wf<K, V>(m: Map<KeyId, ValueEntry<K, V>>, has_expiry: bool, ttl: bool) -> bool {
    forall|k: KeyId| #[trigger] m.contains_key(k) ==> (has_expiry ==> m[k].ta().is_some()) && (ttl ==> m[k].tm().is_some())
}

pub proof fn lemma_wsum_unrelated<K, V>(s: Seq<N>, m: Map<KeyId, ValueEntry<K, V>>, k: KeyId)
    requires forall|i: int| 0 <= i < s.len() ==> (#[trigger] s[i]).key != k
    ensures wsum(s, m.remove(k)) == wsum(s, m)
    decreases s.len()
{
    if s.len() > 0 { lemma_wsum_unrelated(s.drop_last(), m, k); assert(s.last() == s[s.len() - 1]); }
}

/// changing the entry of a key that does not occur in `s` does not change the sum
pub proof fn lemma_wsum_insert_unrelated<K, V>(s: Seq<N>, m: Map<KeyId, ValueEntry<K, V>>, k: KeyId, e: ValueEntry<K, V>)
    requires forall|i: int| 0 <= i < s.len() ==> (#[trigger] s[i]).key != k
    ensures wsum(s, m.insert(k, e)) == wsum(s, m)
    decreases s.len()
{
    if s.len() > 0 { lemma_wsum_insert_unrelated(s.drop_last(), m, k, e); assert(s.last() == s[s.len() - 1]); }
}

pub proof fn lemma_wsum_front<K, V>(s: Seq<N>, m: Map<KeyId, ValueEntry<K, V>>)
    requires s.len() > 0
    ensures wsum(s, m) == m[s[0].key].w() as int + wsum(s.skip(1), m)
    decreases s.len()
{
    if s.len() == 1 {
        assert(s.drop_last().len() == 0); assert(s.skip(1).len() == 0);
        assert(wsum(s.drop_last(), m) == 0); assert(wsum(s.skip(1), m) == 0); assert(s.last() == s[0]);
    } else {
        lemma_wsum_front(s.drop_last(), m);
        assert(s.drop_last().skip(1) =~= s.skip(1).drop_last());
        assert(s.skip(1).last() == s.last()); assert(s.drop_last()[0] == s[0]); assert(s.skip(1).len() > 0);
    }
}

pub proof fn lemma_wsum_nonneg<K, V>(s: Seq<N>, m: Map<KeyId, ValueEntry<K, V>>)
    ensures wsum(s, m) >= 0
    decreases s.len()
{ if s.len() > 0 { lemma_wsum_nonneg(s.drop_last(), m); } }

/// wsum of a concatenation
pub proof fn lemma_wsum_add<K, V>(a: Seq<N>, b: Seq<N>, m: Map<KeyId, ValueEntry<K, V>>)
    ensures wsum(a + b, m) == wsum(a, m) + wsum(b, m)
    decreases b.len()
{
    if b.len() == 0 { assert(a + b =~= a); }
    else {
        lemma_wsum_add(a, b.drop_last(), m);
        assert((a + b).drop_last() =~= a + b.drop_last());
        assert((a + b).last() == b.last());
    }
}

/// removing element i takes its weight out of the sum
pub proof fn lemma_wsum_remove<K, V>(s: Seq<N>, m: Map<KeyId, ValueEntry<K, V>>, i: int)
    requires 0 <= i < s.len()
    ensures wsum(s.remove(i), m) == wsum(s, m) - m[s[i].key].w()
{
    let a = s.take(i); let b = s.skip(i + 1); let one = seq![s[i]];
    assert(s =~= a + one + b);
    assert(s.remove(i) =~= a + b);
    lemma_wsum_add(a, b, m);
    lemma_wsum_add(a + one, b, m);
    lemma_wsum_add(a, one, m);
    assert(one.drop_last().len() == 0);
    assert(wsum(one.drop_last(), m) == 0);
    assert(wsum(one, m) == m[s[i].key].w() as int) by { assert(one.last() == s[i]); }
}

pub proof fn lemma_wsum_push<K, V>(s: Seq<N>, m: Map<KeyId, ValueEntry<K, V>>, n: N)
    ensures wsum(s.push(n), m) == wsum(s, m) + m[n.key].w()
{
    assert(s.push(n).drop_last() =~= s); assert(s.push(n).last() == n);
}

/// position of a node id in a list with pairwise distinct ids
pub proof fn lemma_index_of_id(s: Seq<N>, i: int)
    requires 0 <= i < s.len(), forall|a: int, b: int| 0 <= a < b < s.len() ==> (#[trigger] s[a]).id != (#[trigger] s[b]).id
    ensures has_id(s, s[i].id), index_of_id(s, s[i].id) == i
{
    let j = index_of_id(s, s[i].id);
    assert(0 <= j < s.len() && s[j].id == s[i].id);
    if j < i { assert(s[j].id != s[i].id); } else if i < j { assert(s[i].id != s[j].id); }
}

/// the list position of key k
pub open spec fn pos_of_key(s: Seq<N>, k: KeyId) -> int { choose|i: int| 0 <= i < s.len() && (#[trigger] s[i]).key == k }

/// removing the entry of key k (at list position i, write-order position found through its node id)
/// keeps the structure and gives back exactly its weight
pub proof fn lemma_remove_at<K, V>(m: Map<KeyId, ValueEntry<K, V>>, p: Seq<N>, wo: Seq<N>, ttl: bool, i: int)
    requires core_wf(m, p, wo, ttl), 0 <= i < p.len()
    ensures
        m.contains_key(p[i].key),
        m[p[i].key].ao() == Some(p[i].id),
        has_id(p, p[i].id), index_of_id(p, p[i].id) == i,
        ttl ==> m[p[i].key].wo().is_some() && has_id(wo, m[p[i].key].wo().unwrap()),
        !ttl ==> m[p[i].key].wo().is_none(),
        core_wf(m.remove(p[i].key), p.remove(i), if ttl { wo.remove(index_of_id(wo, m[p[i].key].wo().unwrap())) } else { wo }, ttl),
        wsum(p.remove(i), m.remove(p[i].key)) == wsum(p, m) - m[p[i].key].w(),
{
    let k = p[i].key;
    let e = m[k];
    lemma_index_of_id(p, i);
    lemma_wsum_remove(p, m, i);
    let p2 = p.remove(i);
    let m2 = m.remove(k);
    assert forall|a: int| 0 <= a < p2.len() implies (#[trigger] p2[a]).key != k && m2.contains_key(p2[a].key) && m2[p2[a].key].ao() == Some(p2[a].id) by {
        let a1 = if a < i { a } else { a + 1 };
        assert(p2[a] == p[a1]);
        if a1 < i { assert(p[a1].key != p[i].key); } else { assert(p[i].key != p[a1].key); }
    }
    lemma_wsum_unrelated(p2, m, k);
    assert forall|a: int, b: int| 0 <= a < b < p2.len() implies (#[trigger] p2[a]).id != (#[trigger] p2[b]).id && p2[a].key != p2[b].key by {
        let a1 = if a < i { a } else { a + 1 }; let b1 = if b < i { b } else { b + 1 };
        assert(p2[a] == p[a1]); assert(p2[b] == p[b1]);
    }
    assert forall|kk: KeyId| #[trigger] m2.contains_key(kk) implies exists|a: int| 0 <= a < p2.len() && (#[trigger] p2[a]).key == kk by {
        assert(m.contains_key(kk));
        let a = choose|a: int| 0 <= a < p.len() && (#[trigger] p[a]).key == kk;
        assert(a != i);
        if a < i { assert(p2[a] == p[a]); } else { assert(p2[a - 1] == p[a]); }
    }
    if ttl {
        assert(m.contains_key(k));
        let j = choose|j: int| 0 <= j < wo.len() && (#[trigger] wo[j]).key == k;
        assert(m[wo[j].key].wo() == Some(wo[j].id));
        let wid = e.wo().unwrap();
        assert(wo[j].id == wid);
        lemma_index_of_id(wo, j);
        let wo2 = wo.remove(j);
        assert forall|a: int| 0 <= a < wo2.len() implies m2.contains_key((#[trigger] wo2[a]).key) && m2[wo2[a].key].wo() == Some(wo2[a].id) by {
            if a < j { assert(wo2[a] == wo[a]); assert(wo[a].key != wo[j].key); } else { assert(wo2[a] == wo[a + 1]); assert(wo[j].key != wo[a + 1].key); }
        }
        assert forall|a: int, b: int| 0 <= a < b < wo2.len() implies (#[trigger] wo2[a]).id != (#[trigger] wo2[b]).id && wo2[a].key != wo2[b].key by {
            let a1 = if a < j { a } else { a + 1 }; let b1 = if b < j { b } else { b + 1 };
            assert(wo2[a] == wo[a1]); assert(wo2[b] == wo[b1]);
        }
        assert forall|kk: KeyId| #[trigger] m2.contains_key(kk) && ttl implies exists|a: int| 0 <= a < wo2.len() && (#[trigger] wo2[a]).key == kk by {
            assert(m.contains_key(kk));
            let a = choose|a: int| 0 <= a < wo.len() && (#[trigger] wo[a]).key == kk;
            assert(a != j);
            if a < j { assert(wo2[a] == wo[a]); } else { assert(wo2[a - 1] == wo[a]); }
        }
    } else {
        assert forall|a: int| 0 <= a < wo.len() implies m2.contains_key((#[trigger] wo[a]).key) && m2[wo[a].key].wo() == Some(wo[a].id) by {
            assert(m.contains_key(wo[a].key)); assert(m[wo[a].key].wo().is_some());
        }
    }
}

/// a key of the map sits at exactly one list position
pub proof fn lemma_pos_of_key<K, V>(m: Map<KeyId, ValueEntry<K, V>>, p: Seq<N>, wo: Seq<N>, ttl: bool, k: KeyId)
    requires core_wf(m, p, wo, ttl), m.contains_key(k)
    ensures 0 <= pos_of_key(p, k) < p.len(), p[pos_of_key(p, k)].key == k, m[k].ao() == Some(p[pos_of_key(p, k)].id),
        ttl ==> 0 <= pos_of_key(wo, k) < wo.len() && wo[pos_of_key(wo, k)].key == k && m[k].wo() == Some(wo[pos_of_key(wo, k)].id),
{
    let i = choose|i: int| 0 <= i < p.len() && (#[trigger] p[i]).key == k;
    if ttl { let j = choose|j: int| 0 <= j < wo.len() && (#[trigger] wo[j]).key == k; }
}

/// wsum is invariant under replacing an entry by one of the same weight
pub proof fn lemma_wsum_same_weight<K, V>(s: Seq<N>, m: Map<KeyId, ValueEntry<K, V>>, k: KeyId, e: ValueEntry<K, V>)
    requires m.contains_key(k), e.w() == m[k].w()
    ensures wsum(s, m.insert(k, e)) == wsum(s, m)
    decreases s.len()
{
    if s.len() > 0 { lemma_wsum_same_weight(s.drop_last(), m, k, e); }
}

/// moving element i to the back is a permutation: same sum
pub proof fn lemma_wsum_moved<K, V>(s: Seq<N>, m: Map<KeyId, ValueEntry<K, V>>, i: int)
    requires 0 <= i < s.len()
    ensures wsum(moved_to_back(s, i), m) == wsum(s, m)
{
    lemma_wsum_remove(s, m, i);
    lemma_wsum_push(s.remove(i), m, s[i]);
}

/// structure is preserved by moving nodes to the back
pub proof fn lemma_moved_core<K, V>(m: Map<KeyId, ValueEntry<K, V>>, p: Seq<N>, wo: Seq<N>, ttl: bool, i: int)
    requires core_wf(m, p, wo, ttl), 0 <= i < p.len()
    ensures core_wf(m, moved_to_back(p, i), wo, ttl)
{
    let p2 = moved_to_back(p, i);
    let src = |a: int| if a == p2.len() - 1 { i } else if a < i { a } else { a + 1 };
    assert forall|a: int| 0 <= a < p2.len() implies p2[a] == p[src(a)] by {}
    assert forall|a: int, b: int| 0 <= a < b < p2.len() implies (#[trigger] p2[a]).id != (#[trigger] p2[b]).id && p2[a].key != p2[b].key by {
        let a1 = src(a); let b1 = src(b);
        assert(p2[a] == p[a1]); assert(p2[b] == p[b1]); assert(a1 != b1);
        if a1 < b1 { assert(p[a1].id != p[b1].id); } else { assert(p[b1].id != p[a1].id); }
    }
    assert forall|a: int| 0 <= a < p2.len() implies m.contains_key((#[trigger] p2[a]).key) && m[p2[a].key].ao() == Some(p2[a].id) by {
        assert(p2[a] == p[src(a)]);
    }
    assert forall|k: KeyId| #[trigger] m.contains_key(k) implies exists|a: int| 0 <= a < p2.len() && (#[trigger] p2[a]).key == k by {
        let b = choose|b: int| 0 <= b < p.len() && (#[trigger] p[b]).key == k;
        let a = if b == i { p2.len() - 1 } else if b < i { b } else { b - 1 };
        assert(p2[a] == p[b]);
    }
}
pub proof fn lemma_moved_core_wo<K, V>(m: Map<KeyId, ValueEntry<K, V>>, p: Seq<N>, wo: Seq<N>, ttl: bool, i: int)
    requires core_wf(m, p, wo, ttl), 0 <= i < wo.len()
    ensures core_wf(m, p, moved_to_back(wo, i), ttl)
{
    let w2 = moved_to_back(wo, i);
    let src = |a: int| if a == w2.len() - 1 { i } else if a < i { a } else { a + 1 };
    assert forall|a: int| 0 <= a < w2.len() implies w2[a] == wo[src(a)] by {}
    assert forall|a: int, b: int| 0 <= a < b < w2.len() implies (#[trigger] w2[a]).id != (#[trigger] w2[b]).id && w2[a].key != w2[b].key by {
        let a1 = src(a); let b1 = src(b);
        assert(w2[a] == wo[a1]); assert(w2[b] == wo[b1]); assert(a1 != b1);
        if a1 < b1 { assert(wo[a1].id != wo[b1].id); } else { assert(wo[b1].id != wo[a1].id); }
    }
    assert forall|a: int| 0 <= a < w2.len() implies m.contains_key((#[trigger] w2[a]).key) && m[w2[a].key].wo() == Some(w2[a].id) by {
        assert(w2[a] == wo[src(a)]);
    }
    assert forall|k: KeyId| #[trigger] m.contains_key(k) && ttl implies exists|a: int| 0 <= a < w2.len() && (#[trigger] w2[a]).key == k by {
        let b = choose|b: int| 0 <= b < wo.len() && (#[trigger] wo[b]).key == k;
        let a = if b == i { w2.len() - 1 } else if b < i { b } else { b - 1 };
        assert(w2[a] == wo[b]);
    }
}

/// replacing the entry of k by one with the same node pointers keeps the structure
pub proof fn lemma_same_nodes_core<K, V>(m: Map<KeyId, ValueEntry<K, V>>, p: Seq<N>, wo: Seq<N>, ttl: bool, k: KeyId, e: ValueEntry<K, V>)
    requires core_wf(m, p, wo, ttl), m.contains_key(k), e.ao() == m[k].ao(), e.wo() == m[k].wo()
    ensures core_wf(m.insert(k, e), p, wo, ttl)
{
    let m2 = m.insert(k, e);
    assert forall|kk: KeyId| #[trigger] m2.contains_key(kk) implies exists|a: int| 0 <= a < p.len() && (#[trigger] p[a]).key == kk by { assert(m.contains_key(kk)); }
    assert forall|kk: KeyId| #[trigger] m2.contains_key(kk) && ttl implies exists|a: int| 0 <= a < wo.len() && (#[trigger] wo[a]).key == kk by { assert(m.contains_key(kk)); }
    assert forall|kk: KeyId| #[trigger] m2.contains_key(kk) implies (m2[kk].wo().is_some() <==> ttl) by { assert(m.contains_key(kk)); }
}

pub proof fn lemma_wsum_bound<K, V>(s: Seq<N>, m: Map<KeyId, ValueEntry<K, V>>)
    ensures wsum(s, m) <= s.len() * 0xFFFF_FFFF
    decreases s.len()
{ if s.len() > 0 { lemma_wsum_bound(s.drop_last(), m); } }

/// changing the weight of the entry at list position i changes the sum by the difference
pub proof fn lemma_wsum_reweigh<K, V>(s: Seq<N>, m: Map<KeyId, ValueEntry<K, V>>, i: int, e: ValueEntry<K, V>)
    requires 0 <= i < s.len(), forall|a: int, b: int| 0 <= a < b < s.len() ==> (#[trigger] s[a]).key != (#[trigger] s[b]).key
    ensures wsum(s, m.insert(s[i].key, e)) == wsum(s, m) - m[s[i].key].w() + e.w()
{
    let k = s[i].key;
    let m2 = m.insert(k, e);
    lemma_wsum_remove(s, m, i);
    lemma_wsum_remove(s, m2, i);
    let r = s.remove(i);
    assert forall|a: int| 0 <= a < r.len() implies (#[trigger] r[a]).key != k by {
        let a1 = if a < i { a } else { a + 1 };
        assert(r[a] == s[a1]);
        if a1 < i { assert(s[a1].key != s[i].key); } else { assert(s[i].key != s[a1].key); }
    }
    lemma_wsum_insert_unrelated(r, m, k, e);
}
} // mod cspec
pub mod code {
use vstd::prelude::*;
use std::time::Duration;
use std::rc::Rc;
use std::borrow::Borrow;
use std::hash::{BuildHasher, Hash};
use super::env::*;
use super::cspec::*;
broadcast use {axiom_kid_rc, axiom_dur_nonneg};

#[verifier::reject_recursive_types(K)]
#[verifier::reject_recursive_types(V)]
#[verifier::reject_recursive_types(S)]
pub struct Cache<K, V, S> {
    pub max_capacity: Option<u64>,
    pub entry_count: u64,
    pub weighted_size: u64,
    pub cache: CacheStore<K, V, S>,
    pub build_hasher: S,
    pub deques: Deques<K>,
    pub frequency_sketch: FrequencySketch,
    pub frequency_sketch_enabled: bool,
    pub time_to_live: Option<Duration>,
    pub time_to_idle: Option<Duration>,
}

impl<K, V, S> Cache<K, V, S>
where
    K: Hash + Eq,
    S: BuildHasher + Clone,
{
    pub open spec fn sp_has_expiry(&self) -> bool { self.time_to_live.is_some() || self.time_to_idle.is_some() }
    pub open spec fn cfg_ok(&self) -> bool {
        &&& (self.time_to_live.is_some() ==> dur_ns(self.time_to_live.unwrap()) <= max_dur_ns())
        &&& (self.time_to_idle.is_some() ==> dur_ns(self.time_to_idle.unwrap()) <= max_dur_ns())
    }
    pub open spec fn same_cfg(&self, o: &Self) -> bool {
        self.max_capacity == o.max_capacity && self.time_to_live == o.time_to_live && self.time_to_idle == o.time_to_idle
            && self.build_hasher == o.build_hasher
    }
    pub open spec fn wf(&self) -> bool {
        &&& self.cfg_ok()
        &&& self.deques.window@.len() == 0 && self.deques.protected@.len() == 0
        &&& core_wf(self.cache@, self.deques.probation@, self.deques.write_order@, self.time_to_live.is_some())
        &&& ts_wf(self.cache@, self.sp_has_expiry(), self.time_to_live.is_some())
        &&& self.entry_count == self.deques.probation@.len()
        &&& self.weighted_size == wsum(self.deques.probation@, self.cache@)
    }
    pub open spec fn sp_expired(&self, e: &ValueEntry<K, V>, now: Instant) -> bool {
        ||| (self.time_to_live.is_some() && e.sp_last_modified().is_some() && e.sp_last_modified().unwrap().t() + dur_ns(self.time_to_live.unwrap()) <= now.t())
        ||| (self.time_to_idle.is_some() && e.sp_last_accessed().is_some() && e.sp_last_accessed().unwrap().t() + dur_ns(self.time_to_idle.unwrap()) <= now.t())
    }

    // ---------------- assumed (outside reach), contracts only ----------------
    /// housekeeping prefix: purges expired entries (closure capturing &mut: Kani glue harness), returns the clock reading
    #[verifier::external_body]
    fn evict_expired_if_needed(&mut self) -> (r: Option<Instant>)
        requires old(self).wf(),
        ensures final(self).wf(), final(self).same_cfg(old(self)), r.is_some() == old(self).sp_has_expiry(),
            final(self).frequency_sketch == old(self).frequency_sketch, final(self).frequency_sketch_enabled == old(self).frequency_sketch_enabled,
            // only removes entries; survivors are untouched
            forall|k: KeyId| #[trigger] final(self).cache@.contains_key(k) ==> old(self).cache@.contains_key(k) && final(self).cache@[k] == old(self).cache@[k],
    { unimplemented!() }
    #[verifier::external_body]
    fn evict_lru_entries(&mut self)
        requires old(self).wf(),
        ensures final(self).wf(), final(self).same_cfg(old(self)),
            final(self).frequency_sketch == old(self).frequency_sketch, final(self).frequency_sketch_enabled == old(self).frequency_sketch_enabled,
            forall|k: KeyId| #[trigger] final(self).cache@.contains_key(k) ==> old(self).cache@.contains_key(k) && final(self).cache@[k] == old(self).cache@[k],
    { unimplemented!() }
    pub open spec fn sp_hash<Q: ?Sized>(&self, key: &Q) -> u64 { hspec(self.build_hasher, kid(key)) }
    #[verifier::external_body]
    fn hash<Q>(&self, key: &Q) -> (r: u64)
    where
        Rc<K>: Borrow<Q>,
        Q: Hash + Eq + ?Sized,
        ensures r == self.sp_hash(key)
    { unimplemented!() }

    // ---------------- extracted real text ----------------
    #[inline]
    fn is_expired_entry_ao(
        time_to_idle: &Option<Duration>,
        entry: &impl AccessTime,
        now: Instant,
    ) -> (r: bool)
        requires time_to_idle.is_some() ==> dur_ns(time_to_idle.unwrap()) <= max_dur_ns(),
        ensures r == (time_to_idle.is_some() && entry.sp_last_accessed().is_some()
            && entry.sp_last_accessed().unwrap().t() + dur_ns(time_to_idle.unwrap()) <= now.t()),
    {
        if let (Some(ts), Some(tti)) = (entry.last_accessed(), time_to_idle) {
            let checked_add = ts.checked_add(*tti);
            if checked_add.is_none() {
                panic!("ttl overflow")
            }
            return checked_add.unwrap() <= now;
        }
        false
    }

    #[inline]
    fn is_expired_entry_wo(
        time_to_live: &Option<Duration>,
        entry: &impl AccessTime,
        now: Instant,
    ) -> (r: bool)
        requires time_to_live.is_some() ==> dur_ns(time_to_live.unwrap()) <= max_dur_ns(),
        ensures r == (time_to_live.is_some() && entry.sp_last_modified().is_some()
            && entry.sp_last_modified().unwrap().t() + dur_ns(time_to_live.unwrap()) <= now.t()),
    {
        if let (Some(ts), Some(ttl)) = (entry.last_modified(), time_to_live) {
            let checked_add = ts.checked_add(*ttl);
            if checked_add.is_none() {
                panic!("ttl overflow")
            }
            return checked_add.unwrap() <= now;
        }
        false
    }

    fn record_hit(deques: &mut Deques<K>, entry: &mut ValueEntry<K, V>, ts: Option<Instant>)
        requires old(entry).ao().is_some() ==> has_id(old(deques).probation@, old(entry).ao().unwrap()),
        ensures
            final(deques).others_same(old(deques)), final(deques).write_order@ == old(deques).write_order@,
            old(entry).ao().is_none() ==> final(deques).probation@ == old(deques).probation@,
            old(entry).ao().is_some() ==> final(deques).probation@ == moved_to_back(old(deques).probation@, index_of_id(old(deques).probation@, old(entry).ao().unwrap())),
            final(entry).value == old(entry).value, final(entry).ao() == old(entry).ao(), final(entry).wo() == old(entry).wo(),
            final(entry).w() == old(entry).w(), final(entry).tm() == old(entry).tm(),
            final(entry).ta() == (if ts.is_some() && old(entry).ao().is_some() { ts } else { old(entry).ta() }),
    {
        if let Some(ts) = ts {
            entry.set_last_accessed(ts);
        }
        deques.move_to_back_ao(entry)
    }

    pub fn contains_key<Q>(&mut self, key: &Q) -> (r: bool)
    where
        Rc<K>: Borrow<Q>,
        Q: Hash + Eq + ?Sized,
        requires old(self).wf(),
        ensures final(self).wf(), final(self).same_cfg(old(self)),
            // C15/C14: never feeds the estimator
            final(self).frequency_sketch == old(self).frequency_sketch,
            // C01/C15/C06: only the housekeeping prefix may have removed entries; survivors identical (value, timestamps, weight)
            forall|k: KeyId| #[trigger] final(self).cache@.contains_key(k) ==> old(self).cache@.contains_key(k) && final(self).cache@[k] == old(self).cache@[k],
            // C01/C05/C06: a hit means the key is resident
            r ==> final(self).cache@.contains_key(kid(key)),
            // without expiry the answer is exactly map membership
            !old(self).sp_has_expiry() ==> r == final(self).cache@.contains_key(kid(key)),
    {
        let timestamp = self.evict_expired_if_needed();
        self.evict_lru_entries();

        match (self.cache.get(key), timestamp) {
            // Value not found.
            (None, _) => false,
            // Value found, no expiry.
            (Some(_), None) => true,
            // Value found, check if expired.
            (Some(entry), Some(ts)) => {
                !Self::is_expired_entry_wo(&self.time_to_live, entry, ts)
                    && !Self::is_expired_entry_ao(&self.time_to_idle, entry, ts)
            }
        }
    }
    pub fn get<Q>(&mut self, key: &Q) -> (r: Option<&V>)
    where
        Rc<K>: Borrow<Q>,
        Q: Hash + Eq + ?Sized,
        requires old(self).wf(),
        ensures final(self).wf(), final(self).same_cfg(old(self)),
            // C14: exactly one recording, hit or miss
            final(self).frequency_sketch == old(self).frequency_sketch.incremented(old(self).sp_hash(key)),
            // C01: a hit returns the resident value of that key, unchanged
            match r {
                Some(v) => final(self).cache@.contains_key(kid(key)) && old(self).cache@.contains_key(kid(key))
                    && *v == old(self).cache@[kid(key)].value && final(self).cache@[kid(key)].value == *v,
                None => true,
            },
            // nothing but the looked-up key changes, and of that key only the access time
            forall|k: KeyId| #[trigger] final(self).cache@.contains_key(k) ==> old(self).cache@.contains_key(k)
                && final(self).cache@[k].value == old(self).cache@[k].value && final(self).cache@[k].w() == old(self).cache@[k].w()
                && final(self).cache@[k].tm() == old(self).cache@[k].tm()
                && (k != kid(key) ==> final(self).cache@[k] == old(self).cache@[k]),
            !old(self).sp_has_expiry() ==> (r.is_some() == final(self).cache@.contains_key(kid(key))),
    {
        let timestamp = self.evict_expired_if_needed();
        self.evict_lru_entries();
        self.frequency_sketch.increment(self.hash(key));
        let ghost mid_m = self.cache@; let ghost mid_p = self.deques.probation@; let ghost mid_wo = self.deques.write_order@; let ghost ttl = self.time_to_live.is_some();

        match (self.cache.get_mut(key), timestamp, &mut self.deques) {
            // Value not found.
            (None, _, _) => None,
            // Value found, no expiry.
            (Some(entry), None, deqs) => {
                proof { lemma_pos_of_key(mid_m, mid_p, mid_wo, ttl, kid(key)); lemma_index_of_id(mid_p, pos_of_key(mid_p, kid(key))); }
                Self::record_hit(deqs, entry, None);
                proof {
                    let i = pos_of_key(mid_p, kid(key));
                    lemma_same_nodes_core(mid_m, mid_p, mid_wo, ttl, kid(key), *entry);
                    lemma_moved_core(mid_m.insert(kid(key), *entry), mid_p, mid_wo, ttl, i);
                    lemma_wsum_same_weight(mid_p, mid_m, kid(key), *entry);
                    lemma_wsum_moved(mid_p, mid_m.insert(kid(key), *entry), i);
                }
                Some(&entry.value)
            }
            // Value found, check if expired.
            (Some(entry), Some(ts), deqs) => {
                if Self::is_expired_entry_wo(&self.time_to_live, entry, ts)
                    || Self::is_expired_entry_ao(&self.time_to_idle, entry, ts)
                {
                    proof { assert(mid_m.insert(kid(key), *entry) =~= mid_m); }
                    None
                } else {
                    proof { lemma_pos_of_key(mid_m, mid_p, mid_wo, ttl, kid(key)); lemma_index_of_id(mid_p, pos_of_key(mid_p, kid(key))); }
                    Self::record_hit(deqs, entry, timestamp);
                    proof {
                        let i = pos_of_key(mid_p, kid(key));
                        lemma_same_nodes_core(mid_m, mid_p, mid_wo, ttl, kid(key), *entry);
                        lemma_moved_core(mid_m.insert(kid(key), *entry), mid_p, mid_wo, ttl, i);
                        lemma_wsum_same_weight(mid_p, mid_m, kid(key), *entry);
                        lemma_wsum_moved(mid_p, mid_m.insert(kid(key), *entry), i);
                    }
                    Some(&entry.value)
                }
            }
        }
    }

    pub fn invalidate<Q>(&mut self, key: &Q)
    where
        Rc<K>: Borrow<Q>,
        Q: Hash + Eq + ?Sized,
        requires old(self).wf(),
        ensures final(self).wf(), final(self).same_cfg(old(self)),
            final(self).frequency_sketch == old(self).frequency_sketch,
            // C07: gone ...
            !final(self).cache@.contains_key(kid(key)),
            // ... and nothing else is touched beyond what the housekeeping prefix removes
            forall|k: KeyId| #[trigger] final(self).cache@.contains_key(k) ==> old(self).cache@.contains_key(k) && final(self).cache@[k] == old(self).cache@[k],
    {
        self.evict_expired_if_needed();
        self.evict_lru_entries();

        proof { if self.cache@.contains_key(kid(key)) {
            lemma_pos_of_key(self.cache@, self.deques.probation@, self.deques.write_order@, self.time_to_live.is_some(), kid(key));
            lemma_remove_at(self.cache@, self.deques.probation@, self.deques.write_order@, self.time_to_live.is_some(), pos_of_key(self.deques.probation@, kid(key)));
            lemma_wsum_nonneg(self.deques.probation@.remove(pos_of_key(self.deques.probation@, kid(key))), self.cache@.remove(kid(key)));
        } else { assert(self.cache@.remove(kid(key)) =~= self.cache@); } }
        if let Some(mut entry) = self.cache.remove(key) {
            let weight = entry.policy_weight();
            self.deques.unlink_ao(&mut entry);
            Deques::unlink_wo(&mut self.deques.write_order, &mut entry);
            self.saturating_sub_from_total_weight(weight as u64);
            self.entry_count -= 1;
        }
    }

    pub fn invalidate_all(&mut self)
        requires old(self).wf(),
        ensures final(self).wf(), final(self).same_cfg(old(self)),
            final(self).frequency_sketch == old(self).frequency_sketch,
            final(self).cache@ == Map::<KeyId, ValueEntry<K, V>>::empty(),
    {
        self.cache.clear();
        self.deques.clear();
        self.weighted_size = 0;
        self.entry_count = 0;
    }

    fn saturating_add_to_total_weight(&mut self, weight: u64)
        ensures final(self).weighted_size == if old(self).weighted_size + weight <= u64::MAX { (old(self).weighted_size + weight) as u64 } else { u64::MAX },
            final(self).same_cfg(old(self)), final(self).entry_count == old(self).entry_count,
            final(self).cache == old(self).cache, final(self).deques == old(self).deques,
            final(self).frequency_sketch_enabled == old(self).frequency_sketch_enabled, final(self).frequency_sketch == old(self).frequency_sketch,
    {
        let total = &mut self.weighted_size;
        *total = total.saturating_add(weight);
    }

    fn saturating_sub_from_total_weight(&mut self, weight: u64)
        ensures final(self).weighted_size == if old(self).weighted_size >= weight { (old(self).weighted_size - weight) as u64 } else { 0 },
            final(self).same_cfg(old(self)), final(self).entry_count == old(self).entry_count,
            final(self).cache == old(self).cache, final(self).deques == old(self).deques,
            final(self).frequency_sketch_enabled == old(self).frequency_sketch_enabled, final(self).frequency_sketch == old(self).frequency_sketch,
    {
        let total = &mut self.weighted_size;
        *total = total.saturating_sub(weight);
    }

    pub open spec fn small(&self) -> bool { self.deques.probation@.len() < 0xFFFF_FFFF }

    fn handle_update(
        &mut self,
        key: Rc<K>,
        timestamp: Option<Instant>,
        policy_weight: u32,
        old_entry: ValueEntry<K, V>,
    )
        requires
            old(self).cfg_ok(), old(self).small(),
            old(self).deques.window@.len() == 0 && old(self).deques.protected@.len() == 0,
            old(self).cache@.contains_key(kid_rc(key)),
            old(self).cache@[kid_rc(key)].ao().is_none(), old(self).cache@[kid_rc(key)].wo().is_none(),
            // putting the replaced entry back yields a well-formed cache
            core_wf(old(self).cache@.insert(kid_rc(key), old_entry), old(self).deques.probation@, old(self).deques.write_order@, old(self).time_to_live.is_some()),
            ts_wf(old(self).cache@.insert(kid_rc(key), old_entry), old(self).sp_has_expiry(), old(self).time_to_live.is_some()),
            old(self).entry_count == old(self).deques.probation@.len(),
            old(self).weighted_size == wsum(old(self).deques.probation@, old(self).cache@.insert(kid_rc(key), old_entry)),
            timestamp.is_some() == old(self).sp_has_expiry(),
        ensures
            final(self).wf(), final(self).same_cfg(old(self)),
            final(self).frequency_sketch == old(self).frequency_sketch, final(self).frequency_sketch_enabled == old(self).frequency_sketch_enabled,
            final(self).cache@.dom() == old(self).cache@.dom(),
            forall|k: KeyId| #[trigger] final(self).cache@.contains_key(k) && k != kid_rc(key) ==> final(self).cache@[k] == old(self).cache@[k],
            final(self).cache@[kid_rc(key)].value == old(self).cache@[kid_rc(key)].value,
            final(self).cache@[kid_rc(key)].w() == policy_weight,
            // C05 / C06: the update restarts both timers
            old(self).sp_has_expiry() ==> final(self).cache@[kid_rc(key)].ta() == timestamp,
            old(self).time_to_live.is_some() ==> final(self).cache@[kid_rc(key)].tm() == timestamp,
            // C12: the updated key becomes most recently used, nothing else moves
            final(self).deques.probation@ == moved_to_back(old(self).deques.probation@, pos_of_key(old(self).deques.probation@, kid_rc(key))),
            // C04/C10: weight bookkeeping
            final(self).weighted_size == old(self).weighted_size - old_entry.w() + policy_weight,
    {
        let ghost k = kid_rc(key);
        let ghost m_old = self.cache@.insert(k, old_entry);
        let ghost p0 = self.deques.probation@; let ghost wo0 = self.deques.write_order@; let ghost ttl = self.time_to_live.is_some();
        proof {
            lemma_pos_of_key(m_old, p0, wo0, ttl, k);
            lemma_index_of_id(p0, pos_of_key(p0, k));
            if ttl { lemma_index_of_id(wo0, pos_of_key(wo0, k)); }
        }
        let old_policy_weight = old_entry.policy_weight();

        let entry = self.cache.get_mut(&key).unwrap();
        entry.replace_deq_nodes_with(old_entry);
        if let Some(ts) = timestamp {
            entry.set_last_accessed(ts);
            entry.set_last_modified(ts);
        }
        entry.set_policy_weight(policy_weight);

        let deqs = &mut self.deques;
        deqs.move_to_back_ao(entry);
        if self.time_to_live.is_some() {
            deqs.move_to_back_wo(entry);
        }
        proof {
            let e2 = *entry;
            let i = pos_of_key(p0, k);
            lemma_same_nodes_core(m_old, p0, wo0, ttl, k, e2);
            let m2 = m_old.insert(k, e2);
            lemma_moved_core(m2, p0, wo0, ttl, i);
            if ttl { lemma_moved_core_wo(m2, moved_to_back(p0, i), wo0, ttl, pos_of_key(wo0, k)); }
            lemma_wsum_reweigh(p0, m_old, i, e2);
            lemma_wsum_moved(p0, m2, i);
            lemma_wsum_bound(p0, m_old);
            lemma_wsum_nonneg(p0.remove(i), m_old);
            lemma_wsum_remove(p0, m_old, i);
            assert(m2 =~= old(self).cache@.insert(k, e2));
        }

        self.saturating_sub_from_total_weight(old_policy_weight as u64);
        self.saturating_add_to_total_weight(policy_weight as u64);
    }
}
}
}
fn main() {}
