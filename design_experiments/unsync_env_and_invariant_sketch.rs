#![feature(sized_hierarchy)]
#![feature(allocator_api)]
use vstd::prelude::*;
verus! {

// =====================================================================
// ENV: assumed contracts for everything the unsync cache code calls but
// that is outside Verus' reach (HashMap, raw-pointer deques, clock, Rc).
// =====================================================================
pub mod env {
use vstd::prelude::*;
use std::time::Duration;
use std::rc::Rc;
use std::borrow::Borrow;
use std::hash::{BuildHasher, Hash};
use std::ptr::NonNull;

pub type KeyId = int;
/// abstract identity of a key: two keys have the same id iff they are `Eq`-equal
pub uninterp spec fn kid<Q: ?Sized>(q: &Q) -> KeyId;
pub open spec fn kid_rc<K>(k: Rc<K>) -> KeyId { kid::<K>(&*k) }
/// `Rc<K>: Borrow<K>` is the identity borrow
pub broadcast axiom fn axiom_kid_rc<K>(k: Rc<K>)
    ensures #[trigger] kid::<Rc<K>>(&k) == kid::<K>(&*k);

// ---- time ----
#[derive(Clone, Copy)]
#[verifier::external_body]
pub struct Instant { x: u64 }
impl Instant {
    /// nanoseconds since an arbitrary epoch
    pub uninterp spec fn t(&self) -> int;
}
pub uninterp spec fn dur_ns(d: Duration) -> int;
pub open spec fn max_dur_ns() -> int { 1000int * 365 * 24 * 3600 * 1_000_000_000 }
impl PartialEq for Instant {
    #[verifier::external_body]
    fn eq(&self, o: &Instant) -> (r: bool) ensures r == (self.t() == o.t()) { unimplemented!() }
}
impl PartialOrd for Instant {
    #[verifier::external_body]
    fn partial_cmp(&self, o: &Instant) -> (r: Option<std::cmp::Ordering>) { unimplemented!() }
    #[verifier::external_body]
    fn le(&self, o: &Instant) -> (r: bool) ensures r == (self.t() <= o.t()) { unimplemented!() }
}
impl Instant {
    #[verifier::external_body]
    pub fn checked_add(&self, d: Duration) -> (r: Option<Instant>)
        ensures 0 <= dur_ns(d) <= max_dur_ns() ==> r.is_some() && r.unwrap().t() == self.t() + dur_ns(d)
    { unimplemented!() }
}

pub struct N { pub id: int, pub key: KeyId, pub hash: u64 }

#[verifier::external_body]
#[verifier::reject_recursive_types(K)]
pub struct EntryInfo<K> { k: std::marker::PhantomData<K> }

#[verifier::reject_recursive_types(K)]
pub struct ValueEntry<K, V> {
    pub value: V,
    pub info: EntryInfo<K>,
}
impl<K, V> ValueEntry<K, V> {
    pub uninterp spec fn ao(&self) -> Option<int>;
    pub uninterp spec fn wo(&self) -> Option<int>;
    pub uninterp spec fn w(&self) -> u32;
    pub uninterp spec fn ta(&self) -> Option<Instant>;
    pub uninterp spec fn tm(&self) -> Option<Instant>;

    #[verifier::external_body]
    pub fn policy_weight(&self) -> (r: u32) ensures r == self.w() { unimplemented!() }
}

#[verifier::external_body]
#[verifier::reject_recursive_types(T)]
pub struct Deque<T> { k: std::marker::PhantomData<T> }
impl<T> Deque<T> {
    pub uninterp spec fn view(&self) -> Seq<N>;
}
pub open spec fn ids(s: Seq<N>) -> Seq<int> { s.map_values(|n: N| n.id) }
pub open spec fn keys(s: Seq<N>) -> Seq<KeyId> { s.map_values(|n: N| n.key) }

pub struct KeyDate<K> { pub key: Rc<K>, pub timestamp: Option<Instant> }
pub struct KeyHashDate<K> { pub key: Rc<K>, pub hash: u64, pub timestamp: Option<Instant> }
#[verifier::reject_recursive_types(T)]
pub struct DeqNode<T> { pub element: T }

impl<K> Deque<KeyHashDate<K>> {
    #[verifier::external_body]
    pub fn peek_front(&self) -> (r: Option<&DeqNode<KeyHashDate<K>>>)
        ensures match r {
            Some(n) => self@.len() > 0 && kid_rc(n.element.key) == self@[0].key && n.element.hash == self@[0].hash,
            None => self@.len() == 0,
        }
    { unimplemented!() }
    #[verifier::external_body]
    pub fn pop_front(&mut self) -> (r: Option<Box<DeqNode<KeyHashDate<K>>>>)
        ensures old(self)@.len() > 0 ==> final(self)@ == old(self)@.skip(1),
                old(self)@.len() == 0 ==> final(self)@ == old(self)@ && r.is_none(),
    { unimplemented!() }
}

#[verifier::reject_recursive_types(K)]
pub struct Deques<K> {
    pub window: Deque<KeyHashDate<K>>,
    pub probation: Deque<KeyHashDate<K>>,
    pub protected: Deque<KeyHashDate<K>>,
    pub write_order: Deque<KeyDate<K>>,
}
pub open spec fn index_of_id(s: Seq<N>, id: int) -> int { choose|i: int| 0 <= i < s.len() && s[i].id == id }
pub open spec fn has_id(s: Seq<N>, id: int) -> bool { exists|i: int| 0 <= i < s.len() && #[trigger] s[i].id == id }

impl<K> Deques<K> {
    #[verifier::external_body]
    pub fn unlink_ao_from_deque<V>(deq_name: &str, deq: &mut Deque<KeyHashDate<K>>, entry: &mut ValueEntry<K, V>)
        requires old(entry).ao().is_some() ==> has_id(old(deq)@, old(entry).ao().unwrap()),
        ensures
            final(entry).ao().is_none(), final(entry).wo() == old(entry).wo(), final(entry).w() == old(entry).w(),
            final(entry).value == old(entry).value, final(entry).tm() == old(entry).tm(),
            old(entry).ao().is_none() ==> final(deq)@ == old(deq)@,
            old(entry).ao().is_some() ==> final(deq)@ == old(deq)@.remove(index_of_id(old(deq)@, old(entry).ao().unwrap())),
    { unimplemented!() }
    #[verifier::external_body]
    pub fn unlink_wo<V>(deq: &mut Deque<KeyDate<K>>, entry: &mut ValueEntry<K, V>)
        requires old(entry).wo().is_some() ==> has_id(old(deq)@, old(entry).wo().unwrap()),
        ensures
            final(entry).wo().is_none(), final(entry).ao() == old(entry).ao(), final(entry).w() == old(entry).w(),
            final(entry).value == old(entry).value, final(entry).ta() == old(entry).ta(),
            old(entry).wo().is_none() ==> final(deq)@ == old(deq)@,
            old(entry).wo().is_some() ==> final(deq)@ == old(deq)@.remove(index_of_id(old(deq)@, old(entry).wo().unwrap())),
    { unimplemented!() }
}

#[verifier::external_body]
#[verifier::reject_recursive_types(K)]
#[verifier::reject_recursive_types(V)]
#[verifier::reject_recursive_types(S)]
pub struct CacheStore<K, V, S> { k: std::marker::PhantomData<(K,V,S)> }
impl<K, V, S> CacheStore<K, V, S> {
    pub uninterp spec fn view(&self) -> Map<KeyId, ValueEntry<K, V>>;

    #[verifier::external_body]
    pub fn remove<Q>(&mut self, key: &Q) -> (r: Option<ValueEntry<K, V>>)
    where Rc<K>: Borrow<Q>, Q: Hash + Eq + ?Sized
        ensures
            final(self)@ == old(self)@.remove(kid(key)),
            match r { Some(e) => old(self)@.contains_key(kid(key)) && e == old(self)@[kid(key)], None => !old(self)@.contains_key(kid(key)) },
    { unimplemented!() }
}

#[verifier::external_body]
pub fn rc_clone<K>(k: &Rc<K>) -> (r: Rc<K>) ensures r == *k { unimplemented!() }
} // mod env

// =====================================================================
// SPEC: representation invariant and abstract views of the unsync cache
// =====================================================================
pub mod cspec {
use vstd::prelude::*;
use super::env::*;

/// sum of the weights of the entries named by the nodes of `s`, in map `m`
pub open spec fn wsum<K, V>(s: Seq<N>, m: Map<KeyId, ValueEntry<K, V>>) -> int
    decreases s.len()
{
    if s.len() == 0 { 0 } else { wsum(s.drop_last(), m) + m[s.last().key].w() as int }
}
} // mod cspec

pub mod code {
use vstd::prelude::*;
use std::time::Duration;
use std::rc::Rc;
use std::borrow::Borrow;
use std::hash::{BuildHasher, Hash};
use super::env::*;
use super::cspec::*;

const EVICTION_BATCH_SIZE: usize = 100;

#[verifier::reject_recursive_types(K)]
#[verifier::reject_recursive_types(V)]
#[verifier::reject_recursive_types(S)]
pub struct Cache<K, V, S> {
    pub max_capacity: Option<u64>,
    pub entry_count: u64,
    pub weighted_size: u64,
    pub cache: CacheStore<K, V, S>,
    pub build_hasher: S,
    pub deques: Deques<K>,
    pub frequency_sketch_enabled: bool,
    pub time_to_live: Option<Duration>,
    pub time_to_idle: Option<Duration>,
}

impl<K, V, S> Cache<K, V, S>
where
    K: Hash + Eq,
    S: BuildHasher + Clone,
{
    /// Representation invariant.
    pub open spec fn wf(&self) -> bool {
        let m = self.cache@;
        let p = self.deques.probation@;
        let wo = self.deques.write_order@;
        &&& self.deques.window@.len() == 0 && self.deques.protected@.len() == 0
        // probation nodes <-> map entries, one to one
        &&& forall|i: int, j: int| 0 <= i < j < p.len() ==> p[i].id != p[j].id && p[i].key != p[j].key
        &&& forall|i: int| 0 <= i < p.len() ==> m.contains_key(#[trigger] p[i].key) && m[p[i].key].ao() == Some(p[i].id)
        &&& forall|k: KeyId| #[trigger] m.contains_key(k) ==> exists|i: int| 0 <= i < p.len() && p[i].key == k
        // write-order nodes <-> map entries when ttl is configured
        &&& forall|i: int, j: int| 0 <= i < j < wo.len() ==> wo[i].id != wo[j].id && wo[i].key != wo[j].key
        &&& forall|i: int| 0 <= i < wo.len() ==> m.contains_key(#[trigger] wo[i].key) && m[wo[i].key].wo() == Some(wo[i].id)
        &&& forall|k: KeyId| #[trigger] m.contains_key(k) ==> (m[k].wo().is_some() <==> self.time_to_live.is_some())
        &&& forall|k: KeyId| #[trigger] m.contains_key(k) && self.time_to_live.is_some() ==> exists|i: int| 0 <= i < wo.len() && wo[i].key == k
        // counters
        &&& self.entry_count == p.len()
        &&& self.weighted_size == wsum(p, m)
    }

    fn weights_to_evict(&self) -> (r: u64)
        ensures r == match self.max_capacity { Some(l) => if self.weighted_size > l { (self.weighted_size - l) as u64 } else { 0 }, None => 0 }
    {
        self.max_capacity
            .map(|limit| self.weighted_size.saturating_sub(limit))
            .unwrap_or_default()
    }

    fn saturating_sub_from_total_weight(&mut self, weight: u64)
        ensures final(self).weighted_size == if old(self).weighted_size >= weight { (old(self).weighted_size - weight) as u64 } else { 0 },
            final(self).max_capacity == old(self).max_capacity, final(self).entry_count == old(self).entry_count,
            final(self).cache == old(self).cache, final(self).deques == old(self).deques,
            final(self).time_to_live == old(self).time_to_live, final(self).time_to_idle == old(self).time_to_idle,
            final(self).frequency_sketch_enabled == old(self).frequency_sketch_enabled,
    {
        let total = &mut self.weighted_size;
        *total = total.saturating_sub(weight);
    }

    #[inline]
    fn evict_lru_entries(&mut self)
        requires old(self).wf(),
        ensures final(self).wf(),
    {
        const DEQ_NAME: &'static str = "probation";

        let weights_to_evict = self.weights_to_evict();
        let mut evicted_count = 0u64;
        let mut evicted_policy_weight = 0u64;

        {
            let deqs = &mut self.deques;
            let (probation, wo, cache) =
                (&mut deqs.probation, &mut deqs.write_order, &mut self.cache);

            for _ in 0..EVICTION_BATCH_SIZE {
                if evicted_policy_weight >= weights_to_evict {
                    break;
                }

                // clippy::map_clone will give us a false positive warning here.
                // Version: clippy 0.1.77 (f2048098a1c 2024-02-09) in Rust 1.77.0-beta.2
                #[allow(clippy::map_clone)]
                let key = probation
                    .peek_front()
                    .map(|node| Rc::clone(&node.element.key));

                if key.is_none() {
                    break;
                }
                let key = key.unwrap();

                if let Some(mut entry) = cache.remove(&key) {
                    let weight = entry.policy_weight();
                    Deques::unlink_ao_from_deque(DEQ_NAME, probation, &mut entry);
                    Deques::unlink_wo(wo, &mut entry);
                    evicted_count += 1;
                    evicted_policy_weight = evicted_policy_weight.saturating_add(weight as u64);
                } else {
                    probation.pop_front();
                }
            }
        }

        self.entry_count -= evicted_count;
        self.saturating_sub_from_total_weight(evicted_policy_weight);
    }
}
}
}
fn main() {}
