// appended to src/common/deque.rs of a scratch copy; `cargo kani --harness window_move_to_back`: SUCCESSFUL, 3.8 s, loop-free
#[cfg(kani)]
mod verif_window2 {
    use super::*;
    use crate::common::CacheRegion::MainProbation;

    fn raw(v: u8) -> NonNull<DeqNode<u8>> {
        NonNull::new(Box::into_raw(Box::new(DeqNode::new(v)))).unwrap()
    }

    /// Local-window contract of `move_to_back`: P <-> X <-> N ... T where T is the tail
    /// (T may coincide with N, or X itself may be the tail).
    #[kani::proof]
    fn window_move_to_back() {
        let has_p: bool = kani::any();
        let p_is_head: bool = kani::any();
        // shape: 0 = X is tail; 1 = N is tail; 2 = N then (far) ... then T
        let shape: u8 = kani::any();
        kani::assume(shape < 3);
        let p = raw(1);
        let x = raw(2);
        let n = raw(3);
        let t = raw(4);
        let far_l: NonNull<DeqNode<u8>> = NonNull::dangling();
        let far_m: NonNull<DeqNode<u8>> = NonNull::dangling();
        unsafe {
            (*x.as_ptr()).prev = if has_p { Some(p) } else { None };
            (*p.as_ptr()).next = Some(x);
            (*p.as_ptr()).prev = if p_is_head { None } else { Some(far_l) };
            match shape {
                0 => { (*x.as_ptr()).next = None; }
                1 => { (*x.as_ptr()).next = Some(n); (*n.as_ptr()).prev = Some(x); (*n.as_ptr()).next = None; }
                _ => {
                    (*x.as_ptr()).next = Some(n); (*n.as_ptr()).prev = Some(x); (*n.as_ptr()).next = Some(far_m);
                    (*t.as_ptr()).prev = Some(far_m); (*t.as_ptr()).next = None;
                }
            }
        }
        let tail = match shape { 0 => x, 1 => n, _ => t };
        let head = if !has_p { x } else if p_is_head { p } else { far_l };
        let len: usize = kani::any();
        kani::assume(len >= 4);
        let mut d: Deque<u8> = Deque { region: MainProbation, len, head: Some(head), tail: Some(tail), cursor: None, marker: PhantomData };

        unsafe { d.move_to_back(x) };

        unsafe {
            assert!(d.tail == Some(x));
            assert!((*x.as_ptr()).next.is_none());
            assert!(d.len == len);
            if shape == 0 {
                // already the tail: nothing moves
                assert!((*x.as_ptr()).prev == if has_p { Some(p) } else { None });
                assert!(d.head == Some(head));
            } else {
                // X's old neighbours are spliced, X hangs behind the old tail
                assert!((*x.as_ptr()).prev == Some(tail));
                assert!((*tail.as_ptr()).next == Some(x));
                assert!((*n.as_ptr()).prev == if has_p { Some(p) } else { None });
                if has_p { assert!((*p.as_ptr()).next == Some(n)); assert!(d.head == Some(head)); } else { assert!(d.head == Some(n)); }
                if has_p { assert!((*p.as_ptr()).prev == if p_is_head { None } else { Some(far_l) }); }
                if shape == 2 { assert!((*n.as_ptr()).next == Some(far_m)); assert!((*t.as_ptr()).prev == Some(far_m)); }
            }
        }
        std::mem::forget(d);
        unsafe { drop(Box::from_raw(p.as_ptr())); drop(Box::from_raw(x.as_ptr())); drop(Box::from_raw(n.as_ptr())); drop(Box::from_raw(t.as_ptr())); }
    }
}
