// appended to src/common/deque.rs of a scratch copy; `cargo kani --harness probe_deque_ops`: SUCCESSFUL in 69 s (3 nodes x 3 symbolic ops)
#[cfg(kani)]
mod verif_probe {
    use super::*;
    use crate::common::CacheRegion::MainProbation;

    fn walk<T>(d: &Deque<T>) -> usize {
        let mut n = 0usize;
        let mut cur = d.head;
        let mut prev: Option<NonNull<DeqNode<T>>> = None;
        while let Some(p) = cur {
            let node = unsafe { p.as_ref() };
            assert!(node.prev == prev);
            prev = cur;
            cur = node.next;
            n += 1;
            if n > 8 { break; }
        }
        assert!(d.tail == prev);
        assert!(n == d.len);
        n
    }

    #[kani::proof]
    #[kani::unwind(10)]
    fn probe_deque_ops() {
        let mut d: Deque<u8> = Deque::new(MainProbation);
        let a = d.push_back(Box::new(DeqNode::new(1)));
        let b = d.push_back(Box::new(DeqNode::new(2)));
        let c = d.push_back(Box::new(DeqNode::new(3)));
        let nodes = [a, b, c];
        let mut live = [true, true, true];
        for _ in 0..3 {
            let which: usize = kani::any();
            kani::assume(which < 3);
            let op: u8 = kani::any();
            if live[which] {
                let n = nodes[which];
                assert!(d.contains(unsafe { n.as_ref() }));
                if op % 2 == 0 {
                    unsafe { d.move_to_back(n) };
                    assert!(d.tail == Some(n));
                } else {
                    unsafe { d.unlink_and_drop(n) };
                    live[which] = false;
                }
            }
            walk(&d);
        }
    }
}
