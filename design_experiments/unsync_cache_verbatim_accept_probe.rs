#![feature(sized_hierarchy)]
#![feature(allocator_api)]

use vstd::prelude::*;
use std::time::Duration;
use std::rc::Rc;
use std::borrow::Borrow;
use std::hash::{BuildHasher, Hash};
use std::ptr::NonNull;
verus! {

// ---------------- assumed environment ----------------
#[derive(Clone, Copy)]
#[verifier::external_body]
pub struct Instant { x: u64 }
impl PartialEq for Instant {
    #[verifier::external_body]
    fn eq(&self, o: &Instant) -> (r: bool) { unimplemented!() }
}
impl PartialOrd for Instant {
    #[verifier::external_body]
    fn partial_cmp(&self, o: &Instant) -> (r: Option<std::cmp::Ordering>) { unimplemented!() }
}
impl Instant {
    #[verifier::external_body]
    pub fn checked_add(&self, d: Duration) -> (r: Option<Instant>) { unimplemented!() }
    #[verifier::external_body]
    pub fn new(i: Instant) -> (r: Instant) { unimplemented!() }
    #[verifier::external_body]
    pub fn now() -> (r: Instant) { unimplemented!() }
}
#[verifier::external_body]
pub struct Clock { x: u64 }
impl Clock {
    #[verifier::external_body]
    pub fn now(&self) -> (r: Instant) { unimplemented!() }
}

pub trait AccessTime {
    fn last_accessed(&self) -> Option<Instant>;
    fn set_last_accessed(&mut self, timestamp: Instant);
    fn last_modified(&self) -> Option<Instant>;
    fn set_last_modified(&mut self, timestamp: Instant);
}

#[derive(Clone, Copy)]
pub enum CacheRegion { Window = 0, MainProbation = 1, MainProtected = 2, Other = 3 }

#[verifier::external_type_specification]
#[verifier::external_body]
#[verifier::accept_recursive_types(T)]
pub struct ExNonNull<T: std::marker::PointeeSized>(NonNull<T>);


pub assume_specification<T, 'a> [std::ptr::NonNull::<T>::as_ref] (p: &std::ptr::NonNull<T>) -> (r: &'a T)
    where T: std::marker::PointeeSized;
pub assume_specification<T, A> [<std::rc::Rc<T, A> as std::convert::AsRef<T>>::as_ref] (rc: &std::rc::Rc<T, A>) -> (r: &T)
    where A: std::alloc::Allocator, T: std::marker::MetaSized + ?Sized
    ;

pub struct KeyDate<K> {
    pub key: Rc<K>,
    pub timestamp: Option<Instant>,
}
impl<K> KeyDate<K> {
    pub fn new(key: Rc<K>, timestamp: Option<Instant>) -> Self { Self { key, timestamp } }
}
pub struct KeyHashDate<K> {
    pub key: Rc<K>,
    pub hash: u64,
    pub timestamp: Option<Instant>,
}
impl<K> KeyHashDate<K> {
    pub fn new(key: Rc<K>, hash: u64, timestamp: Option<Instant>) -> Self { Self { key, hash, timestamp } }
}

#[verifier::reject_recursive_types(T)]
pub struct DeqNode<T> {
    next: Option<NonNull<DeqNode<T>>>,
    prev: Option<NonNull<DeqNode<T>>>,
    pub element: T,
}
impl<T> DeqNode<T> {
    #[verifier::external_body]
    pub fn next_node_ptr(this: NonNull<Self>) -> Option<NonNull<DeqNode<T>>> { unimplemented!() }
}
impl<K> AccessTime for DeqNode<KeyDate<K>> {
    #[verifier::external_body]
    fn last_accessed(&self) -> Option<Instant> { unimplemented!() }
    #[verifier::external_body]
    fn set_last_accessed(&mut self, timestamp: Instant) { unimplemented!() }
    #[verifier::external_body]
    fn last_modified(&self) -> Option<Instant> { unimplemented!() }
    #[verifier::external_body]
    fn set_last_modified(&mut self, timestamp: Instant) { unimplemented!() }
}
impl<K> AccessTime for DeqNode<KeyHashDate<K>> {
    #[verifier::external_body]
    fn last_accessed(&self) -> Option<Instant> { unimplemented!() }
    #[verifier::external_body]
    fn set_last_accessed(&mut self, timestamp: Instant) { unimplemented!() }
    #[verifier::external_body]
    fn last_modified(&self) -> Option<Instant> { unimplemented!() }
    #[verifier::external_body]
    fn set_last_modified(&mut self, timestamp: Instant) { unimplemented!() }
}

#[verifier::external_body]
#[verifier::reject_recursive_types(T)]
pub struct Deque<T> { k: std::marker::PhantomData<T> }
impl<T> Deque<T> {
    #[verifier::external_body]
    pub fn peek_front(&self) -> Option<&DeqNode<T>> { unimplemented!() }
    #[verifier::external_body]
    pub fn peek_front_ptr(&self) -> Option<NonNull<DeqNode<T>>> { unimplemented!() }
    #[verifier::external_body]
    pub fn pop_front(&mut self) -> Option<Box<DeqNode<T>>> { unimplemented!() }
}

#[verifier::external_body]
#[verifier::reject_recursive_types(K)]
pub struct EntryInfo<K> { k: std::marker::PhantomData<K> }

#[verifier::reject_recursive_types(K)]
pub struct ValueEntry<K, V> {
    pub value: V,
    info: EntryInfo<K>,
}
impl<K, V> ValueEntry<K, V> {
    #[verifier::external_body]
    pub fn new(value: V, policy_weight: u32) -> Self { unimplemented!() }
    #[verifier::external_body]
    pub fn policy_weight(&self) -> u32 { unimplemented!() }
    #[verifier::external_body]
    pub fn set_policy_weight(&mut self, w: u32) { unimplemented!() }
    #[verifier::external_body]
    pub fn replace_deq_nodes_with(&mut self, other: Self) { unimplemented!() }
}

impl<K, V> AccessTime for ValueEntry<K, V> {
    #[verifier::external_body]
    fn last_accessed(&self) -> Option<Instant> { unimplemented!() }
    #[verifier::external_body]
    fn set_last_accessed(&mut self, timestamp: Instant) { unimplemented!() }
    #[verifier::external_body]
    fn last_modified(&self) -> Option<Instant> { unimplemented!() }
    #[verifier::external_body]
    fn set_last_modified(&mut self, timestamp: Instant) { unimplemented!() }
}

#[verifier::reject_recursive_types(K)]
pub struct Deques<K> {
    pub window: Deque<KeyHashDate<K>>,
    pub probation: Deque<KeyHashDate<K>>,
    pub protected: Deque<KeyHashDate<K>>,
    pub write_order: Deque<KeyDate<K>>,
}
impl<K> Deques<K> {
    #[verifier::external_body]
    pub fn clear(&mut self) { unimplemented!() }
    #[verifier::external_body]
    pub fn push_back_ao<V>(&mut self, region: CacheRegion, kh: KeyHashDate<K>, entry: &mut ValueEntry<K, V>) { unimplemented!() }
    #[verifier::external_body]
    pub fn push_back_wo<V>(&mut self, kh: KeyDate<K>, entry: &mut ValueEntry<K, V>) { unimplemented!() }
    #[verifier::external_body]
    pub fn move_to_back_ao<V>(&mut self, entry: &ValueEntry<K, V>) { unimplemented!() }
    #[verifier::external_body]
    pub fn move_to_back_wo<V>(&mut self, entry: &ValueEntry<K, V>) { unimplemented!() }
    #[verifier::external_body]
    pub fn unlink_ao<V>(&mut self, entry: &mut ValueEntry<K, V>) { unimplemented!() }
    #[verifier::external_body]
    pub fn unlink_ao_from_deque<V>(deq_name: &str, deq: &mut Deque<KeyHashDate<K>>, entry: &mut ValueEntry<K, V>) { unimplemented!() }
    #[verifier::external_body]
    pub fn unlink_wo<V>(deq: &mut Deque<KeyDate<K>>, entry: &mut ValueEntry<K, V>) { unimplemented!() }
}

#[verifier::external_body]
#[verifier::reject_recursive_types(K)]
#[verifier::reject_recursive_types(V)]
#[verifier::reject_recursive_types(S)]
pub struct CacheStore<K, V, S> { k: std::marker::PhantomData<(K,V,S)> }
impl<K, V, S> CacheStore<K, V, S> {
    #[verifier::external_body]
    pub fn get<Q>(&self, key: &Q) -> Option<&ValueEntry<K, V>>
    where Rc<K>: Borrow<Q>, Q: Hash + Eq + ?Sized
    { unimplemented!() }
    #[verifier::external_body]
    pub fn get_mut<Q>(&mut self, key: &Q) -> Option<&mut ValueEntry<K, V>>
    where Rc<K>: Borrow<Q>, Q: Hash + Eq + ?Sized
    { unimplemented!() }
    #[verifier::external_body]
    pub fn remove<Q>(&mut self, key: &Q) -> Option<ValueEntry<K, V>>
    where Rc<K>: Borrow<Q>, Q: Hash + Eq + ?Sized
    { unimplemented!() }
    #[verifier::external_body]
    pub fn insert(&mut self, key: Rc<K>, v: ValueEntry<K, V>) -> Option<ValueEntry<K, V>>
    { unimplemented!() }
    #[verifier::external_body]
    pub fn clear(&mut self) { unimplemented!() }
    #[verifier::external_body]
    pub fn iter(&self) -> std::vec::IntoIter<(&Rc<K>, &ValueEntry<K, V>)> { unimplemented!() }
}

#[verifier::external_body]
pub struct FrequencySketch { x: u64 }
impl FrequencySketch {
    #[verifier::external_body]
    pub fn increment(&mut self, hash: u64) { unimplemented!() }
    #[verifier::external_body]
    pub fn frequency(&self, hash: u64) -> u8 { unimplemented!() }
    #[verifier::external_body]
    pub fn ensure_capacity(&mut self, cap: u32) { unimplemented!() }
}
pub mod common {
    #[verifier::external_body]
    pub fn sketch_capacity(max_capacity: u64) -> u32 { unimplemented!() }
}


pub trait Array { type Item; }
impl<T, const N: usize> Array for [T; N] { type Item = T; }
#[verifier::reject_recursive_types(A)]
pub struct SmallVec<A: Array> { pub v: Vec<A::Item> }
impl<A: Array> Default for SmallVec<A> {
    fn default() -> Self { SmallVec { v: Vec::new() } }
}
impl<A: Array> SmallVec<A> {
    pub fn push(&mut self, x: A::Item) { self.v.push(x) }
}
impl<A: Array> IntoIterator for SmallVec<A> {
    type Item = A::Item;
    type IntoIter = std::vec::IntoIter<A::Item>;
    fn into_iter(self) -> Self::IntoIter { self.v.into_iter() }
}

#[verifier::external_body]
#[verifier::reject_recursive_types(K)]
#[verifier::reject_recursive_types(V)]
pub struct Weigher<K, V> { k: std::marker::PhantomData<(K,V)> }
const EVICTION_BATCH_SIZE: usize = 100;

// ---------------- extracted real text ----------------
#[verifier::reject_recursive_types(K)]
#[verifier::reject_recursive_types(V)]
#[verifier::reject_recursive_types(S)]
pub struct Cache<K, V, S> {
    max_capacity: Option<u64>,
    entry_count: u64,
    weighted_size: u64,
    cache: CacheStore<K, V, S>,
    build_hasher: S,
    weigher: Option<Weigher<K, V>>,
    deques: Deques<K>,
    frequency_sketch: FrequencySketch,
    frequency_sketch_enabled: bool,
    time_to_live: Option<Duration>,
    time_to_idle: Option<Duration>,
    expiration_clock: Option<Clock>,
}

impl<K, V, S> Cache<K, V, S>
where
    K: Hash + Eq,
    S: BuildHasher + Clone,
{
    #[verifier::external_body]
    fn hash<Q>(&self, key: &Q) -> u64
    where
        Rc<K>: Borrow<Q>,
        Q: Hash + Eq + ?Sized,
    { unimplemented!() }

    #[inline]
    fn is_expired_entry_ao(
        time_to_idle: &Option<Duration>,
        entry: &impl AccessTime,
        now: Instant,
    ) -> bool {
        if let (Some(ts), Some(tti)) = (entry.last_accessed(), time_to_idle) {
            let checked_add = ts.checked_add(*tti);
            if checked_add.is_none() {
                panic!("ttl overflow")
            }
            return checked_add.unwrap() <= now;
        }
        false
    }

    #[inline]
    fn is_expired_entry_wo(
        time_to_live: &Option<Duration>,
        entry: &impl AccessTime,
        now: Instant,
    ) -> bool {
        if let (Some(ts), Some(ttl)) = (entry.last_modified(), time_to_live) {
            let checked_add = ts.checked_add(*ttl);
            if checked_add.is_none() {
                panic!("ttl overflow")
            }
            return checked_add.unwrap() <= now;
        }
        false
    }

    /// Inserts a key-value pair into the cache.
    ///
    /// If the cache has this key present, the value is updated.
    pub fn insert(&mut self, key: K, value: V) {
        let timestamp = self.evict_expired_if_needed();
        self.evict_lru_entries();
        let policy_weight = weigh(&mut self.weigher, &key, &value);
        let key = Rc::new(key);
        let entry = ValueEntry::new(value, policy_weight);

        if let Some(old_entry) = self.cache.insert(Rc::clone(&key), entry) {
            self.handle_update(key, timestamp, policy_weight, old_entry);
        } else {
            let hash = self.hash(&key);
            self.handle_insert(key, hash, policy_weight, timestamp);
        }
    }

    /// Discards any cached value for the key.
    ///
    /// The key may be any borrowed form of the cache's key type, but `Hash` and `Eq`
    /// on the borrowed form _must_ match those for the key type.
    pub fn invalidate<Q>(&mut self, key: &Q)
    where
        Rc<K>: Borrow<Q>,
        Q: Hash + Eq + ?Sized,
    {
        self.evict_expired_if_needed();
        self.evict_lru_entries();

        if let Some(mut entry) = self.cache.remove(key) {
            let weight = entry.policy_weight();
            self.deques.unlink_ao(&mut entry);
            Deques::unlink_wo(&mut self.deques.write_order, &mut entry);
            self.saturating_sub_from_total_weight(weight as u64);
        }
    }

    /// Discards all cached values.
    ///
    /// Like the `invalidate` method, this method does not clear the historic
    /// popularity estimator of keys so that it retains the client activities of
    /// trying to retrieve an item.
    pub fn invalidate_all(&mut self) {
        self.cache.clear();
        self.deques.clear();
        self.weighted_size = 0;
    }

    #[inline]
    fn handle_insert(
        &mut self,
        key: Rc<K>,
        hash: u64,
        policy_weight: u32,
        timestamp: Option<Instant>,
    ) {
        let has_free_space = self.has_enough_capacity(policy_weight, self.weighted_size);
        let (cache, deqs, freq) = (&mut self.cache, &mut self.deques, &self.frequency_sketch);

        if has_free_space {
            // Add the candidate to the deque.
            let key = Rc::clone(&key);
            let entry = cache.get_mut(&key).unwrap();
            deqs.push_back_ao(
                CacheRegion::MainProbation,
                KeyHashDate::new(Rc::clone(&key), hash, timestamp),
                entry,
            );
            if self.time_to_live.is_some() {
                deqs.push_back_wo(KeyDate::new(key, timestamp), entry);
            }
            self.entry_count += 1;
            self.saturating_add_to_total_weight(policy_weight as u64);

            if self.should_enable_frequency_sketch() {
                self.enable_frequency_sketch();
            }

            return;
        }

        if let Some(max) = self.max_capacity {
            if policy_weight as u64 > max {
                // The candidate is too big to fit in the cache. Reject it.
                cache.remove(&Rc::clone(&key));
                return;
            }
        }

        let mut candidate = EntrySizeAndFrequency::new(policy_weight as u64);
        candidate.add_frequency(freq, hash);

        match Self::admit(&candidate, cache, deqs, freq, &mut self.weigher) {
            AdmissionResult::Admitted {
                victim_nodes,
                victims_weight,
            } => {
                // Remove the victims from the cache (hash map) and deque.
                for victim in victim_nodes {
                    // Remove the victim from the hash map.
                    let mut vic_entry = cache
                        .remove(unsafe { &victim.as_ref().element.key })
                        .expect("Cannot remove a victim from the hash map");
                    // And then remove the victim from the deques.
                    deqs.unlink_ao(&mut vic_entry);
                    Deques::unlink_wo(&mut deqs.write_order, &mut vic_entry);
                    self.entry_count -= 1;
                }

                // Add the candidate to the deque.
                let entry = cache.get_mut(&key).unwrap();
                let key = Rc::clone(&key);
                deqs.push_back_ao(
                    CacheRegion::MainProbation,
                    KeyHashDate::new(Rc::clone(&key), hash, timestamp),
                    entry,
                );
                if self.time_to_live.is_some() {
                    deqs.push_back_wo(KeyDate::new(key, timestamp), entry);
                }

                self.entry_count += 1;
                Self::saturating_sub_from_total_weight(self, victims_weight);
                Self::saturating_add_to_total_weight(self, policy_weight as u64);

                if self.should_enable_frequency_sketch() {
                    self.enable_frequency_sketch();
                }
            }
            AdmissionResult::Rejected => {
                // Remove the candidate from the cache.
                cache.remove(&key);
            }
        }
    }

    /// Performs size-aware admission explained in the paper:
    /// [Lightweight Robust Size Aware Cache Management][size-aware-cache-paper]
    /// by Gil Einziger, Ohad Eytan, Roy Friedman, Ben Manes.
    ///
    /// [size-aware-cache-paper]: https://arxiv.org/abs/2105.08770
    ///
    /// There are some modifications in this implementation:
    /// - To admit to the main space, candidate's frequency must be higher than
    ///   the aggregated frequencies of the potential victims. (In the paper,
    ///   `>=` operator is used rather than `>`)  The `>` operator will do a better
    ///   job to prevent the main space from polluting.
    /// - When a candidate is rejected, the potential victims will stay at the LRU
    ///   position of the probation access-order queue. (In the paper, they will be
    ///   promoted (to the MRU position?) to force the eviction policy to select a
    ///   different set of victims for the next candidate). We may implement the
    ///   paper's behavior later?
    ///
    #[inline]
    #[verifier::exec_allows_no_decreases_clause]
    fn admit(
        candidate: &EntrySizeAndFrequency,
        cache: &CacheStore<K, V, S>,
        deqs: &Deques<K>,
        freq: &FrequencySketch,
        weigher: &mut Option<Weigher<K, V>>,
    ) -> AdmissionResult<K> {
        let mut victims = EntrySizeAndFrequency::default();
        let mut victim_nodes = SmallVec::default();

        // Get first potential victim at the LRU position.
        let mut next_victim = deqs.probation.peek_front_ptr();

        // Aggregate potential victims.
        while victims.weight < candidate.weight {
            if candidate.freq < victims.freq {
                break;
            }
            if let Some(victim) = next_victim.take() {
                next_victim = DeqNode::next_node_ptr(victim);
                let vic_elem = &unsafe { victim.as_ref() }.element;

                let vic_entry = cache
                    .get(&vic_elem.key)
                    .expect("Cannot get an victim entry");
                victims.add_policy_weight(vic_elem.key.as_ref(), &vic_entry.value, weigher);
                victims.add_frequency(freq, vic_elem.hash);
                victim_nodes.push(victim);
            } else {
                // No more potential victims.
                break;
            }
        }

        // Admit or reject the candidate.

        // TODO: Implement some randomness to mitigate hash DoS attack.
        // See Caffeine's implementation.

        if victims.weight >= candidate.weight && candidate.freq > victims.freq {
            AdmissionResult::Admitted {
                victim_nodes,
                victims_weight: victims.weight,
            }
        } else {
            AdmissionResult::Rejected
        }
    }

    fn handle_update(
        &mut self,
        key: Rc<K>,
        timestamp: Option<Instant>,
        policy_weight: u32,
        old_entry: ValueEntry<K, V>,
    ) {
        let old_policy_weight = old_entry.policy_weight();

        let entry = self.cache.get_mut(&key).unwrap();
        entry.replace_deq_nodes_with(old_entry);
        if let Some(ts) = timestamp {
            entry.set_last_accessed(ts);
            entry.set_last_modified(ts);
        }
        entry.set_policy_weight(policy_weight);

        let deqs = &mut self.deques;
        deqs.move_to_back_ao(entry);
        if self.time_to_live.is_some() {
            deqs.move_to_back_wo(entry);
        }

        self.saturating_sub_from_total_weight(old_policy_weight as u64);
        self.saturating_add_to_total_weight(policy_weight as u64);
    }

    #[verifier::external_body]
    fn evict_expired(&mut self, now: Instant) { unimplemented!() }

    // Returns (u64, u64) where (evicted_entry_count, evicted_policy_weight).
    #[inline]
    fn remove_expired_ao(
        deq_name: &str,
        deq: &mut Deque<KeyHashDate<K>>,
        write_order_deq: &mut Deque<KeyDate<K>>,
        cache: &mut CacheStore<K, V, S>,
        time_to_idle: &Option<Duration>,
        batch_size: usize,
        now: Instant,
    ) -> (u64, u64) {
        let mut evicted_entry_count = 0u64;
        let mut evicted_policy_weight = 0u64;

        for _ in 0..batch_size {
            let key = deq
                .peek_front()
                .and_then(|node| {
                    if Self::is_expired_entry_ao(time_to_idle, node, now) {
                        Some(Some(Rc::clone(&node.element.key)))
                    } else {
                        None
                    }
                })
                .unwrap_or_default();

            if key.is_none() {
                break;
            }

            let key = key.unwrap();

            if let Some(mut entry) = cache.remove(&key) {
                let weight = entry.policy_weight();
                Deques::unlink_ao_from_deque(deq_name, deq, &mut entry);
                Deques::unlink_wo(write_order_deq, &mut entry);
                evicted_entry_count += 1;
                evicted_policy_weight = evicted_policy_weight.saturating_add(weight as u64);
            } else {
                deq.pop_front();
            }
        }

        (evicted_entry_count, evicted_policy_weight)
    }

    // Returns (u64, u64) where (evicted_entry_count, evicted_policy_weight).
    #[inline]
    fn remove_expired_wo(&mut self, batch_size: usize, now: Instant) -> (u64, u64) {
        let mut evicted_entry_count = 0u64;
        let mut evicted_policy_weight = 0u64;
        let time_to_live = &self.time_to_live;

        for _ in 0..batch_size {
            let key = self
                .deques
                .write_order
                .peek_front()
                .and_then(|node| {
                    if Self::is_expired_entry_wo(time_to_live, node, now) {
                        Some(Some(Rc::clone(&node.element.key)))
                    } else {
                        None
                    }
                })
                .unwrap_or_default();

            if key.is_none() {
                break;
            }

            let key = key.unwrap();

            if let Some(mut entry) = self.cache.remove(&key) {
                let weight = entry.policy_weight();
                self.deques.unlink_ao(&mut entry);
                Deques::unlink_wo(&mut self.deques.write_order, &mut entry);
                evicted_entry_count += 1;
                evicted_policy_weight = evicted_policy_weight.saturating_sub(weight as u64);
            } else {
                self.deques.write_order.pop_front();
            }
        }

        (evicted_entry_count, evicted_policy_weight)
    }

    #[inline]
    fn evict_lru_entries(&mut self) {
        const DEQ_NAME: &'static str = "probation";

        let weights_to_evict = self.weights_to_evict();
        let mut evicted_count = 0u64;
        let mut evicted_policy_weight = 0u64;

        {
            let deqs = &mut self.deques;
            let (probation, wo, cache) =
                (&mut deqs.probation, &mut deqs.write_order, &mut self.cache);

            for _ in 0..EVICTION_BATCH_SIZE {
                if evicted_policy_weight >= weights_to_evict {
                    break;
                }

                // clippy::map_clone will give us a false positive warning here.
                // Version: clippy 0.1.77 (f2048098a1c 2024-02-09) in Rust 1.77.0-beta.2
                #[allow(clippy::map_clone)]
                let key = probation
                    .peek_front()
                    .map(|node| Rc::clone(&node.element.key));

                if key.is_none() {
                    break;
                }
                let key = key.unwrap();

                if let Some(mut entry) = cache.remove(&key) {
                    let weight = entry.policy_weight();
                    Deques::unlink_ao_from_deque(DEQ_NAME, probation, &mut entry);
                    Deques::unlink_wo(wo, &mut entry);
                    evicted_count += 1;
                    evicted_policy_weight = evicted_policy_weight.saturating_add(weight as u64);
                } else {
                    probation.pop_front();
                }
            }
        }

        self.entry_count -= evicted_count;
        self.saturating_sub_from_total_weight(evicted_policy_weight);
    }

    #[inline]
    fn enable_frequency_sketch(&mut self) {
        if let Some(max_cap) = self.max_capacity {
            let cap = if self.weigher.is_none() {
                max_cap
            } else {
                (self.entry_count as f64 * (self.weighted_size as f64 / max_cap as f64)) as u64
            };
            self.do_enable_frequency_sketch(cap);
        }
    }

    #[inline]
    fn do_enable_frequency_sketch(&mut self, cache_capacity: u64) {
        let skt_capacity = common::sketch_capacity(cache_capacity);
        self.frequency_sketch.ensure_capacity(skt_capacity);
        self.frequency_sketch_enabled = true;
    }

    #[inline]
    fn should_enable_frequency_sketch(&self) -> bool {
        if self.frequency_sketch_enabled {
            false
        } else if let Some(max_cap) = self.max_capacity {
            self.weighted_size >= max_cap / 2
        } else {
            false
        }
    }

    fn has_enough_capacity(&self, candidate_weight: u32, ws: u64) -> bool {
        self.max_capacity
            .map(|limit| ws + candidate_weight as u64 <= limit)
            .unwrap_or(true)
    }

    fn weights_to_evict(&self) -> u64 {
        self.max_capacity
            .map(|limit| self.weighted_size.saturating_sub(limit))
            .unwrap_or_default()
    }

    fn saturating_add_to_total_weight(&mut self, weight: u64) {
        let total = &mut self.weighted_size;
        *total = total.saturating_add(weight);
    }

    fn saturating_sub_from_total_weight(&mut self, weight: u64) {
        let total = &mut self.weighted_size;
        *total = total.saturating_sub(weight);
    }

    #[inline]
    fn has_expiry(&self) -> bool {
        self.time_to_live.is_some() || self.time_to_idle.is_some()
    }

    #[inline]
    fn evict_expired_if_needed(&mut self) -> Option<Instant> {
        if self.has_expiry() {
            let ts = self.current_time_from_expiration_clock();
            self.evict_expired(ts);
            Some(ts)
        } else {
            None
        }
    }

    #[inline]
    fn current_time_from_expiration_clock(&self) -> Instant {
        if let Some(clock) = &self.expiration_clock {
            Instant::new(clock.now())
        } else {
            Instant::now()
        }
    }
}

#[derive(Default)]
struct EntrySizeAndFrequency {
    weight: u64,
    freq: u32,
}

impl EntrySizeAndFrequency {
    fn new(policy_weight: u64) -> Self {
        Self {
            weight: policy_weight,
            ..Default::default()
        }
    }

    fn add_policy_weight<K, V>(&mut self, key: &K, value: &V, weigher: &mut Option<Weigher<K, V>>) {
        self.weight += weigh(weigher, key, value) as u64;
    }

    fn add_frequency(&mut self, freq: &FrequencySketch, hash: u64) {
        self.freq += freq.frequency(hash) as u32;
    }
}

// Access-Order Queue Node
type AoqNode<K> = NonNull<DeqNode<KeyHashDate<K>>>;

#[verifier::reject_recursive_types(K)]
enum AdmissionResult<K> {
    Admitted {
        victim_nodes: SmallVec<[AoqNode<K>; 8]>,
        victims_weight: u64,
    },
    Rejected,
}

#[inline]
#[verifier::external_body]
fn weigh<K, V>(weigher: &mut Option<Weigher<K, V>>, key: &K, value: &V) -> u32 {
    unimplemented!()
}

}
fn main() {}
