// BOUNDED runtime stand-in for the concurrent cache in SEQUENTIAL histories (never counted as proved; no interleavings).
//
// Child module of `src/sync/cache.rs` in a scratch copy (its helper `verif_rt_sync_peek` is a child of base_cache.rs).
// Regime A ("maintenance after every operation"): after each operation `sync()` is called and the physical state (DashMap,
//   both lists, stamps, published counters, watermark, estimator read-outs) is compared with an executable specification
//   of the operation + maintenance run, applied to the previous physical state.
// Regime B (arbitrary sync placement, including none): property-level oracles only: a lookup hit must be the latest value of
//   a key that is neither invalidated nor expired (C01/C05/C06/C07); after every explicit `sync()` the published counters must
//   equal what the map physically holds (C10) and lists and map must correspond one to one (C11/C08).
//
// Output protocol:  RT-FAIL tags=.. what=.. cfg=.. failing_op_index=.. history=..   /   RT-SUMMARY ..
use super::*;
use crate::common::frequency_sketch::FrequencySketch;
use crate::common::time::{CheckedTimeOps, Clock, Instant};
use crate::sync::base_cache::verif_rt_sync_peek::{peek, Peek, PROBES};
use std::hash::{BuildHasher, Hasher};
use std::time::Duration;

#[derive(Clone, Default)]
pub struct IdBuild;
pub struct IdHasher(u64);
impl Hasher for IdHasher {
    fn finish(&self) -> u64 { self.0 }
    fn write(&mut self, bytes: &[u8]) { for b in bytes { self.0 = (self.0 << 8) | *b as u64; } }
    fn write_u8(&mut self, i: u8) { self.0 = i as u64; }
}
impl BuildHasher for IdBuild { type Hasher = IdHasher; fn build_hasher(&self) -> IdHasher { IdHasher(0) } }

type C = Cache<u8, u8, IdBuild>;

#[derive(Clone, Copy, Debug, PartialEq)]
pub struct Cfg { cap: Option<u64>, ttl: Option<u64>, tti: Option<u64>, weigher: Option<u8> }
const WEIGHTS: [[u32; 4]; 3] = [[1, 2, 0, 5], [1, 1, 3, 9], [0, 0, 2, 1]];
fn weight_of(cfg: &Cfg, v: u8) -> u32 { match cfg.weigher { None => 1, Some(t) => WEIGHTS[t as usize][(v % 4) as usize] } }

#[derive(Clone, Copy, Debug, PartialEq)]
pub enum Op { Insert(u8, u8), Get(u8), Contains(u8), Invalidate(u8), InvalidateAll, Iter, Advance(u64), Sync }

#[derive(Clone, PartialEq)]
struct E { key: u8, value: u8, weight: u32, ta: Instant, tm: Instant }
/// physical state in regime A (everything admitted, nothing pending)
#[derive(Clone, PartialEq)]
struct Snap { p: Vec<E>, wo: Vec<u8>, ec: u64, ws: u64, va: Option<Instant>, enabled: bool, freqs: Vec<u8> }

fn add(t: Instant, ns: u64) -> Instant { t.checked_add(Duration::from_nanos(ns)).unwrap() }
fn hidden(cfg: &Cfg, va: Option<Instant>, ta: Instant, tm: Instant, now: Instant) -> bool {
    let wo = va.map_or(false, |v| tm < v) || cfg.ttl.map_or(false, |d| add(tm, d) <= now);
    let ao = va.map_or(false, |v| ta < v) || cfg.tti.map_or(false, |d| add(ta, d) <= now);
    wo || ao
}

fn snap_of(pk: &Peek, errs: &mut Vec<String>, cfg: &Cfg) -> Snap {
    let mut p = Vec::new();
    for k in &pk.p {
        match pk.map.iter().find(|e| e.key == *k) {
            Some(e) => {
                if !e.admitted { errs.push(format!("probation node for key {} whose entry is not admitted", k)); }
                match (e.ta, e.tm) { (Some(ta), Some(tm)) => p.push(E { key: *k, value: e.value, weight: e.weight, ta, tm }), _ => errs.push(format!("entry {} without timestamps", k)) }
            }
            None => errs.push(format!("orphan probation node for key {}", k)),
        }
    }
    if p.len() != pk.map.len() { errs.push(format!("{} map entries but {} probation nodes after maintenance", pk.map.len(), pk.p.len())); }
    if cfg.ttl.is_some() { if pk.wo.len() != pk.map.len() { errs.push(format!("{} map entries but {} write-order nodes after maintenance", pk.map.len(), pk.wo.len())); } }
    else if !pk.wo.is_empty() { errs.push("write-order nodes without time_to_live".into()); }
    for k in &pk.wo { if !pk.map.iter().any(|e| e.key == *k) { errs.push(format!("orphan write-order node for key {}", k)); } }
    if pk.pending_reads != 0 || pk.pending_writes != 0 { errs.push(format!("{} read / {} write records still queued after sync()", pk.pending_reads, pk.pending_writes)); }
    if pk.map.iter().any(|e| e.dirty) { errs.push("DIRTY an entry is still marked dirty after sync() (maintenance will skip it when it evicts or expires)".into()); }
    errs.extend(pk.errs.iter().cloned());
    Snap { p, wo: pk.wo.clone(), ec: pk.ec, ws: pk.ws, va: pk.va, enabled: pk.enabled, freqs: pk.freqs.clone() }
}

struct Spec { cfg: Cfg, sketch: FrequencySketch }
impl Spec {
    fn remove(&self, s: &mut Snap, key: u8) {
        if let Some(i) = s.p.iter().position(|e| e.key == key) {
            let e = s.p.remove(i);
            s.wo.retain(|k| *k != key);
            s.ec = s.ec.wrapping_sub(1);
            s.ws = s.ws.saturating_sub(e.weight as u64);
        }
    }
    /// the tail of a maintenance run: estimator sizing, expiry / invalidation purge (front scans), size eviction
    fn maintenance_tail(&mut self, s: &mut Snap, now: Instant) {
        if let Some(cap) = self.cfg.cap {
            if !s.enabled && s.ws >= cap / 2 {
                let c = if self.cfg.weigher.is_none() { cap } else { (s.ec as f64 * (s.ws as f64 / cap as f64)) as u64 };
                self.sketch.ensure_capacity(crate::common::sketch_capacity(c));
                s.enabled = true;
            }
        }
        let cfg = self.cfg;
        if cfg.ttl.is_some() || cfg.tti.is_some() || s.va.is_some() {
            if cfg.ttl.is_some() {
                for _ in 0..500 {
                    let front = match s.wo.first() { Some(k) => *k, None => break };
                    let e = s.p.iter().find(|e| e.key == front).unwrap().clone();
                    if s.va.map_or(false, |v| e.tm < v) || add(e.tm, cfg.ttl.unwrap()) <= now { self.remove(s, front); } else { break; }
                }
            }
            if cfg.tti.is_some() || s.va.is_some() {
                for _ in 0..500 {
                    let e = match s.p.first() { Some(e) => e.clone(), None => break };
                    if s.va.map_or(false, |v| e.ta < v) || cfg.tti.map_or(false, |d| add(e.ta, d) <= now) { self.remove(s, e.key); } else { break; }
                }
            }
        }
        if let Some(cap) = cfg.cap {
            let to_evict = s.ws.saturating_sub(cap);
            let mut evicted = 0u64;
            for _ in 0..500 {
                if evicted >= to_evict { break; }
                let e = match s.p.first() { Some(e) => e.clone(), None => break };
                self.remove(s, e.key);
                evicted = evicted.saturating_add(e.weight as u64);
            }
        }
    }
    /// one queued read record applied (apply_reads): counted once; a hit never moves the stamp backwards and makes an admitted
    /// entry most recently used
    fn read_record(&mut self, s: &mut Snap, k: u8, hit: bool, ts: Instant) {
        self.sketch.increment(k as u64);
        if hit {
            if let Some(i) = s.p.iter().position(|e| e.key == k) {
                let mut e = s.p.remove(i);
                if e.ta < ts { e.ta = ts; }
                s.p.push(e);
            }
        }
    }
    /// one queued write record of a key that is NOT resident applied (handle_upsert, not-admitted case) against the running counters
    fn fresh_insert_record(&mut self, s: &mut Snap, k: u8, v: u8, ts: Instant) {
        let cfg = self.cfg;
        let w = weight_of(&cfg, v);
        let fresh = E { key: k, value: v, weight: w, ta: ts, tm: ts };
        let fits = match cfg.cap { Some(l) => s.ws + w as u64 <= l, None => true };
        if fits {
            s.p.push(fresh); if cfg.ttl.is_some() { s.wo.push(k); }
            s.ec += 1; s.ws = s.ws.saturating_add(w as u64);
        } else if cfg.cap.map_or(false, |l| w as u64 > l) {
        } else {
            let cf = self.sketch.frequency(k as u64) as u32;
            let mut n = None; let mut acc = 0u64;
            if acc >= w as u64 { n = Some(0); }
            else { for (i, e) in s.p.iter().enumerate() { acc += e.weight as u64; if acc >= w as u64 { n = Some(i + 1); break; } } }
            let admitted = match n { Some(n) => cf > s.p[..n].iter().map(|e| self.sketch.frequency(e.key as u64) as u32).sum::<u32>(), None => false };
            if admitted {
                let victims: Vec<u8> = s.p[..n.unwrap()].iter().map(|e| e.key).collect();
                for vk in victims { self.remove(s, vk); }
                s.p.push(fresh); if cfg.ttl.is_some() { s.wo.push(k); }
                s.ec += 1; s.ws = s.ws.saturating_add(w as u64);
            }
        }
    }
    /// a LATE BATCH: lookups and inserts of keys that are not resident, made while nothing is applied (after the housekeeper's
    /// start-up window), then ONE maintenance run: all read records in order, then all write records in order against the
    /// RUNNING counters, then the tail. `items`: (op, clock reading of the call). Returns the expected lookup answers.
    fn apply_batch(&mut self, s: &mut Snap, items: &[(Op, Instant)], now: Instant) -> String {
        let cfg = self.cfg;
        let mut res = Vec::new();
        let mut reads: Vec<(u8, bool, Instant)> = Vec::new();
        for (op, t) in items {
            if let Op::Get(k) = op {
                let hit = s.p.iter().find(|e| e.key == *k && !hidden(&cfg, s.va, e.ta, e.tm, *t)).map(|e| e.value);
                res.push(match hit { Some(v) => format!("Some({})", v), None => "None".into() });
                reads.push((*k, hit.is_some(), *t));
            }
        }
        for (k, hit, t) in reads { self.read_record(s, k, hit, t); }
        for (op, t) in items {
            if let Op::Insert(k, v) = op {
                if let Some(i) = s.p.iter().position(|e| e.key == *k) {
                    // the write record of an update of a resident (admitted) key: its share of the total is replaced, both stamps
                    // are the reading of the update, it becomes most recently used in both lists
                    let w = weight_of(&cfg, *v);
                    let mut e = s.p.remove(i);
                    let old_w = e.weight;
                    e.value = *v; e.weight = w; e.ta = *t; e.tm = *t;
                    s.p.push(e);
                    if cfg.ttl.is_some() { s.wo.retain(|x| x != k); s.wo.push(*k); }
                    s.ws = s.ws.saturating_sub(old_w as u64).saturating_add(w as u64);
                } else { self.fresh_insert_record(s, *k, *v, *t); }
            }
        }
        self.maintenance_tail(s, now);
        s.freqs = PROBES.iter().map(|h| self.sketch.frequency(*h)).collect();
        res.join(",")
    }
    /// one operation followed by a full maintenance run
    fn apply(&mut self, s: &mut Snap, op: Op, now: Instant) -> String {
        let cfg = self.cfg;
        let res = match op {
            Op::Advance(d) => { self.maintenance_tail(s, add(now, d)); String::new() }
            Op::Sync => { self.maintenance_tail(s, now); String::new() }
            Op::Iter => {
                let mut live: Vec<(u8, u8)> = s.p.iter().filter(|e| !hidden(&cfg, s.va, e.ta, e.tm, now)).map(|e| (e.key, e.value)).collect();
                live.sort();
                self.maintenance_tail(s, now);
                format!("{:?}", live)
            }
            Op::Contains(k) => {
                let r = s.p.iter().any(|e| e.key == k && !hidden(&cfg, s.va, e.ta, e.tm, now));
                self.maintenance_tail(s, now);
                format!("{}", r)
            }
            Op::Get(k) => {
                let hit = s.p.iter().position(|e| e.key == k && !hidden(&cfg, s.va, e.ta, e.tm, now));
                self.sketch.increment(k as u64);
                let r = match hit {
                    Some(i) => { let mut e = s.p.remove(i); e.ta = now; let v = e.value; s.p.push(e); format!("Some({})", v) }
                    None => "None".into(),
                };
                self.maintenance_tail(s, now);
                r
            }
            Op::Invalidate(k) => { self.remove(s, k); self.maintenance_tail(s, now); String::new() }
            Op::InvalidateAll => { s.va = Some(now); self.maintenance_tail(s, now); String::new() }
            Op::Insert(k, v) => {
                let w = weight_of(&cfg, v);
                if let Some(i) = s.p.iter().position(|e| e.key == k) {
                    // the map holds the key (even if it is expired or invalidated but not yet purged): in-place update
                    let mut e = s.p.remove(i);
                    let old_w = e.weight;
                    e.value = v; e.weight = w; e.ta = now; e.tm = now;
                    s.p.push(e);
                    if cfg.ttl.is_some() { s.wo.retain(|x| *x != k); s.wo.push(k); }
                    s.ws = s.ws.saturating_sub(old_w as u64).saturating_add(w as u64);
                } else {
                    let fresh = E { key: k, value: v, weight: w, ta: now, tm: now };
                    let fits = match cfg.cap { Some(l) => s.ws + w as u64 <= l, None => true };
                    if fits {
                        s.p.push(fresh); if cfg.ttl.is_some() { s.wo.push(k); }
                        s.ec += 1; s.ws = s.ws.saturating_add(w as u64);
                    } else if cfg.cap.map_or(false, |l| w as u64 > l) {
                    } else {
                        let cf = self.sketch.frequency(k as u64) as u32;
                        let mut n = None; let mut acc = 0u64;
                        if acc >= w as u64 { n = Some(0); }
                        else { for (i, e) in s.p.iter().enumerate() { acc += e.weight as u64; if acc >= w as u64 { n = Some(i + 1); break; } } }
                        let admitted = match n { Some(n) => cf > s.p[..n].iter().map(|e| self.sketch.frequency(e.key as u64) as u32).sum::<u32>(), None => false };
                        if admitted {
                            let victims: Vec<u8> = s.p[..n.unwrap()].iter().map(|e| e.key).collect();
                            for vk in victims { self.remove(s, vk); }
                            s.p.push(fresh); if cfg.ttl.is_some() { s.wo.push(k); }
                            s.ec += 1; s.ws = s.ws.saturating_add(w as u64);
                        }
                    }
                }
                self.maintenance_tail(s, now);
                String::new()
            }
        };
        s.freqs = PROBES.iter().map(|h| self.sketch.frequency(*h)).collect();
        res
    }
}

pub struct Finding { pub tags: &'static str, pub what: String }

fn classify(op: Op, cfg: &Cfg, exp: &Snap, got: &Snap, exp_res: &str, got_res: &str, errs: &[String]) -> Option<Finding> {
    let observer = matches!(op, Op::Contains(_) | Op::Iter);
    let expiry = cfg.ttl.is_some() || cfg.tti.is_some();
    if !errs.is_empty() {
        let dirty_only = errs.iter().all(|e| e.starts_with("DIRTY"));
        return Some(Finding { tags: if dirty_only { "C12,C05,C06,C11,C04" } else { "C11,C08,C10" }, what: format!("list/map structure after maintenance: {}", errs.join("; ")) });
    }
    if exp_res != got_res { return Some(Finding { tags: if expiry { "C01,C05,C06,C03,C07" } else { "C01,C03,C07" }, what: format!("result of {:?}: expected {} got {}", op, exp_res, got_res) }); }
    // C01: after insert(k, v) the cache holds v under k or nothing, never an older value
    if let Op::Insert(k, v) = op {
        if let Some(e) = got.p.iter().find(|e| e.key == k) {
            if e.value != v { return Some(Finding { tags: "C01,C03", what: format!("after {:?} + maintenance the cache still holds the older value {} under that key", op, e.value) }); }
        }
    }
    if exp.va != got.va { return Some(Finding { tags: "C07", what: format!("invalidate_all watermark after {:?} differs from the specification", op) }); }
    let ek: Vec<u8> = { let mut v: Vec<u8> = exp.p.iter().map(|e| e.key).collect(); v.sort(); v };
    let gk: Vec<u8> = { let mut v: Vec<u8> = got.p.iter().map(|e| e.key).collect(); v.sort(); v };
    if ek != gk {
        let missing: Vec<&u8> = ek.iter().filter(|k| !gk.contains(k)).collect();
        let extra: Vec<&u8> = gk.iter().filter(|k| !ek.contains(k)).collect();
        let tags = match op {
            Op::Insert(..) if !missing.is_empty() => "C03,C12,C13",
            Op::Insert(..) => "C04,C12,C13",
            Op::Invalidate(_) | Op::InvalidateAll => "C07,C01,C11",
            _ if !missing.is_empty() => if observer { "C03,C15" } else { "C03" },
            _ => if expiry || got.va.is_some() { "C05,C06,C07,C11,C04" } else { "C04,C12" },
        };
        return Some(Finding { tags, what: format!("residents after {:?} + maintenance: expected {:?} got {:?} (missing {:?}, unexpected {:?})", op, ek, gk, missing, extra) });
    }
    if exp.p.iter().map(|e| e.key).collect::<Vec<_>>() != got.p.iter().map(|e| e.key).collect::<Vec<_>>() {
        return Some(Finding { tags: if observer { "C12,C15,C13" } else { "C12,C13" }, what: format!("recency order after {:?}: expected {:?} got {:?}", op,
            exp.p.iter().map(|e| e.key).collect::<Vec<_>>(), got.p.iter().map(|e| e.key).collect::<Vec<_>>()) });
    }
    for (a, b) in exp.p.iter().zip(got.p.iter()) {
        if a.value != b.value { return Some(Finding { tags: "C01", what: format!("value of key {} after {:?}: expected {} got {}", a.key, op, a.value, b.value) }); }
        if a.weight != b.weight { return Some(Finding { tags: "C10,C04", what: format!("stored weight of key {} after {:?}: expected {} got {}", a.key, op, a.weight, b.weight) }); }
        if a.ta != b.ta { return Some(Finding { tags: if observer { "C06,C15,C03" } else { "C06,C03" }, what: format!("last-accessed time of key {} after {:?} differs from the specification", a.key, op) }); }
        if a.tm != b.tm { return Some(Finding { tags: if observer { "C05,C15,C03" } else { "C05,C03" }, what: format!("last-modified time of key {} after {:?} differs from the specification", a.key, op) }); }
    }
    if exp.wo != got.wo { return Some(Finding { tags: "C05,C11", what: format!("write-order list after {:?}: expected {:?} got {:?}", op, exp.wo, got.wo) }); }
    if got.ec != got.p.len() as u64 { return Some(Finding { tags: "C10", what: format!("entry_count {} but {} entries held after {:?} + maintenance", got.ec, got.p.len(), op) }); }
    let held: u64 = got.p.iter().map(|e| e.weight as u64).sum();
    if got.ws != held { return Some(Finding { tags: "C10,C03,C04", what: format!("weighted_size {} but resident weight {} after {:?} + maintenance", got.ws, held, op) }); }
    if exp.freqs != got.freqs || exp.enabled != got.enabled {
        return Some(Finding { tags: if observer { "C14,C15,C13" } else { "C14,C13" }, what: format!("popularity estimates after {:?}: expected {:?} got {:?}", op, exp.freqs, got.freqs) });
    }
    None
}

/// C17 "initial_capacity has no observable effect": the bounded caches of capacity 3 and 6 are built WITH a capacity hint; the
/// specification knows nothing about it. When a finding shows up in such a configuration the history is run again with the hint
/// switched off: no finding then means the hint itself is observable, which is reported as a C17 finding of its own.
static HINT_OFF: std::sync::atomic::AtomicBool = std::sync::atomic::AtomicBool::new(false);
fn has_hint(cfg: &Cfg) -> bool { cfg.cap == Some(3) || cfg.cap == Some(6) }
fn build(cfg: Cfg) -> (C, std::sync::Arc<crate::common::time::clock::Mock>) {
    let mut b = Cache::builder();
    if has_hint(&cfg) && !HINT_OFF.load(std::sync::atomic::Ordering::Relaxed) { b = b.initial_capacity(40); }
    if let Some(c) = cfg.cap { b = b.max_capacity(c); }
    if let Some(d) = cfg.ttl { b = b.time_to_live(Duration::from_nanos(d)); }
    if let Some(d) = cfg.tti { b = b.time_to_idle(Duration::from_nanos(d)); }
    if let Some(t) = cfg.weigher { b = b.weigher(move |_k: &u8, v: &u8| WEIGHTS[t as usize][(*v % 4) as usize]); }
    let c: C = b.build_with_hasher(IdBuild);
    let (clock, mock) = Clock::mock();
    c.set_expiration_clock(Some(clock));
    (c, mock)
}

fn exec(c: &C, mock: &crate::common::time::clock::Mock, op: Op) -> String {
    match op {
        Op::Insert(k, v) => { c.insert(k, v); String::new() }
        Op::Get(k) => match c.get(&k) { Some(v) => format!("Some({})", v), None => "None".into() },
        Op::Contains(k) => format!("{}", c.contains_key(&k)),
        Op::Invalidate(k) => { c.invalidate(&k); String::new() }
        Op::InvalidateAll => { c.invalidate_all(); String::new() }
        Op::Iter => { let mut v: Vec<(u8, u8)> = c.iter().map(|e| (*e.key(), *e.value())).collect(); let n = v.len(); v.sort(); v.dedup();
                      if v.len() != n { "iteration yielded a key twice".into() } else { format!("{:?}", v) } }
        Op::Advance(ns) => { mock.increment(Duration::from_nanos(ns)); String::new() }
        Op::Sync => { c.sync(); String::new() }
    }
}

fn policy_mismatch(c: &C, cfg: &Cfg) -> Option<(usize, Finding)> {
    let pol = c.policy();
    if pol.max_capacity() != cfg.cap || pol.time_to_live() != cfg.ttl.map(Duration::from_nanos) || pol.time_to_idle() != cfg.tti.map(Duration::from_nanos) {
        return Some((0, Finding { tags: "C17,C05,C06,C04", what: format!("policy() reports ({:?}, {:?}, {:?})", pol.max_capacity(), pol.time_to_live(), pol.time_to_idle()) }));
    }
    None
}

/// regime A
pub fn run_history_a(cfg: Cfg, ops: &[Op]) -> Option<(usize, Finding)> {
    let (c, mock) = build(cfg);
    if let Some(f) = policy_mismatch(&c, &cfg) { return Some(f); }
    let mut spec = Spec { cfg, sketch: FrequencySketch::default() };
    let mut errs = Vec::new();
    c.sync();
    let mut cur = snap_of(&peek(&c.base), &mut errs, &cfg);
    {   // the very first maintenance run on the empty cache (it may already size the estimator)
        let mut exp = Snap { p: Vec::new(), wo: Vec::new(), ec: 0, ws: 0, va: None, enabled: false, freqs: Vec::new() };
        let now = c.base.current_time_from_expiration_clock();
        spec.apply(&mut exp, Op::Sync, now);
        if let Some(f) = classify(Op::Sync, &cfg, &exp, &cur, "", "", &errs) { return Some((0, f)); }
    }
    for (i, op) in ops.iter().enumerate() {
        let now = c.base.current_time_from_expiration_clock();
        let mut exp = cur.clone();
        let exp_res = spec.apply(&mut exp, *op, now);
        let got_res = exec(&c, &mock, *op);
        c.sync();
        let mut errs = Vec::new();
        let got = snap_of(&peek(&c.base), &mut errs, &cfg);
        if let Some(f) = classify(*op, &cfg, &exp, &got, &exp_res, &got_res, &errs) { return Some((i, f)); }
        cur = got;
    }
    None
}

/// regime C ("late batches"): after the housekeeper's start-up window nothing is applied until `sync()`. `Op::Sync` ends a batch.
/// A batch of lookups and inserts of NON-RESIDENT, pairwise different keys is compared with the executable specification of one
/// maintenance run over the whole batch (`Spec::apply_batch`: reads in order, then writes in order against the running counters);
/// every other operation is a batch of its own (operation, then `sync()`), as in regime A. Overwrites of resident keys are kept
/// single so that the known-broken pending-update window (KF-SYNC-1) stays closed.
pub fn run_history_c(cfg: Cfg, ops: &[Op]) -> Option<(usize, Finding)> {
    let (c, mock) = build(cfg);
    mock.increment(Duration::from_secs(1));
    let mut spec = Spec { cfg, sketch: FrequencySketch::default() };
    let mut errs = Vec::new();
    c.sync();
    let mut cur = snap_of(&peek(&c.base), &mut errs, &cfg);
    {
        let mut exp = Snap { p: Vec::new(), wo: Vec::new(), ec: 0, ws: 0, va: None, enabled: false, freqs: Vec::new() };
        let now = c.base.current_time_from_expiration_clock();
        spec.apply(&mut exp, Op::Sync, now);
        if let Some(f) = classify(Op::Sync, &cfg, &exp, &cur, "", "", &errs) { return Some((0, f)); }
    }
    let mut i = 0usize;
    while i < ops.len() {
        // the longest prefix that is a proper batch
        // shape of a batch: lookups anywhere (but not of a key written earlier in the batch), then updates of pairwise different
        // RESIDENT keys, then inserts of pairwise different non-resident keys. Records are applied in call order, so every update
        // is applied (its in-flight flag cleared) before an admission of the same run can select victims: the known-broken
        // pending-update window (KF-SYNC-1) stays closed.
        let mut j = i; let mut inserted: Vec<u8> = Vec::new(); let mut fresh_seen = false;
        while j < ops.len() && j - i < 40 {
            match ops[j] {
                Op::Get(k) if !inserted.contains(&k) => {}
                Op::Insert(k, _) if !inserted.contains(&k) && !cur.p.iter().any(|e| e.key == k) => { inserted.push(k); fresh_seen = true; }
                Op::Insert(k, _) if !inserted.contains(&k) && !fresh_seen && cur.p.iter().any(|e| e.key == k) => inserted.push(k),
                Op::Advance(_) => {}
                _ => break,
            }
            j += 1;
        }
        if j == i || inserted.is_empty() {
            // a single operation followed by maintenance (regime A step); a `Sync` alone is just a maintenance run
            let op = ops[i];
            let now = c.base.current_time_from_expiration_clock();
            let mut exp = cur.clone();
            let exp_res = spec.apply(&mut exp, op, now);
            let got_res = exec(&c, &mock, op);
            c.sync();
            let mut errs = Vec::new();
            let got = snap_of(&peek(&c.base), &mut errs, &cfg);
            if let Some(f) = classify(op, &cfg, &exp, &got, &exp_res, &got_res, &errs) { return Some((i, f)); }
            cur = got; i += 1;
            continue;
        }
        let mut items: Vec<(Op, Instant)> = Vec::new();
        let mut got_res: Vec<String> = Vec::new();
        for op in &ops[i..j] {
            let t = c.base.current_time_from_expiration_clock();
            let r = exec(&c, &mock, *op);
            if let Op::Get(_) = op { got_res.push(r); }
            items.push((*op, t));
        }
        let now = c.base.current_time_from_expiration_clock();
        c.sync();
        let mut exp = cur.clone();
        let exp_res = spec.apply_batch(&mut exp, &items, now);
        let mut errs = Vec::new();
        let got = snap_of(&peek(&c.base), &mut errs, &cfg);
        // classified as the admission of the batch's last new key (residents: C03 / C04 / C12 / C13; order: C12 / C13; ...)
        let rep = items.iter().rev().map(|(o, _)| *o).find(|o| matches!(o, Op::Insert(..))).unwrap();
        if let Some(mut f) = classify(rep, &cfg, &exp, &got, &exp_res, &got_res.join(","), &errs) {
            f.what = format!("after a batch of {} operations applied by one maintenance run: {}", j - i, f.what);
            return Some((j - 1, f));
        }
        cur = got; i = j;
    }
    None
}

/// regime B: arbitrary sync placement; history-level reference model of what a lookup may return
pub fn run_history_b(cfg: Cfg, ops: &[Op]) -> Option<(usize, Finding)> { run_history_b2(cfg, ops, false) }
/// `late`: leave the housekeeper's start-up window first. For the first 500 ms after construction every operation runs pending
/// maintenance by itself (`Housekeeper::should_apply`); only after that do read and write records really stay queued until
/// an explicit sync() (or 64 of them pile up). Both situations are explored.
pub fn run_history_b2(cfg: Cfg, ops: &[Op], late: bool) -> Option<(usize, Finding)> {
    let (c, mock) = build(cfg);
    if late { mock.increment(Duration::from_secs(1)); }
    let mut written: Vec<u8> = Vec::new();
    // the write records still queued, oldest first: (key, 0 = first write of a key that was not in the map, 1 = overwrite, 2 = removal)
    let mut queue: Vec<(u8, u8)> = Vec::new();
    // reference: key -> (value, weight, last write reading, last access reading, last access reading that maintenance is
    // known to have applied). C03: "on the concurrent cache the idle-timer extension of a get is only guaranteed once pending
    // maintenance has run": a hit may rely on the latest access (soundness, C06), a live entry must be returned only on the
    // strength of the accesses an explicit sync() has applied (completeness, C03)
    let mut refm: Vec<Option<(u8, u32, Instant, Instant, Instant)>> = vec![None; 256];
    let mut va: Option<Instant> = None;
    for (i, op) in ops.iter().enumerate() {
        let now = c.base.current_time_from_expiration_clock();
        let legit = |k: u8, refm: &Vec<Option<(u8, u32, Instant, Instant, Instant)>>| -> Option<u8> {
            match refm[k as usize] { Some((v, _w, tm, ta, _)) if !hidden(&cfg, va, ta, tm, now) => Some(v), _ => None }
        };
        let surely_live = |k: u8, refm: &Vec<Option<(u8, u32, Instant, Instant, Instant)>>| -> Option<u8> {
            match refm[k as usize] { Some((v, _w, tm, _, ta_applied)) if !hidden(&cfg, va, ta_applied, tm, now) => Some(v), _ => None }
        };
        let mut sync_after = false;
        let mut q_before: Vec<(u8, u8)> = Vec::new();
        if let Op::Insert(k, _) | Op::Invalidate(k) = *op {
            let pk0 = peek(&c.base);
            let n = pk0.pending_writes.min(queue.len());
            queue = queue[queue.len() - n..].to_vec();
            q_before = queue.clone();
            let present = pk0.map.iter().any(|e| e.key == k);
            match *op { Op::Insert(..) => queue.push((k, if present { 1 } else { 0 })), _ => { if present { queue.push((k, 2)); } } }
        }
        if let Op::Sync = *op { queue.clear(); }
        if late {
            // The window "an entry of the map has been overwritten (its shared EntryInfo already carries the new weight and
            // stamps) but the write record is still queued" is where the concurrent cache is known to be broken (family
            // KF-SYNC-1, DESIGN.md section 6: a maintenance step that removes such an entry gives back the wrong weight, the
            // queued record later re-admits nodes for a key that is gone, an older record's rejection removes the newer entry).
            // Outside the start-up window nothing runs maintenance inside `insert`, so the harness cannot recognise the family
            // by its runtime observation. This regime therefore keeps that window closed -- an insert that OVERWRITES a map entry
            // is wrapped in maintenance runs, and so is a second write of a key whose first write is still queued (also
            // after an invalidate: the older record's rejection would remove the newer entry) -- and explores everything else
            // that can stay queued: reads, first writes, removals, re-inserts after an applied write, several keys.
            match *op {
                Op::Insert(k, _) => {
                    let overwrite = peek(&c.base).map.iter().any(|e| e.key == k);
                    if overwrite || written.contains(&k) { c.sync(); written.clear(); sync_after = overwrite; }
                    if !overwrite { written.push(k); }
                }
                // a bounded cache selects victims BY KEY: the old node of an invalidated key whose removal record is still queued would
                // resolve to the re-inserted (newer, not yet admitted) entry and remove it -- the same family; unbounded caches
                // never select victims, there the re-insert may stay queued
                Op::Invalidate(k) => { if cfg.cap.is_some() { written.push(k); } }
                Op::Sync => { written.clear(); }
                _ => {}
            }
        }
        let before = if matches!(*op, Op::Contains(_) | Op::Iter) { Some(peek(&c.base)) } else { None };
        let got = exec(&c, &mock, *op);
        if let Some(b) = before {
            // C15: contains_key and iteration are pure observations: neither the physical state nor the queued maintenance changes
            let a = peek(&c.base);
            let same = a.p == b.p && a.wo == b.wo && a.ec == b.ec && a.ws == b.ws && a.freqs == b.freqs && a.pending_reads == b.pending_reads && a.pending_writes == b.pending_writes
                && a.map.len() == b.map.len() && a.map.iter().zip(b.map.iter()).all(|(x, y)| x.key == y.key && x.value == y.value && x.weight == y.weight && x.ta == y.ta && x.tm == y.tm && x.admitted == y.admitted && x.dirty == y.dirty);
            if !same { return Some((i, Finding { tags: if a.pending_reads != b.pending_reads || a.freqs != b.freqs { "C15,C14" } else { "C15" }, what: format!("{:?} changed the state of the cache or its queued maintenance ({} -> {} queued reads, {} -> {} queued writes)", op, b.pending_reads, a.pending_reads, b.pending_writes, a.pending_writes) })); }
        }
        match *op {
            Op::Insert(k, v) => {
                refm[k as usize] = Some((v, weight_of(&cfg, v), now, now, now));
                // KNOWN FAMILY KF-SYNC-1 (see known_findings.txt, DESIGN.md section 6): `insert` writes the map, then runs pending
                // maintenance, then queues its write record. If that maintenance run removes the entry just written (expired
                // at once, evicted, picked as a victim, or hit by an older queued rejection of the same key) the queued record
                // later corrupts the counters, leaves orphan list nodes and the insert is lost. Observable right here: the
                // entry written by this call is already gone (or is not ours) when the call returns.
                let pk = peek(&c.base);
                if !pk.map.iter().any(|e| e.key == k && e.value == v) {
                    // What the family covers on the pinned code: the entry expires at once (a zero duration), or a queued record
                    // makes an admission / rejection decision (a first write of any key) or belongs to the same key (it clears
                    // the dirty flag that protects the new entry from size eviction). Without any of these nothing in the
                    // unchanged maintenance can select an entry whose update is in flight: that is a different defect.
                    let family = cfg.ttl == Some(0) || cfg.tti == Some(0) || q_before.iter().any(|(qk, kind)| *kind == 0 || (*qk == k && *kind != 2));
                    if family {
                        return Some((i, Finding { tags: "C03,C10,C11", what: format!("pattern=KF-SYNC-1 the entry written by insert({}, {}) was removed by the maintenance run inside the same call, before its write record was queued", k, v) }));
                    }
                    return Some((i, Finding { tags: "C03,C10,C11,C12,C04", what: format!("the entry written by insert({}, {}) was removed by the maintenance run inside the same call although no queued record could select it (queued before the call: {:?}; no zero duration): an entry whose update is in flight was evicted", k, v, q_before) }));
                }
            }
            Op::Invalidate(k) => { refm[k as usize] = None; }
            Op::InvalidateAll => { va = Some(now); }
            Op::Get(k) => {
                // soundness: a hit must be the latest value of a key that is neither invalidated nor expired
                if got != "None" {
                    match legit(k, &refm) { Some(v) if got == format!("Some({})", v) => { if let Some(e) = refm[k as usize].as_mut() { e.3 = now; } }
                        other => return Some((i, Finding { tags: "C01,C05,C06,C07", what: format!("get({}) returned {} but the reference allows {:?}", k, got, other) })) }
                } else if cfg.cap.is_none() && surely_live(k, &refm).is_some() {
                    return Some((i, Finding { tags: "C03,C01,C07", what: format!("get({}) returned None for a live entry of an unbounded cache", k) }));
                }
            }
            Op::Contains(k) => {
                if got == "true" && legit(k, &refm).is_none() { return Some((i, Finding { tags: "C01,C05,C06,C07", what: format!("contains_key({}) is true but the reference holds no live entry", k) })); }
                if got == "false" && cfg.cap.is_none() && surely_live(k, &refm).is_some() { return Some((i, Finding { tags: "C03,C01,C07", what: format!("contains_key({}) is false for a live entry of an unbounded cache", k) })); }
            }
            Op::Iter => {
                if got.starts_with("iteration") { return Some((i, Finding { tags: "C01,C08", what: got })); }
                let live: Vec<(u8, u8)> = (0..=255u8).filter_map(|k| legit(k, &refm).map(|v| (k, v))).collect();
                // every yielded pair must be live; for an unbounded cache every live pair must be yielded
                let yielded: Vec<(u8, u8)> = { let mut v = Vec::new(); let s = got.trim_matches(|ch| ch == '[' || ch == ']');
                    for part in s.split("), (") { let t = part.trim_matches(|ch| ch == '(' || ch == ')'); if t.is_empty() { continue; }
                        let mut it = t.split(", "); let a: u8 = it.next().unwrap().parse().unwrap(); let b: u8 = it.next().unwrap().parse().unwrap(); v.push((a, b)); } v };
                for y in &yielded { if !live.contains(y) { return Some((i, Finding { tags: "C01,C05,C06,C07", what: format!("iteration yielded {:?} which is not a live entry", y) })); } }
                let sure: Vec<(u8, u8)> = (0..=255u8).filter_map(|k| surely_live(k, &refm).map(|v| (k, v))).collect();
                if cfg.cap.is_none() { for l in &sure { if !yielded.contains(l) { return Some((i, Finding { tags: "C03,C01,C07", what: format!("iteration did not yield the live entry {:?}", l) })); } } }
            }
            Op::Sync => {
                for e in refm.iter_mut().flatten() { e.4 = e.3; }
                let pk = peek(&c.base);
                let mut errs = Vec::new();
                let s = snap_of(&pk, &mut errs, &cfg);
                if !errs.is_empty() { return Some((i, Finding { tags: if errs.iter().all(|e| e.starts_with("DIRTY")) { "C12,C05,C06,C11,C04" } else { "C11,C08,C10" }, what: format!("after sync(): {}", errs.join("; ")) })); }
                let held: u64 = pk.map.iter().map(|e| e.weight as u64).sum();
                if pk.ec != pk.map.len() as u64 { return Some((i, Finding { tags: "C10", what: format!("entry_count {} but the map holds {} entries after sync()", pk.ec, pk.map.len()) })); }
                if pk.ws != held { return Some((i, Finding { tags: "C10,C03,C04", what: format!("weighted_size {} but the map holds weight {} after sync()", pk.ws, held) })); }
                if let Some(cap) = cfg.cap {
                    // C04: after maintenance the resident weight is within capacity unless the last batch was cut at 500 (never here)
                    if held > cap { return Some((i, Finding { tags: "C04", what: format!("resident weight {} above max_capacity {} after sync()", held, cap) })); }
                }
                let _ = s;
            }
            Op::Advance(_) => {}
        }
        if sync_after { c.sync(); for e in refm.iter_mut().flatten() { e.4 = e.3; } }
    }
    None
}

fn all_ops(keys: u8, vals: u8, with_sync: bool) -> Vec<Op> {
    let mut v = Vec::new();
    for k in 0..keys { for x in 0..vals { v.push(Op::Insert(k, x)); } v.push(Op::Get(k)); v.push(Op::Contains(k)); v.push(Op::Invalidate(k)); }
    v.push(Op::InvalidateAll); v.push(Op::Iter); v.push(Op::Advance(5)); v.push(Op::Advance(10));
    if with_sync { v.push(Op::Sync); v.push(Op::Sync); }
    v
}
fn configs() -> Vec<Cfg> {
    let mut v = Vec::new();
    for cap in [None, Some(0u64), Some(1), Some(2), Some(3), Some(6)] {
        for (ttl, tti) in [(None, None), (Some(10u64), None), (None, Some(10u64)), (Some(15), Some(10)), (Some(0), None)] {
            for weigher in [None, Some(0u8), Some(1), Some(2)] { v.push(Cfg { cap, ttl, tti, weigher }); }
        }
    }
    v
}
struct Rng(u64);
impl Rng { fn next(&mut self) -> u64 { self.0 ^= self.0 << 13; self.0 ^= self.0 >> 7; self.0 ^= self.0 << 17; self.0 } fn below(&mut self, n: usize) -> usize { (self.next() % n as u64) as usize } }

fn shrink(cfg: Cfg, ops: Vec<Op>, tags: &'static str, regime: u8) -> Vec<Op> {
    let run = |o: &[Op]| if regime == 0 { run_history_a(cfg, o) } else if regime == 3 { run_history_c(cfg, o) } else { run_history_b2(cfg, o, regime == 2) };
    let mut cur = ops;
    loop {
        let mut progressed = false;
        for i in 0..cur.len() {
            let mut t = cur.clone(); t.remove(i);
            if let Some((_, f)) = run(&t) { if f.tags == tags { cur = t; progressed = true; break; } }
        }
        if !progressed { return cur; }
    }
}


/// C17 on a grid of configurations: policy() echoes what the builder was given, `new(n)` is `builder().max_capacity(n).build()`,
/// and `build` / `build_with_hasher` panic exactly when a duration exceeds 1000 years
fn config_grid() -> Vec<String> {
    use std::panic::{catch_unwind, AssertUnwindSafe};
    let mut bad = Vec::new();
    let y1000 = Duration::from_secs(1000 * 365 * 24 * 3600);
    let caps = [0u64, 1, 7, 1 << 32, u64::MAX - u32::MAX as u64 - 1, u64::MAX - u32::MAX as u64, u64::MAX - u32::MAX as u64 + 1, u64::MAX - 1, u64::MAX];
    let durs = [None, Some(Duration::from_nanos(0)), Some(Duration::from_nanos(1)), Some(y1000)];
    for cap in caps.iter().map(|c| Some(*c)).chain(std::iter::once(None)) {
        for ttl in durs { for tti in durs { for init in [None, Some(0usize), Some(3)] { for hasher in [false, true] {
            let mk = || { let mut b = Cache::<u8, u8>::builder();
                if let Some(c) = cap { b = b.max_capacity(c); } if let Some(d) = ttl { b = b.time_to_live(d); } if let Some(d) = tti { b = b.time_to_idle(d); }
                if let Some(i) = init { b = b.initial_capacity(i); } b };
            let pol = if hasher { mk().build_with_hasher(IdBuild).policy() } else { mk().build().policy() };
            if pol.max_capacity() != cap || pol.time_to_live() != ttl || pol.time_to_idle() != tti {
                bad.push(format!("builder(cap {:?}, ttl {:?}, tti {:?}, initial {:?}, custom hasher {}) -> policy() reports ({:?}, {:?}, {:?})", cap, ttl, tti, init, hasher, pol.max_capacity(), pol.time_to_live(), pol.time_to_idle()));
            }
        }}}}
        if let Some(c) = cap {
            let p = Cache::<u8, u8>::new(c).policy();
            if p.max_capacity() != Some(c) || p.time_to_live().is_some() || p.time_to_idle().is_some() { bad.push(format!("new({}) -> policy() reports ({:?}, {:?}, {:?})", c, p.max_capacity(), p.time_to_live(), p.time_to_idle())); }
        }
    }
    let over = y1000 + Duration::from_nanos(1);
    let hook = std::panic::take_hook(); std::panic::set_hook(Box::new(|_| {}));
    for (ttl, tti) in [(Some(over), None), (None, Some(over)), (Some(over), Some(over)), (Some(y1000), Some(over))] { for hasher in [false, true] {
        let r = catch_unwind(AssertUnwindSafe(|| { let mut b = Cache::<u8, u8>::builder().max_capacity(10);
            if let Some(d) = ttl { b = b.time_to_live(d); } if let Some(d) = tti { b = b.time_to_idle(d); }
            if hasher { let _ = b.build_with_hasher(IdBuild); } else { let _ = b.build(); } }));
        if r.is_ok() { bad.push(format!("builder(ttl {:?}, tti {:?}, custom hasher {}) did not panic although a duration exceeds 1000 years", ttl, tti, hasher)); }
    }}
    std::panic::set_hook(hook);
    bad
}
/// C08 (bounded: 70 000 calls): per-entry bookkeeping that is shared by all updates of one key (`EntryInfo`) must survive more than
/// 2^16 updates of that key without an internal panic (e.g. a narrow generation counter overflowing), and the counters stay exact.
fn many_updates_of_one_key() -> Vec<String> {
    use std::panic::{catch_unwind, AssertUnwindSafe};
    let mut bad = Vec::new();
    let hook = std::panic::take_hook(); std::panic::set_hook(Box::new(|_| {}));
    let r = catch_unwind(AssertUnwindSafe(|| {
        let c: Cache<u8, u32> = Cache::builder().max_capacity(10).build();
        for i in 0..70_000u32 { c.insert(1, i); if i % 997 == 0 { c.sync(); } }
        c.sync();
        (c.get(&1), c.entry_count(), c.weighted_size())
    }));
    std::panic::set_hook(hook);
    match r {
        Err(_) => bad.push("70 000 updates of one key: the library panicked".to_string()),
        Ok((v, ec, ws)) => if v != Some(69_999) || ec != 1 || ws != 1 { bad.push(format!("70 000 updates of one key: get -> {:?}, entry_count {}, weighted_size {}", v, ec, ws)); }
    }
    bad
}
#[test]
fn verif_rt_sync() {
    let tier = std::env::var("VERIF_RT_TIER").unwrap_or_else(|_| "quick".into());
    let seed: u64 = std::env::var("VERIF_SEED").ok().and_then(|s| s.parse().ok()).unwrap_or(1);
    let (exh_len, rnd_n, rnd_len) = if tier == "thorough" { (3usize, 20_000usize, 40usize) } else { (2usize, 2_500usize, 30usize) };
    let cfgs = configs();
    let mut histories = 0u64; let mut steps = 0u64; let mut findings = 0;
    let mut seen: Vec<(&'static str, u8, bool)> = Vec::new();
    let mut handle = |cfg: Cfg, seq: &[Op], regime: u8, findings: &mut i32, seen: &mut Vec<(&'static str, u8, bool)>| {
        let r = if regime == 0 { run_history_a(cfg, seq) } else if regime == 3 { run_history_c(cfg, seq) } else { run_history_b2(cfg, seq, regime == 2) };
        if let Some((at, f)) = &r {
            if has_hint(&cfg) && !f.what.contains("pattern=KF-") && !seen.contains(&("C17", regime, false)) {
                HINT_OFF.store(true, std::sync::atomic::Ordering::Relaxed);
                let r2 = if regime == 0 { run_history_a(cfg, seq) } else if regime == 3 { run_history_c(cfg, seq) } else { run_history_b2(cfg, seq, regime == 2) };
                HINT_OFF.store(false, std::sync::atomic::Ordering::Relaxed);
                if r2.is_none() {
                    seen.push(("C17", regime, false));
                    println!("RT-FAIL tags=C17 what=[sync cache] initial_capacity(40) has an observable effect: with the hint: {}; the same history on a cache built without the hint shows no finding cfg={:?} failing_op_index={} history={:?}", f.what, cfg, at, &seq[..(*at + 1).min(seq.len())]);
                    *findings += 1;
                }
            }
        }
        if let Some((at, f)) = r {
            // one report per (tags, regime, known-family-or-not): a finding of the known family never hides another one
            let kf = f.what.contains("pattern=KF-");
            if !seen.contains(&(f.tags, regime, kf)) {
                seen.push((f.tags, regime, kf));
                let s = shrink(cfg, seq[..(at + 1).min(seq.len())].to_vec(), f.tags, regime);
                let (at2, f2) = (if regime == 0 { run_history_a(cfg, &s) } else if regime == 3 { run_history_c(cfg, &s) } else { run_history_b2(cfg, &s, regime == 2) }).unwrap();
                println!("RT-FAIL tags={} what=[sync cache, {}] {} cfg={:?} failing_op_index={} history={:?}", f2.tags,
                    match regime { 0 => "maintenance after every operation", 1 => "free sync placement", 3 => "late batches: several lookups and new-key inserts applied by one maintenance run", _ => "free sync placement, after the housekeeper's start-up window" }, f2.what, cfg, at2, &s[..(at2 + 1).min(s.len())]);
                *findings += 1;
            }
        }
    };
    let ops_a = all_ops(3, 3, false);
    let mut idx = vec![0usize; exh_len];
    'outer: loop {
        let seq: Vec<Op> = idx.iter().map(|i| ops_a[*i]).collect();
        for cfg in &cfgs { histories += 1; steps += seq.len() as u64; handle(*cfg, &seq, 0, &mut findings, &mut seen); }
        let mut j = 0;
        loop { idx[j] += 1; if idx[j] < ops_a.len() { break; } idx[j] = 0; j += 1; if j == exh_len { break 'outer; } }
        if findings >= 6 { break; }
    }
    let big_a = all_ops(5, 4, false); let big_b = all_ops(5, 4, true);
    let mut rng = Rng(seed.wrapping_mul(0x9E37_79B9_7F4A_7C15) | 1);
    for n in 0..rnd_n {
        if findings >= 6 { break; }
        let cfg = cfgs[rng.below(cfgs.len())];
        let regime = (n % 4) as u8; let regime = if regime == 3 { 2 } else { regime };
        let regime_a = regime == 0;
        let alphabet = if regime_a { &big_a } else { &big_b };
        let mut seq: Vec<Op> = (0..rnd_len).map(|_| alphabet[rng.below(alphabet.len())]).collect();
        if !regime_a { seq.push(Op::Sync); }
        histories += 1; steps += seq.len() as u64;
        handle(cfg, &seq, regime, &mut findings, &mut seen);
    }
    // late batches (regime C): a random warm-up (single operations, each followed by maintenance), then batches of lookups and
    // new-key inserts that one maintenance run applies together
    let batch_n = if tier == "thorough" { 12_000usize } else { 1_500usize };
    for _ in 0..batch_n {
        if findings >= 6 { break; }
        let cfg = cfgs[rng.below(cfgs.len())];
        let mut seq: Vec<Op> = Vec::new();
        for _ in 0..rng.below(7) {
            let k = rng.below(6) as u8;
            seq.push(match rng.below(4) { 0 | 1 => Op::Insert(k, rng.below(4) as u8), 2 => Op::Get(k), _ => Op::Advance(3) });
            seq.push(Op::Sync);
        }
        for _ in 0..(1 + rng.below(3)) {
            for _ in 0..rng.below(4) { seq.push(Op::Get(rng.below(8) as u8)); }
            if rng.below(2) == 0 { seq.push(Op::Insert(rng.below(6) as u8, rng.below(4) as u8)); if rng.below(3) == 0 { seq.push(Op::Advance(2)); } }
            let first = rng.below(8) as u8;
            for d in 0..(2 + rng.below(3)) { seq.push(Op::Insert((first + d as u8) % 8, rng.below(4) as u8)); if rng.below(5) == 0 { seq.push(Op::Advance(2)); } }
            seq.push(Op::Sync);
            if rng.below(3) == 0 { seq.push(Op::Get(rng.below(8) as u8)); seq.push(Op::Sync); }
        }
        histories += 1; steps += seq.len() as u64;
        handle(cfg, &seq, 3, &mut findings, &mut seen);
    }
    // directed part: invalidate_all followed by a rewrite of the same key, repeated invalidate_all, late-applied reads
    for cfg in &cfgs {
        if findings >= 6 { break; }
        if cfg.cap.is_some() && cfg.cap != Some(6) { continue; }
        for k in 0..2u8 { for v in 0..2u8 { for d in [5u64, 10] {
            let j = 1 - k;
            let templates: Vec<Vec<Op>> = vec![
                vec![Op::Insert(k, v), Op::Advance(d), Op::InvalidateAll, Op::Insert(k, v + 1), Op::Get(k), Op::Contains(k), Op::Iter, Op::Sync, Op::Get(k), Op::Iter],
                vec![Op::Insert(k, v), Op::Advance(d), Op::InvalidateAll, Op::Advance(d), Op::Insert(j, v), Op::Advance(d), Op::InvalidateAll, Op::Get(j), Op::Contains(j), Op::Iter, Op::Sync, Op::Get(j)],
                vec![Op::Insert(k, v), Op::Get(k), Op::Advance(d), Op::Get(k), Op::Sync, Op::Advance(d), Op::Contains(k), Op::Get(k), Op::Sync],
                vec![Op::Insert(k, v), Op::Insert(j, v), Op::Advance(d), Op::InvalidateAll, Op::Sync, Op::Iter, Op::Insert(k, v + 1), Op::Sync, Op::Get(k), Op::Iter],
                vec![Op::Insert(k, v), Op::Sync, Op::Invalidate(k), Op::Get(k), Op::Insert(k, v + 1), Op::Get(k), Op::Sync, Op::Get(k)],
                // a read record still queued when the same key is written again (update / invalidate_all + re-insert / invalidate + re-insert):
                // applied late it must not move the entry's timestamps backwards
                vec![Op::Insert(k, v), Op::Sync, Op::Get(k), Op::Advance(d), Op::Insert(k, v + 1), Op::Sync, Op::Advance(d), Op::Get(k), Op::Contains(k), Op::Iter],
                vec![Op::Insert(k, v), Op::Sync, Op::Get(k), Op::Advance(d), Op::InvalidateAll, Op::Advance(d), Op::Insert(k, v + 1), Op::Sync, Op::Get(k), Op::Contains(k), Op::Iter],
                vec![Op::Insert(k, v), Op::Sync, Op::Get(k), Op::Advance(d), Op::Invalidate(k), Op::Insert(k, v + 1), Op::Sync, Op::Advance(d), Op::Get(k), Op::Contains(k), Op::Iter],
                vec![Op::Insert(k, v), Op::Get(k), Op::Advance(d), Op::Insert(k, v + 1), Op::Advance(d), Op::Sync, Op::Get(k), Op::Iter],
                // the old node of a key is expired / behind the watermark while the key is invalidated and re-inserted before the next maintenance run
                vec![Op::Insert(k, v), Op::Sync, Op::Advance(d), Op::InvalidateAll, Op::Advance(d), Op::Invalidate(k), Op::Insert(k, v + 1), Op::Sync, Op::Get(k), Op::Contains(k), Op::Iter, Op::Sync, Op::Iter],
                vec![Op::Insert(k, v), Op::Insert(j, v), Op::Sync, Op::Advance(10), Op::Invalidate(k), Op::Insert(k, v + 1), Op::Advance(d), Op::Sync, Op::Get(k), Op::Contains(k), Op::Iter, Op::Sync, Op::Iter],
                vec![Op::Insert(k, v), Op::Sync, Op::Advance(d), Op::Get(k), Op::Invalidate(k), Op::Advance(d), Op::Insert(k, v + 1), Op::Insert(j, v), Op::Sync, Op::Get(k), Op::Iter],
            ];
            for t in &templates {
                for regime in [0u8, 1, 2] {
                    let regime_a = regime == 0;
                    let seq: Vec<Op> = if regime_a { t.iter().cloned().filter(|o| *o != Op::Sync).collect() } else { t.clone() };
                    histories += 1; steps += seq.len() as u64;
                    handle(*cfg, &seq, regime, &mut findings, &mut seen);
                }
            }
        }}}
    }
    for b in config_grid() { println!("RT-FAIL tags=C17 what=[sync cache] {} cfg=- failing_op_index=0 history=[]", b); findings += 1; if findings >= 3 { break; } }
    for b in many_updates_of_one_key() { println!("RT-FAIL tags=C08 what=[sync cache] {} cfg=- failing_op_index=0 history=[]", b); findings += 1; }
    println!("RT-SUMMARY harness=sync tier={} seed={} histories={} steps={} configs={} alphabet={} exhaustive_len={} sampled={}x{} findings={}",
        tier, seed, histories, steps, cfgs.len(), ops_a.len(), exh_len, rnd_n, rnd_len, findings);
    assert!(findings == 0, "runtime check of the concurrent cache (sequential histories) found {} violation(s)", findings);
}

/// development aid: enumerate every failing regime-B history of length <= 3 (+ a final Sync) and print its canonical shape
#[test]
#[ignore]
fn verif_rt_sync_survey() {
    let ops = all_ops(2, 4, false);
    let cfgs = configs();
    let mut shapes: std::collections::BTreeMap<String, (usize, String)> = std::collections::BTreeMap::new();
    for len in 1..=3usize {
        let mut idx = vec![0usize; len];
        'outer: loop {
            let mut seq: Vec<Op> = idx.iter().map(|i| ops[*i]).collect();
            seq.push(Op::Sync);
            for cfg in &cfgs {
                if let Some((_at, f)) = run_history_b(*cfg, &seq) {
                    let s = shrink(*cfg, seq.clone(), f.tags, 1);
                    // canonical shape: operation kinds with weights instead of values, keys renamed by first appearance
                    let mut names: Vec<u8> = Vec::new();
                    let shape: Vec<String> = s.iter().map(|o| match o {
                        Op::Insert(k, v) => { if !names.contains(k) { names.push(*k); } format!("Ins(k{},w{})", names.iter().position(|x| x == k).unwrap(), weight_of(cfg, *v)) }
                        Op::Get(k) => { if !names.contains(k) { names.push(*k); } format!("Get(k{})", names.iter().position(|x| x == k).unwrap()) }
                        Op::Contains(k) => { if !names.contains(k) { names.push(*k); } format!("Has(k{})", names.iter().position(|x| x == k).unwrap()) }
                        Op::Invalidate(k) => { if !names.contains(k) { names.push(*k); } format!("Inv(k{})", names.iter().position(|x| x == k).unwrap()) }
                        other => format!("{:?}", other) }).collect();
                    let key = format!("{} | cap={:?} ttl0={} tti0={} | {}", f.tags, cfg.cap, cfg.ttl == Some(0), cfg.tti == Some(0), shape.join(" "));
                    let e = shapes.entry(key).or_insert((0, f.what.clone())); e.0 += 1;
                }
            }
            let mut j = 0;
            loop { idx[j] += 1; if idx[j] < ops.len() { break; } idx[j] = 0; j += 1; if j == len { break 'outer; } }
        }
    }
    for (k, (n, what)) in &shapes { println!("SHAPE n={} {} :: {}", n, k, what); }
    println!("SHAPES {}", shapes.len());
}

