// Helper of the bounded runtime stand-in for the concurrent cache: a child module of `src/sync/base_cache.rs` (so that the
// private fields of `Inner` are visible) that takes a snapshot of the physical state. Attached to a scratch copy only.
use super::*;

pub(crate) struct PE { pub key: u8, pub value: u8, pub weight: u32, pub ta: Option<Instant>, pub tm: Option<Instant>, pub admitted: bool, pub dirty: bool }
pub(crate) struct Peek {
    pub p: Vec<u8>, pub wo: Vec<u8>, pub map: Vec<PE>, pub ec: u64, pub ws: u64, pub va: Option<Instant>, pub enabled: bool,
    pub freqs: Vec<u8>, pub errs: Vec<String>, pub pending_reads: usize, pub pending_writes: usize,
}
pub(crate) const PROBES: [u64; 10] = [0, 1, 2, 3, 4, 5, 17, 255, 256, 0xdead_beef];

pub(crate) fn peek<S>(b: &BaseCache<u8, u8, S>) -> Peek
where S: BuildHasher + Clone + Send + Sync + 'static {
    let i = &b.inner;
    let mut errs = Vec::new();
    let mut map: Vec<PE> = i.cache.iter().map(|r| {
        let e = r.value();
        PE { key: **r.key(), value: e.value, weight: e.policy_weight(), ta: e.last_accessed(), tm: e.last_modified(), admitted: e.is_admitted(), dirty: e.is_dirty() }
    }).collect();
    map.sort_by_key(|e| e.key);
    let deqs = i.deques.lock().expect("lock poisoned");
    let mut p = Vec::new();
    let mut cur = deqs.probation.peek_front_ptr();
    let mut guard = 0;
    while let Some(n) = cur {
        let node = unsafe { n.as_ref() };
        let k = **node.element.key();
        let back = node.element.entry_info().access_order_q_node().map(|t| t.decompose().0.as_ptr() as usize);
        if back != Some(n.as_ptr() as usize) { errs.push(format!("probation node of key {} is not the node its entry info points to", k)); }
        p.push(k);
        cur = DeqNode::next_node_ptr(n);
        guard += 1; if guard > 100_000 { errs.push("probation list does not terminate".into()); break; }
    }
    let mut wo = Vec::new();
    let mut cur = deqs.write_order.peek_front_ptr();
    let mut guard = 0;
    while let Some(n) = cur {
        let node = unsafe { n.as_ref() };
        wo.push(**node.element.key());
        cur = DeqNode::next_node_ptr(n);
        guard += 1; if guard > 100_000 { errs.push("write-order list does not terminate".into()); break; }
    }
    if deqs.window.peek_front().is_some() || deqs.protected.peek_front().is_some() { errs.push("window/protected list not empty".into()); }
    let sk = i.frequency_sketch.read().expect("lock poisoned");
    Peek { p, wo, map, ec: i.entry_count.load(), ws: i.weighted_size.load(), va: i.valid_after.instant(),
           enabled: i.frequency_sketch_enabled.load(Ordering::Acquire), freqs: PROBES.iter().map(|h| sk.frequency(*h)).collect(), errs,
           pending_reads: i.read_op_ch.len(), pending_writes: i.write_op_ch.len() }
}
