// BOUNDED runtime stand-in and replay aid for the single-threaded cache (never counted as proved).
//
// Attached by tools/check.py to a scratch copy of the working tree as a `#[cfg(test)] #[path] mod verif_rt;` child of
// `src/unsync/cache.rs` and run with `cargo test --offline --lib verif_rt`. It executes the REAL cache and, after every
// operation, compares the real post-state (map, both lists, timestamps, counters, estimator read-outs, live key/value
// objects) with the RUNTIME FORM OF THE CONTRACTS of contracts/unsync.rs: an executable specification of each operation
// applied to the real pre-state. Histories are enumerated exhaustively up to a small bound and sampled beyond it
// (VERIF_SEED). It covers what Verus cannot take (`invalidate_entries_if`, `iter`, the closure glue of `evict_expired`)
// and gives failing histories for violations found by the verifier.
//
// Output protocol (one line per finding, at most a few):  RT-FAIL tags=C10,C03 what=<component> cfg=<..> history=<..>
use super::*;
use std::cell::Cell;
use std::hash::Hasher;

// ---------- deterministic hasher (identity): collisions are under the harness' control ----------
#[derive(Clone, Default)]
pub struct IdBuild;
pub struct IdHasher(u64);
impl Hasher for IdHasher {
    fn finish(&self) -> u64 { self.0 }
    fn write(&mut self, bytes: &[u8]) { for b in bytes { self.0 = (self.0 << 8) | *b as u64; } }
    fn write_u8(&mut self, i: u8) { self.0 = i as u64; }
}
impl BuildHasher for IdBuild { type Hasher = IdHasher; fn build_hasher(&self) -> IdHasher { IdHasher(0) } }

// ---------- key / value types that count live objects (C11) ----------
thread_local! { static LIVE_K: Cell<i64> = Cell::new(0); static LIVE_V: Cell<i64> = Cell::new(0); }
/// `.1` = counted (a probe key built for a lookup is not counted)
pub struct CK(u8, bool);
impl CK { fn new(i: u8) -> CK { LIVE_K.with(|c| c.set(c.get() + 1)); CK(i, true) } fn probe(i: u8) -> CK { CK(i, false) } }
impl Drop for CK { fn drop(&mut self) { if self.1 { LIVE_K.with(|c| c.set(c.get() - 1)); } } }
impl PartialEq for CK { fn eq(&self, o: &CK) -> bool { self.0 == o.0 } }
impl Eq for CK {}
impl Hash for CK { fn hash<H: Hasher>(&self, h: &mut H) { h.write_u8(self.0) } }
pub struct CV(u8);
impl CV { fn new(i: u8) -> CV { LIVE_V.with(|c| c.set(c.get() + 1)); CV(i) } }
impl Drop for CV { fn drop(&mut self) { LIVE_V.with(|c| c.set(c.get() - 1)); } }

type C = Cache<CK, CV, IdBuild>;

#[derive(Clone, Copy, Debug, PartialEq)]
pub struct Cfg { cap: Option<u64>, ttl: Option<u64>, tti: Option<u64>, weigher: Option<u8> }
const WEIGHTS: [[u32; 4]; 5] = [[1, 2, 0, 5], [1, 1, 3, 9], [0, 0, 2, 1], [3_000_000_000, 4_294_967_295, 1, 2], [1, 120, 101, 100]];
fn weight_of(cfg: &Cfg, v: u8) -> u32 { match cfg.weigher { None => 1, Some(t) => WEIGHTS[t as usize][(v % 4) as usize] } }

#[derive(Clone, Copy, Debug, PartialEq)]
pub enum Op { Insert(u8, u8), Get(u8), Contains(u8), Invalidate(u8), InvalidateAll, InvalidateIf(u8), Iter, Advance(u64) }

// ---------- snapshot of the real state ----------
#[derive(Clone, PartialEq)]
struct E { key: u8, value: u8, weight: u32, ta: Option<Instant>, tm: Option<Instant> }
#[derive(Clone, PartialEq)]
struct Snap { p: Vec<E>, wo: Vec<u8>, entry_count: u64, weighted_size: u64, enabled: bool, freqs: Vec<u8> }

const PROBES: [u64; 10] = [0, 1, 2, 3, 4, 5, 17, 255, 256, 0xdead_beef];

fn snapshot(c: &C, struct_errs: &mut Vec<String>) -> Snap {
    let mut p = Vec::new();
    let mut cur = c.deques.probation.peek_front_ptr();
    let mut guard = 0;
    while let Some(n) = cur {
        let node = unsafe { n.as_ref() };
        let k = node.element.key.0;
        match c.cache.get(&CK::probe(k)) {
            Some(e) => {
                let mine = e.access_order_q_node().map(|t| t.decompose().0.as_ptr() as usize) == Some(n.as_ptr() as usize);
                if !mine { struct_errs.push(format!("probation node of key {} is not the node its entry points to", k)); }
                p.push(E { key: k, value: e.value.0, weight: e.policy_weight(), ta: e.last_accessed(), tm: e.last_modified() });
            }
            None => struct_errs.push(format!("orphan probation node for key {}", k)),
        }
        cur = DeqNode::next_node_ptr(n);
        guard += 1; if guard > 10_000 { struct_errs.push("probation list does not terminate".into()); break; }
    }
    let mut wo = Vec::new();
    let mut cur = c.deques.write_order.peek_front_ptr();
    let mut guard = 0;
    while let Some(n) = cur {
        let node = unsafe { n.as_ref() };
        let k = node.element.key.0;
        match c.cache.get(&CK::probe(k)) {
            Some(e) => {
                if e.write_order_q_node().map(|t| t.as_ptr() as usize) != Some(n.as_ptr() as usize) {
                    struct_errs.push(format!("write-order node of key {} is not the node its entry points to", k));
                }
            }
            None => struct_errs.push(format!("orphan write-order node for key {}", k)),
        }
        wo.push(k);
        cur = DeqNode::next_node_ptr(n);
        guard += 1; if guard > 10_000 { struct_errs.push("write-order list does not terminate".into()); break; }
    }
    if c.deques.window.peek_front().is_some() || c.deques.protected.peek_front().is_some() { struct_errs.push("window/protected list not empty".into()); }
    if p.len() != c.cache.len() { struct_errs.push(format!("{} map entries but {} probation nodes", c.cache.len(), p.len())); }
    if c.time_to_live.is_some() { if wo.len() != c.cache.len() { struct_errs.push(format!("{} map entries but {} write-order nodes", c.cache.len(), wo.len())); } }
    else if !wo.is_empty() { struct_errs.push("write-order nodes without time_to_live".into()); }
    Snap { p, wo, entry_count: c.entry_count, weighted_size: c.weighted_size, enabled: c.frequency_sketch_enabled,
           freqs: PROBES.iter().map(|h| c.frequency_sketch.frequency(*h)).collect() }
}

// ---------- executable specification (runtime form of the contracts) ----------
struct Spec { cfg: Cfg, sketch: FrequencySketch }

fn add(t: Instant, ns: u64) -> Instant { t.checked_add(Duration::from_nanos(ns)).unwrap() }
fn expired(cfg: &Cfg, e: &E, now: Instant) -> bool {
    (match (cfg.ttl, e.tm) { (Some(d), Some(t)) => add(t, d) <= now, _ => false })
        || (match (cfg.tti, e.ta) { (Some(d), Some(t)) => add(t, d) <= now, _ => false })
}
fn hash_of(k: u8) -> u64 { k as u64 }

impl Spec {
    fn has_expiry(&self) -> bool { self.cfg.ttl.is_some() || self.cfg.tti.is_some() }
    fn remove(&self, s: &mut Snap, key: u8) {
        if let Some(i) = s.p.iter().position(|e| e.key == key) {
            let e = s.p.remove(i);
            s.wo.retain(|k| *k != key);
            s.entry_count = s.entry_count.wrapping_sub(1);
            s.weighted_size = s.weighted_size.saturating_sub(e.weight as u64);
        }
    }
    /// the housekeeping prefix: expiry purge (write-order scan, then access-order scan, each stops at the first live front,
    /// at most 100 each), then size eviction of the shortest sufficient LRU prefix (at most 100)
    fn hk(&self, s: &mut Snap, now: Instant) {
        if self.has_expiry() {
            if self.cfg.ttl.is_some() {
                for _ in 0..100 {
                    let front = match s.wo.first() { Some(k) => *k, None => break };
                    let e = s.p.iter().find(|e| e.key == front).unwrap().clone();
                    if match (self.cfg.ttl, e.tm) { (Some(d), Some(t)) => add(t, d) <= now, _ => false } { self.remove(s, front); } else { break; }
                }
            }
            if self.cfg.tti.is_some() {
                for _ in 0..100 {
                    let e = match s.p.first() { Some(e) => e.clone(), None => break };
                    if match (self.cfg.tti, e.ta) { (Some(d), Some(t)) => add(t, d) <= now, _ => false } { self.remove(s, e.key); } else { break; }
                }
            }
        }
        if let Some(cap) = self.cfg.cap {
            let to_evict = s.weighted_size.saturating_sub(cap);
            let mut evicted = 0u64;
            for _ in 0..100 {
                if evicted >= to_evict { break; }
                let e = match s.p.first() { Some(e) => e.clone(), None => break };
                self.remove(s, e.key);
                evicted = evicted.saturating_add(e.weight as u64);
            }
        }
    }
    fn maybe_enable_sketch(&mut self, s: &mut Snap) {
        if let Some(cap) = self.cfg.cap {
            if !s.enabled && s.weighted_size >= cap / 2 {
                let c = if self.cfg.weigher.is_none() { cap } else { (s.entry_count as f64 * (s.weighted_size as f64 / cap as f64)) as u64 };
                self.sketch.ensure_capacity(common::sketch_capacity(c));
                s.enabled = true;
            }
        }
    }
    /// returns the expected observable result of the operation (as text) and updates `s` to the expected post-state
    fn apply(&mut self, s: &mut Snap, op: Op, now: Instant) -> String {
        let ts = if self.has_expiry() { Some(now) } else { None };
        let res = match op {
            Op::Advance(_) | Op::Iter => {
                if let Op::Iter = op {
                    let mut live: Vec<(u8, u8)> = s.p.iter().filter(|e| !(self.has_expiry() && expired(&self.cfg, e, now))).map(|e| (e.key, e.value)).collect();
                    live.sort();
                    format!("{:?}", live)
                } else { String::new() }
            }
            Op::Contains(k) => {
                self.hk(s, now);
                let r = s.p.iter().any(|e| e.key == k && !(ts.is_some() && expired(&self.cfg, e, now)));
                format!("{}", r)
            }
            Op::Get(k) => {
                self.hk(s, now);
                self.sketch.increment(hash_of(k));
                match s.p.iter().position(|e| e.key == k && !(ts.is_some() && expired(&self.cfg, e, now))) {
                    Some(i) => {
                        let mut e = s.p.remove(i);
                        if ts.is_some() { e.ta = ts; }
                        let v = e.value;
                        s.p.push(e);
                        format!("Some({})", v)
                    }
                    None => "None".into(),
                }
            }
            Op::Invalidate(k) => { self.hk(s, now); self.remove(s, k); String::new() }
            Op::InvalidateAll => { s.p.clear(); s.wo.clear(); s.entry_count = 0; s.weighted_size = 0; String::new() }
            Op::InvalidateIf(m) => {
                let keys: Vec<u8> = s.p.iter().filter(|e| pred(m, e.key, e.value)).map(|e| e.key).collect();
                for k in keys { self.remove(s, k); }
                String::new()
            }
            Op::Insert(k, v) => {
                self.hk(s, now);
                let w = weight_of(&self.cfg, v);
                if let Some(i) = s.p.iter().position(|e| e.key == k) {
                    // update: rebinding restarts both timers, the key becomes most recently used
                    let mut e = s.p.remove(i);
                    let old_w = e.weight;
                    e.value = v; e.weight = w;
                    if ts.is_some() { e.ta = ts; if self.cfg.ttl.is_some() { e.tm = ts; } }
                    s.p.push(e);
                    if self.cfg.ttl.is_some() { s.wo.retain(|x| *x != k); s.wo.push(k); }
                    s.weighted_size = s.weighted_size.saturating_sub(old_w as u64).saturating_add(w as u64);
                } else {
                    let fits = match self.cfg.cap { Some(l) => s.weighted_size + w as u64 <= l, None => true };
                    let fresh = E { key: k, value: v, weight: w, ta: ts, tm: if self.cfg.ttl.is_some() { ts } else { None } };
                    if fits {
                        s.p.push(fresh);
                        if self.cfg.ttl.is_some() { s.wo.push(k); }
                        s.entry_count += 1; s.weighted_size = s.weighted_size.saturating_add(w as u64);
                        self.maybe_enable_sketch(s);
                    } else if self.cfg.cap.map_or(false, |l| w as u64 > l) {
                        // heavier than the whole cache: rejected, nobody touched
                    } else {
                        // C13, declaratively: the shortest LRU prefix weighing at least w; admitted iff strictly more popular than it
                        let cf = self.sketch.frequency(hash_of(k)) as u32;
                        let mut n = None; let mut acc = 0u64;
                        if acc >= w as u64 { n = Some(0); }
                        else { for (i, e) in s.p.iter().enumerate() { acc += e.weight as u64; if acc >= w as u64 { n = Some(i + 1); break; } } }
                        let admitted = match n { Some(n) => cf > s.p[..n].iter().map(|e| self.sketch.frequency(hash_of(e.key)) as u32).sum::<u32>(), None => false };
                        if admitted {
                            let victims: Vec<u8> = s.p[..n.unwrap()].iter().map(|e| e.key).collect();
                            for vk in victims { self.remove(s, vk); }
                            s.p.push(fresh);
                            if self.cfg.ttl.is_some() { s.wo.push(k); }
                            s.entry_count += 1; s.weighted_size = s.weighted_size.saturating_add(w as u64);
                            self.maybe_enable_sketch(s);
                        }
                    }
                }
                String::new()
            }
        };
        s.freqs = PROBES.iter().map(|h| self.sketch.frequency(*h)).collect();
        res
    }
}
fn pred(m: u8, k: u8, v: u8) -> bool { match m { 0 => true, 1 => k % 2 == 0, 2 => v % 2 == 1, _ => k == v } }

// ---------- running one history ----------
pub struct Finding { pub tags: &'static str, pub what: String }

fn classify(op: Op, cfg: &Cfg, exp: &Snap, got: &Snap, exp_res: &str, got_res: &str, errs: &[String], live_k: i64, live_v: i64) -> Option<Finding> {
    let observer = matches!(op, Op::Contains(_) | Op::Iter);
    let expiry = cfg.ttl.is_some() || cfg.tti.is_some();
    if !errs.is_empty() {
        // a node left behind by an invalidation still carries its key and stamp: a later expiry scan removes BY KEY whatever is then
        // in the map under it (a re-inserted entry), so for the invalidating operations this is also C07 / C05
        let inval = matches!(op, Op::Invalidate(_) | Op::InvalidateAll | Op::InvalidateIf(_));
        // ... and whatever operation leaves such a node behind: when it reaches the front of an expiry scan or the cold end of
        // the recency list, the removal BY KEY takes out a live, re-inserted entry of that key (C03)
        return Some(Finding { tags: if inval { "C11,C08,C07,C05,C03" } else { "C11,C08,C03" }, what: format!("list/map structure: {}", errs.join("; ")) });
    }
    if exp_res != got_res {
        return Some(Finding { tags: if expiry { "C01,C05,C06,C03" } else { "C01,C03,C07" }, what: format!("result of {:?}: expected {} got {}", op, exp_res, got_res) });
    }
    let ek: Vec<u8> = { let mut v: Vec<u8> = exp.p.iter().map(|e| e.key).collect(); v.sort(); v };
    let gk: Vec<u8> = { let mut v: Vec<u8> = got.p.iter().map(|e| e.key).collect(); v.sort(); v };
    if ek != gk {
        let missing: Vec<&u8> = ek.iter().filter(|k| !gk.contains(k)).collect();
        let extra: Vec<&u8> = gk.iter().filter(|k| !ek.contains(k)).collect();
        let tags = match op {
            Op::Insert(..) if !missing.is_empty() && cfg.cap.is_none() => "C03,C17,C12,C13",
            Op::Insert(..) if !missing.is_empty() => "C03,C12,C13",
            Op::Insert(..) => "C04,C12,C13",
            Op::Invalidate(_) | Op::InvalidateAll | Op::InvalidateIf(_) => "C07,C01",
            _ if !missing.is_empty() => if observer { "C03,C15" } else { "C03" },
            _ => if expiry { "C05,C06,C04,C11,C12" } else { "C04,C12" },
        };
        return Some(Finding { tags, what: format!("residents after {:?}: expected {:?} got {:?} (missing {:?}, unexpected {:?})", op, ek, gk, missing, extra) });
    }
    if exp.p.iter().map(|e| e.key).collect::<Vec<_>>() != got.p.iter().map(|e| e.key).collect::<Vec<_>>() {
        return Some(Finding { tags: if observer { "C12,C15,C13" } else { "C12,C13" }, what: format!("recency order after {:?}: expected {:?} got {:?}", op,
            exp.p.iter().map(|e| e.key).collect::<Vec<_>>(), got.p.iter().map(|e| e.key).collect::<Vec<_>>()) });
    }
    for (a, b) in exp.p.iter().zip(got.p.iter()) {
        if a.value != b.value { return Some(Finding { tags: "C01", what: format!("value of key {} after {:?}: expected {} got {}", a.key, op, a.value, b.value) }); }
        if a.weight != b.weight { return Some(Finding { tags: "C10,C04", what: format!("stored weight of key {} after {:?}: expected {} got {}", a.key, op, a.weight, b.weight) }); }
        if a.ta != b.ta { return Some(Finding { tags: if observer { "C06,C15,C03" } else { "C06,C03" }, what: format!("last-accessed time of key {} after {:?} differs from the specification", a.key, op) }); }
        if a.tm != b.tm { return Some(Finding { tags: if observer { "C05,C15,C03" } else { "C05,C03" }, what: format!("last-modified time of key {} after {:?} differs from the specification", a.key, op) }); }
    }
    if exp.wo != got.wo { return Some(Finding { tags: "C05,C11", what: format!("write-order list after {:?}: expected {:?} got {:?}", op, exp.wo, got.wo) }); }
    if got.entry_count != got.p.len() as u64 { return Some(Finding { tags: "C10", what: format!("entry_count {} but {} entries held after {:?}", got.entry_count, got.p.len(), op) }); }
    let held: u64 = got.p.iter().map(|e| e.weight as u64).sum();
    if got.weighted_size != held { return Some(Finding { tags: "C10,C03,C04,C12", what: format!("weighted_size {} but resident weight {} after {:?}", got.weighted_size, held, op) }); }
    if exp.freqs != got.freqs || exp.enabled != got.enabled {
        return Some(Finding { tags: if observer { "C14,C15" } else { "C14,C13" }, what: format!("popularity estimates after {:?}: expected {:?} got {:?}", op, exp.freqs, got.freqs) });
    }
    if live_k != got.p.len() as i64 || live_v != got.p.len() as i64 {
        return Some(Finding { tags: "C11", what: format!("{} live key objects / {} live value objects for {} resident entries after {:?}", live_k, live_v, got.p.len(), op) });
    }
    None
}

/// the cache is built the way a user builds it (builder chain -> with_everything), so that the configuration pass-through is
/// part of what is compared with the specification; capacities 2 and 3 go through `with_everything` directly (both entries)
fn build(cfg: &Cfg) -> C {
    if cfg.cap == Some(2) || cfg.cap == Some(3) {
        let weigher: Option<Weigher<CK, CV>> = cfg.weigher.map(|t| Box::new(move |_k: &CK, v: &CV| WEIGHTS[t as usize][(v.0 % 4) as usize]) as Weigher<CK, CV>);
        return Cache::with_everything(cfg.cap, None, IdBuild, weigher, cfg.ttl.map(Duration::from_nanos), cfg.tti.map(Duration::from_nanos));
    }
    let mut b = Cache::<CK, CV>::builder().initial_capacity(if cfg.cap == Some(6) { 50 } else { 0 });
    if let Some(c) = cfg.cap { b = b.max_capacity(c); }
    if let Some(d) = cfg.ttl { b = b.time_to_live(Duration::from_nanos(d)); }
    if let Some(d) = cfg.tti { b = b.time_to_idle(Duration::from_nanos(d)); }
    if let Some(t) = cfg.weigher { b = b.weigher(move |_k: &CK, v: &CV| WEIGHTS[t as usize][(v.0 % 4) as usize]); }
    b.build_with_hasher(IdBuild)
}

pub fn run_history(cfg: Cfg, ops: &[Op]) -> Option<(usize, Finding)> {
    LIVE_K.with(|c| c.set(0)); LIVE_V.with(|c| c.set(0));
    let mut c: C = build(&cfg);
    let (clock, mock) = Clock::mock();
    c.set_expiration_clock(Some(clock));
    {   // C17: the cache reports exactly the configuration it was built with
        let pol = c.policy();
        if pol.max_capacity() != cfg.cap || pol.time_to_live() != cfg.ttl.map(Duration::from_nanos) || pol.time_to_idle() != cfg.tti.map(Duration::from_nanos) {
            return Some((0, Finding { tags: "C17,C05,C06,C04", what: format!("policy() reports ({:?}, {:?}, {:?})", pol.max_capacity(), pol.time_to_live(), pol.time_to_idle()) }));
        }
    }
    let mut spec = Spec { cfg, sketch: FrequencySketch::default() };
    let mut errs = Vec::new();
    let mut cur = snapshot(&c, &mut errs);
    for (i, op) in ops.iter().enumerate() {
        let now = Instant::new(c.expiration_clock.as_ref().unwrap().now());
        let mut exp = cur.clone();
        let exp_res = spec.apply(&mut exp, *op, now);
        let got_res = match *op {
            Op::Insert(k, v) => { c.insert(CK::new(k), CV::new(v)); String::new() }
            Op::Get(k) => match c.get(&CK::probe(k)) { Some(v) => format!("Some({})", v.0), None => "None".into() },
            Op::Contains(k) => format!("{}", c.contains_key(&CK::probe(k))),
            Op::Invalidate(k) => { c.invalidate(&CK::probe(k)); String::new() }
            Op::InvalidateAll => { c.invalidate_all(); String::new() }
            Op::InvalidateIf(m) => { c.invalidate_entries_if(move |k, v| pred(m, k.0, v.0)); String::new() }
            Op::Iter => { let mut v: Vec<(u8, u8)> = c.iter().map(|(k, v)| (k.0, v.0)).collect(); let n = v.len(); v.sort(); v.dedup();
                          if v.len() != n { "iteration yielded a key twice".into() } else { format!("{:?}", v) } }
            Op::Advance(ns) => { mock.increment(Duration::from_nanos(ns)); String::new() }
        };
        let mut errs = Vec::new();
        let got = snapshot(&c, &mut errs);
        let (lk, lv) = (LIVE_K.with(|c| c.get()), LIVE_V.with(|c| c.get()));
        if let Some(f) = classify(*op, &cfg, &exp, &got, &exp_res, &got_res, &errs, lk, lv) { return Some((i, f)); }
        cur = got;
    }
    drop(c);
    let (lk, lv) = (LIVE_K.with(|c| c.get()), LIVE_V.with(|c| c.get()));
    if lk != 0 || lv != 0 { return Some((ops.len(), Finding { tags: "C11", what: format!("{} key / {} value objects still alive after the cache was dropped", lk, lv) })); }
    None
}

/// C15 as stated (metamorphic): the answers of all lookups of `ops` on the real cache, optionally with one extra observer call
/// inserted before position `extra.0`; also tells whether a weight surplus was pending when that extra call was made
fn lookups(cfg: Cfg, ops: &[Op], extra: Option<(usize, Op)>) -> (Vec<String>, bool) {
    let mut c: C = build(&cfg);
    let (clock, mock) = Clock::mock();
    c.set_expiration_clock(Some(clock));
    let mut out = Vec::new(); let mut pending = false;
    let step = |c: &mut C, op: Op| -> String { match op {
        Op::Insert(k, v) => { c.insert(CK::new(k), CV::new(v)); String::new() }
        Op::Get(k) => match c.get(&CK::probe(k)) { Some(v) => format!("Some({})", v.0), None => "None".into() },
        Op::Contains(k) => format!("{}", c.contains_key(&CK::probe(k))),
        Op::Invalidate(k) => { c.invalidate(&CK::probe(k)); String::new() }
        Op::InvalidateAll => { c.invalidate_all(); String::new() }
        Op::InvalidateIf(m) => { c.invalidate_entries_if(move |k, v| pred(m, k.0, v.0)); String::new() }
        Op::Iter => { let mut v: Vec<(u8, u8)> = c.iter().map(|(k, v)| (k.0, v.0)).collect(); v.sort(); format!("{:?}", v) }
        Op::Advance(ns) => { mock.increment(Duration::from_nanos(ns)); String::new() }
    } };
    for i in 0..=ops.len() {
        if let Some((at, o)) = extra { if at == i { pending = cfg.cap.map_or(false, |l| c.weighted_size() > l); let _ = step(&mut c, o); } }
        if i < ops.len() { out.push(step(&mut c, ops[i])); }
    }
    (out, pending)
}
/// every way of inserting one extra contains_key / iteration into `ops`; Some((h', index in h' of the first lookup whose answer changed, finding))
fn metamorphic(cfg: Cfg, ops: &[Op]) -> Vec<(Vec<Op>, usize, Finding)> {
    let (base, _) = lookups(cfg, ops, None);
    let mut v = Vec::new();
    for at in 0..=ops.len() {
        for o in [Op::Contains(0), Op::Contains(1), Op::Contains(9), Op::Iter] {
            let (got, pending) = lookups(cfg, ops, Some((at, o)));
            if let Some(j) = (0..ops.len()).find(|j| base[*j] != got[*j]) {
                let mut h: Vec<Op> = ops.to_vec(); h.insert(at, o);
                // KNOWN FAMILY KF-C15-1 (known_findings.txt, DESIGN.md section 6): contains_key starts with the same housekeeping as
                // every other operation; when a weight-growing update has left a surplus, the extra call trims it NOW instead of at
                // the next operation, i.e. possibly before a later expiry or invalidation would have made room
                let what = format!("{}answer of {:?} (operation {} of the history) changes from {} to {} when the extra {:?} is inserted at position {}",
                    if pending && matches!(o, Op::Contains(_)) { "pattern=KF-C15-1 (a weight surplus was pending at the extra call) " } else { "" }, ops[j], j, base[j], got[j], o, at);
                v.push((h, if j >= at { j + 1 } else { j }, Finding { tags: "C15", what }));
                break;
            }
        }
    }
    v
}

fn all_ops(keys: u8, vals: u8) -> Vec<Op> {
    let mut v = Vec::new();
    for k in 0..keys { for x in 0..vals { v.push(Op::Insert(k, x)); } v.push(Op::Get(k)); v.push(Op::Contains(k)); v.push(Op::Invalidate(k)); }
    v.push(Op::InvalidateAll); v.push(Op::InvalidateIf(1)); v.push(Op::InvalidateIf(2)); v.push(Op::Iter);
    v.push(Op::Advance(5)); v.push(Op::Advance(10));
    v
}
fn configs() -> Vec<Cfg> {
    let mut v = Vec::new();
    for cap in [None, Some(0u64), Some(1), Some(2), Some(3), Some(6)] {
        for (ttl, tti) in [(None, None), (Some(10u64), None), (None, Some(10u64)), (Some(15), Some(10)), (Some(0), None)] {
            for weigher in [None, Some(0u8), Some(1), Some(2)] { v.push(Cfg { cap, ttl, tti, weigher }); }
            if cap.is_none() || cap == Some(6) { v.push(Cfg { cap, ttl, tti, weigher: Some(3) }); }
        }
    }
    v
}

struct Rng(u64);
impl Rng { fn next(&mut self) -> u64 { self.0 ^= self.0 << 13; self.0 ^= self.0 >> 7; self.0 ^= self.0 << 17; self.0 } fn below(&mut self, n: usize) -> usize { (self.next() % n as u64) as usize } }

fn report(cfg: &Cfg, ops: &[Op], at: usize, f: &Finding) {
    println!("RT-FAIL tags={} what={} cfg={:?} failing_op_index={} history={:?}", f.tags, f.what, cfg, at, &ops[..(at + 1).min(ops.len())]);
}

/// shrink a failing history by dropping operations while it still fails with a finding of the same tags
fn shrink(cfg: Cfg, ops: Vec<Op>, tags: &'static str) -> Vec<Op> {
    let mut cur = ops;
    loop {
        let mut progressed = false;
        for i in 0..cur.len() {
            let mut t = cur.clone(); t.remove(i);
            if let Some((_, f)) = run_history(cfg, &t) { if f.tags == tags { cur = t; progressed = true; break; } }
        }
        if !progressed { return cur; }
    }
}


/// C17 on a grid of configurations: policy() echoes what the builder was given, `new(n)` is `builder().max_capacity(n).build()`,
/// and `build` / `build_with_hasher` panic exactly when a duration exceeds 1000 years
fn config_grid() -> Vec<String> {
    use std::panic::{catch_unwind, AssertUnwindSafe};
    let mut bad = Vec::new();
    let y1000 = Duration::from_secs(1000 * 365 * 24 * 3600);
    let caps = [0u64, 1, 7, 1 << 32, u64::MAX - u32::MAX as u64 - 1, u64::MAX - u32::MAX as u64, u64::MAX - u32::MAX as u64 + 1, u64::MAX - 1, u64::MAX];
    let durs = [None, Some(Duration::from_nanos(0)), Some(Duration::from_nanos(1)), Some(y1000)];
    for cap in caps.iter().map(|c| Some(*c)).chain(std::iter::once(None)) {
        for ttl in durs { for tti in durs { for init in [None, Some(0usize), Some(3)] { for hasher in [false, true] {
            let mk = || { let mut b = Cache::<u8, u8>::builder();
                if let Some(c) = cap { b = b.max_capacity(c); } if let Some(d) = ttl { b = b.time_to_live(d); } if let Some(d) = tti { b = b.time_to_idle(d); }
                if let Some(i) = init { b = b.initial_capacity(i); } b };
            let pol = if hasher { mk().build_with_hasher(IdBuild).policy() } else { mk().build().policy() };
            if pol.max_capacity() != cap || pol.time_to_live() != ttl || pol.time_to_idle() != tti {
                bad.push(format!("builder(cap {:?}, ttl {:?}, tti {:?}, initial {:?}, custom hasher {}) -> policy() reports ({:?}, {:?}, {:?})", cap, ttl, tti, init, hasher, pol.max_capacity(), pol.time_to_live(), pol.time_to_idle()));
            }
        }}}}
        if let Some(c) = cap {
            let p = Cache::<u8, u8>::new(c).policy();
            if p.max_capacity() != Some(c) || p.time_to_live().is_some() || p.time_to_idle().is_some() { bad.push(format!("new({}) -> policy() reports ({:?}, {:?}, {:?})", c, p.max_capacity(), p.time_to_live(), p.time_to_idle())); }
        }
    }
    let over = y1000 + Duration::from_nanos(1);
    let hook = std::panic::take_hook(); std::panic::set_hook(Box::new(|_| {}));
    for (ttl, tti) in [(Some(over), None), (None, Some(over)), (Some(over), Some(over)), (Some(y1000), Some(over))] { for hasher in [false, true] {
        let r = catch_unwind(AssertUnwindSafe(|| { let mut b = Cache::<u8, u8>::builder().max_capacity(10);
            if let Some(d) = ttl { b = b.time_to_live(d); } if let Some(d) = tti { b = b.time_to_idle(d); }
            if hasher { let _ = b.build_with_hasher(IdBuild); } else { let _ = b.build(); } }));
        if r.is_ok() { bad.push(format!("builder(ttl {:?}, tti {:?}, custom hasher {}) did not panic although a duration exceeds 1000 years", ttl, tti, hasher)); }
    }}
    std::panic::set_hook(hook);
    bad
}
#[test]
fn verif_rt_unsync() {
    let tier = std::env::var("VERIF_RT_TIER").unwrap_or_else(|_| "quick".into());
    let seed: u64 = std::env::var("VERIF_SEED").ok().and_then(|s| s.parse().ok()).unwrap_or(1);
    let (exh_len, rnd_n, rnd_len) = if tier == "thorough" { (3usize, 60_000usize, 40usize) } else { (2usize, 6_000usize, 30usize) };
    let ops = all_ops(3, 3);
    let cfgs = configs();
    let mut histories = 0u64; let mut steps = 0u64; let mut findings = 0;
    let mut seen_tags: Vec<&'static str> = Vec::new();
    // exhaustive part: every sequence of length <= exh_len over the operation alphabet, in every configuration
    let mut idx = vec![0usize; exh_len];
    'outer: loop {
        let seq: Vec<Op> = idx.iter().map(|i| ops[*i]).collect();
        for cfg in &cfgs {
            histories += 1; steps += seq.len() as u64;
            if let Some((at, f)) = run_history(*cfg, &seq) {
                if !seen_tags.contains(&f.tags) { seen_tags.push(f.tags); let s = shrink(*cfg, seq[..(at + 1).min(seq.len())].to_vec(), f.tags);
                    let (at2, f2) = run_history(*cfg, &s).unwrap(); report(cfg, &s, at2, &f2); findings += 1; }
            }
        }
        let mut j = 0;
        loop { idx[j] += 1; if idx[j] < ops.len() { break; } idx[j] = 0; j += 1; if j == exh_len { break 'outer; } }
        if findings >= 6 { break; }
    }
    // sampled part: long histories biased towards a full cache with repeated reads (so that admission and eviction happen)
    let big = all_ops(5, 4);
    let mut rng = Rng(seed.wrapping_mul(0x9E37_79B9_7F4A_7C15) | 1);
    for _ in 0..rnd_n {
        if findings >= 6 { break; }
        let cfg = cfgs[rng.below(cfgs.len())];
        let seq: Vec<Op> = (0..rnd_len).map(|_| big[rng.below(big.len())]).collect();
        histories += 1; steps += seq.len() as u64;
        if let Some((at, f)) = run_history(cfg, &seq) {
            if !seen_tags.contains(&f.tags) { seen_tags.push(f.tags); let s = shrink(cfg, seq[..(at + 1).min(seq.len())].to_vec(), f.tags);
                let (at2, f2) = run_history(cfg, &s).unwrap(); report(&cfg, &s, at2, &f2); findings += 1; }
        }
    }
    // directed part: more entries than one maintenance batch (EVICTION_BATCH_SIZE = 100) expire at once, so that lookups and
    // iteration meet expired entries that the purge has not reached yet
    for cfg in &cfgs {
        if findings >= 6 { break; }
        if cfg.cap.is_some() && cfg.cap != Some(6) { continue; }
        let cfg = Cfg { cap: if cfg.cap.is_some() { Some(1000) } else { None }, ..*cfg };
        for tail in [vec![Op::Get(149), Op::Get(3)], vec![Op::Contains(148), Op::Contains(2)], vec![Op::Iter], vec![Op::Insert(149, 1), Op::Get(149)], vec![Op::Invalidate(147), Op::Iter],
                     vec![Op::InvalidateIf(1), Op::Iter], vec![Op::InvalidateIf(0), Op::Iter], vec![Op::InvalidateAll, Op::Iter]] {
            for dt in [10u64, 15, 5] {
                let mut seq: Vec<Op> = (0..150u8).map(|k| Op::Insert(k, k % 4)).collect();
                seq.push(Op::Get(0)); seq.push(Op::Advance(dt)); seq.extend(tail.iter().cloned());
                histories += 1; steps += seq.len() as u64;
                if let Some((at, f)) = run_history(cfg, &seq) {
                    if !seen_tags.contains(&f.tags) { seen_tags.push(f.tags); report(&cfg, &seq[at.saturating_sub(2)..], at.min(2), &f); findings += 1; }
                }
            }
        }
    }
    // directed part: a weight-growing update leaves a surplus that the NEXT operation has to trim, while another entry sits
    // exactly at its expiry deadline or weightless entries sit at the cold end (order of the two housekeeping steps, trim amount)
    for cfg in &cfgs {
        if findings >= 6 { break; }
        if cfg.weigher.is_none() || cfg.weigher == Some(3) || cfg.cap.is_none() { continue; }
        for (a, b, c0, c1) in [(0u8, 1u8, 2u8, 3u8), (1, 0, 0, 3), (2, 2, 0, 3), (0, 0, 1, 3), (3, 0, 1, 3), (2, 1, 1, 3), (1, 1, 0, 2)] {
            for dt in [10u64, 5, 15] {
                for next in [Op::Contains(9), Op::Get(1), Op::Invalidate(1), Op::Insert(4, 0), Op::Iter] {
                    let seq = vec![Op::Insert(0, a), Op::Advance(1), Op::Insert(1, b), Op::Advance(1), Op::Get(0), Op::Insert(2, c0), Op::Insert(2, c1), Op::Advance(dt - 2), next, Op::Contains(9), Op::Iter];
                    histories += 1; steps += seq.len() as u64;
                    if let Some((at, f)) = run_history(*cfg, &seq) {
                        if !seen_tags.contains(&f.tags) { seen_tags.push(f.tags); let s2 = shrink(*cfg, seq[..(at + 1).min(seq.len())].to_vec(), f.tags);
                            let (at2, f2) = run_history(*cfg, &s2).unwrap(); report(cfg, &s2, at2, &f2); findings += 1; }
                    }
                }
            }
        }
    }
    // directed part: an admission that needs more victims than one maintenance batch (100): 150 weight-1 residents, a newcomer of
    // weight 100 / 101 / 120 that was looked up more often than all of them together
    for heavy in [1u8, 2, 3] { for lookups in [0usize, 1, 3] {
        if findings >= 6 { break; }
        let cfg = Cfg { cap: Some(150), ttl: None, tti: None, weigher: Some(4) };
        let mut seq: Vec<Op> = (0..150u8).map(|k| Op::Insert(k, 0)).collect();
        for _ in 0..lookups { seq.push(Op::Get(200)); }
        seq.push(Op::Insert(200, heavy)); seq.push(Op::Iter); seq.push(Op::Get(0)); seq.push(Op::Get(200));
        histories += 1; steps += seq.len() as u64;
        if let Some((at, f)) = run_history(cfg, &seq) {
            if !seen_tags.contains(&f.tags) { seen_tags.push(f.tags); report(&cfg, &seq[at.saturating_sub(4)..], at.min(4), &f); findings += 1; }
        }
    }}
    // metamorphic part, C15 as stated: one extra contains_key / iteration anywhere in a history changes no other lookup
    let mut meta_pairs = 0u64; let mut seen_meta: Vec<bool> = Vec::new();
    let mut meta = |cfg: Cfg, seq: &[Op], findings: &mut i32, histories: &mut u64| {
        *histories += (seq.len() as u64 + 1) * 4 + 1;
        for (h, at, f) in metamorphic(cfg, seq) {
            let kf = f.what.contains("pattern=KF-");
            if !seen_meta.contains(&kf) { seen_meta.push(kf); report(&cfg, &h, at, &f); *findings += 1; }
        }
    };
    for cfg in &cfgs {
        if cfg.weigher.is_none() || cfg.weigher == Some(3) || cfg.cap.is_none() { continue; }
        for (a, b, c0, c1) in [(0u8, 1u8, 2u8, 3u8), (1, 0, 0, 3), (2, 2, 0, 3), (0, 0, 1, 3), (3, 0, 1, 3), (2, 1, 1, 3), (1, 1, 0, 2)] {
            for tail in [vec![Op::Advance(8), Op::Get(1), Op::Get(0), Op::Iter], vec![Op::InvalidateIf(2), Op::Iter], vec![Op::Invalidate(2), Op::Iter], vec![Op::Get(0), Op::Get(1), Op::Iter]] {
                let mut seq = vec![Op::Insert(0, a), Op::Advance(1), Op::Insert(1, b), Op::Advance(1), Op::Get(0), Op::Insert(2, c0), Op::Insert(2, c1)];
                seq.extend(tail.iter().cloned());
                meta_pairs += 1; meta(*cfg, &seq, &mut findings, &mut histories);
            }
        }
    }
    let meta_n = if tier == "thorough" { 6000 } else { 600 };
    for _ in 0..meta_n {
        let cfg = cfgs[rng.below(cfgs.len())];
        let seq: Vec<Op> = (0..12).map(|_| big[rng.below(big.len())]).collect();
        meta_pairs += 1; meta(cfg, &seq, &mut findings, &mut histories);
    }
    let known_family = seen_meta.iter().filter(|k| **k).count() as i32;
    println!("RT-NOTE metamorphic_base_histories={} (each with every insertion point x 4 observers)", meta_pairs);
    for b in config_grid() { println!("RT-FAIL tags=C17 what={} cfg=- failing_op_index=0 history=[]", b); findings += 1; if findings >= 3 { break; } }
    println!("RT-SUMMARY harness=unsync tier={} seed={} histories={} steps={} configs={} alphabet={} exhaustive_len={} sampled={}x{} findings={}",
        tier, seed, histories, steps, cfgs.len(), ops.len(), exh_len, rnd_n, rnd_len, findings);
    assert!(findings - known_family == 0, "runtime contract check found {} violation(s)", findings);
}
