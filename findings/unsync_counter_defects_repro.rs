// In-crate tests (append to src/unsync/cache.rs); all six FAIL on the pinned tree (2026-09-24)
#[cfg(test)]
mod zz_defects {
    use super::Cache;
    use crate::common::time::Clock;
    use std::time::Duration;

    #[test]
    fn d1_invalidate_entry_count() {
        let mut c = Cache::new(10);
        c.insert("a", 1);
        c.invalidate(&"a");
        assert_eq!(c.iter().count(), 0);
        assert_eq!((c.entry_count(), c.weighted_size()), (0, 0), "after invalidate");
    }
    #[test]
    fn d2_invalidate_all_entry_count() {
        let mut c = Cache::new(10);
        c.insert("a", 1);
        c.insert("b", 1);
        c.invalidate_all();
        assert_eq!(c.iter().count(), 0);
        assert_eq!((c.entry_count(), c.weighted_size()), (0, 0), "after invalidate_all");
    }
    #[test]
    fn d3_invalidate_entries_if_counters() {
        let mut c = Cache::new(10);
        c.insert("a", 1);
        c.insert("b", 1);
        c.invalidate_entries_if(|_k, _v| true);
        assert_eq!(c.iter().count(), 0);
        assert_eq!((c.entry_count(), c.weighted_size()), (0, 0), "after invalidate_entries_if");
    }
    #[test]
    fn d4_ttl_expiry_weight_and_refill() {
        let mut c = Cache::builder().max_capacity(2).time_to_live(Duration::from_secs(10)).build();
        let (clock, mock) = Clock::mock();
        c.set_expiration_clock(Some(clock));
        c.insert("a", 1);
        c.insert("b", 1);
        mock.increment(Duration::from_secs(11));
        assert!(!c.contains_key(&"a") && !c.contains_key(&"b"));
        assert_eq!(c.entry_count(), 0);
        assert_eq!(c.weighted_size(), 0, "weighted_size after ttl expiry");
    }
    #[test]
    fn d5_ttl_expiry_then_insert_lost() {
        let mut c = Cache::builder().max_capacity(2).time_to_live(Duration::from_secs(10)).build();
        let (clock, mock) = Clock::mock();
        c.set_expiration_clock(Some(clock));
        c.insert("a", 1);
        c.insert("b", 1);
        mock.increment(Duration::from_secs(11));
        c.insert("c", 3);
        assert_eq!(c.get(&"c"), Some(&3), "fresh insert into an empty cache must be retained");
    }
    #[test]
    fn d6_invalidate_entries_if_then_insert_lost() {
        let mut c = Cache::new(2);
        c.insert("a", 1);
        c.insert("b", 1);
        c.invalidate_entries_if(|_k, _v| true);
        c.insert("c", 3);
        assert_eq!(c.get(&"c"), Some(&3), "fresh insert into an empty cache must be retained");
    }
}
