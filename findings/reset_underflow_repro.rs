use mini_moka::unsync::Cache;
use std::hash::{BuildHasher, Hasher};

#[derive(Clone, Default)]
struct IdBuild;
struct IdHasher(u64);
impl Hasher for IdHasher {
    fn finish(&self) -> u64 { self.0 }
    fn write(&mut self, bytes: &[u8]) { for b in bytes { self.0 = (self.0 << 8) | *b as u64; } }
    fn write_u64(&mut self, i: u64) { self.0 = i; }
}
impl BuildHasher for IdBuild { type Hasher = IdHasher; fn build_hasher(&self) -> IdHasher { IdHasher(0) } }

const SEED: [u64; 4] = [0xc3a5_c85c_97cb_3127, 0xb492_b66f_be98_f273, 0x9ae1_6a3b_2f90_404f, 0xcbf2_9ce4_8422_2325];
fn index_of(hash: u64, depth: usize, mask: u64) -> usize {
    let mut h = hash.wrapping_add(SEED[depth]).wrapping_mul(SEED[depth]);
    h = h.wrapping_add(h >> 32);
    (h & mask) as usize
}
fn positions(hash: u64, mask: u64) -> [(usize, usize); 4] {
    let start = ((hash & 3) << 2) as usize;
    let mut r = [(0, 0); 4];
    for i in 0..4 { r[i] = (index_of(hash, i, mask), start + i); }
    r
}

#[test]
fn reset_underflow_via_public_api() {
    let max_cap: u64 = 129;
    let mut cache: Cache<u64, u64, IdBuild> = Cache::builder().max_capacity(max_cap).build_with_hasher(IdBuild);
    // Fill half so that the sketch gets enabled (table 256 words, sample_size 1290).
    for k in 0..65u64 { cache.insert(1_000_000_000 + k, k); }
    let mask = 255u64;
    let sample = 1290usize;
    // model of the sketch
    let mut t = vec![[0u8; 16]; 256];
    let mut plan: Vec<u64> = Vec::new();
    let mut h: u64 = 1;
    // phase 1: pick hashes whose 4 counters are all zero -> each makes 4 counters odd
    while plan.len() < sample - 1 {
        let odd: usize = t.iter().map(|w| w.iter().filter(|c| **c % 2 == 1).count()).sum();
        let remaining = sample - plan.len();
        let _ = remaining;
        let mut found = None;
        for _ in 0..200000 {
            h = h.wrapping_mul(6364136223846793005).wrapping_add(1442695040888963407);
            let p = positions(h, mask);
            let zeros = p.iter().filter(|(w, c)| t[*w][*c] % 2 == 0).count();
            // want to only increase number of odd counters when below 3600, else keep parity (2 odd + 2 even)
            let distinct = { let mut s = p.to_vec(); s.sort(); s.dedup(); s.len() == 4 };
            if !distinct { continue; }
            if odd < 3600 { if zeros == 4 { found = Some(h); break; } }
            else if zeros == 2 { found = Some(h); break; }
        }
        let hh = found.expect("no hash found");
        for (w, c) in positions(hh, mask) { if t[w][c] < 15 { t[w][c] += 1; } }
        plan.push(hh);
    }
    let odd: usize = t.iter().map(|w| w.iter().filter(|c| **c % 2 == 1).count()).sum();
    eprintln!("planned {} increments, odd counters = {}, need count>>2 = {} > size>>1 = {}", plan.len(), odd, odd >> 2, sample >> 1);
    for k in &plan { cache.get(k); }
    // the 1290th increment triggers reset()
    h = h.wrapping_add(12345);
    cache.get(&h);
    eprintln!("no panic");
}
