// Public-API replays of two defects of the concurrent cache found by the bounded runtime stand-in (rt/sync_rt.rs).
// Both FAIL on the pinned tree.
use mini_moka::sync::{Cache, ConcurrentCacheExt};
use std::time::Duration;

fn consistent(cache: &Cache<u8, u32>, weigh: impl Fn(u32) -> u64) {
    let n = cache.iter().count() as u64;
    let w: u64 = cache.iter().map(|e| weigh(*e.value())).sum();
    assert_eq!((cache.entry_count(), cache.weighted_size()), (n, w), "counters vs. what the cache holds (entries, weight)");
}

/// D8: three updates of one key in a row (weights 1 -> 9 -> 1, capacity 1): the entry is evicted while its last update is
/// still queued; the counter gives back the UPDATED weight (1) instead of the accounted one (9): weighted_size() == 8
/// for an empty cache, for ever (C10) ...
#[test]
fn d8_eviction_with_queued_update_corrupts_weighted_size() {
    let cache: Cache<u8, u32> = Cache::builder().max_capacity(1).weigher(|_k, v: &u32| *v).build();
    cache.insert(4, 1);
    cache.insert(4, 9);
    cache.insert(4, 1);
    cache.sync();
    consistent(&cache, |v| v as u64);
}

/// ... and every later insert that fits is rejected for lack of room (C03)
#[test]
fn d8_then_fresh_insert_is_lost() {
    let cache: Cache<u8, u32> = Cache::builder().max_capacity(2).weigher(|_k, v: &u32| *v).build();
    cache.insert(4, 1);
    cache.insert(4, 9);
    cache.insert(4, 1);
    cache.sync();
    cache.insert(7, 1);
    cache.sync();
    assert_eq!(cache.get(&7), Some(1), "a fresh insert that fits must be retained");
    cache.sync();
    consistent(&cache, |v| v as u64);
}

/// D9: time_to_live == 0 and two inserts of one key in a row: the first maintenance run admits the entry and expires it at
/// once while the second insert is still queued; applying that queued update re-creates list nodes and counters for a key
/// that is no longer in the map: entry_count() == 1 for an empty cache, and the nodes (and the key they pin) are never freed.
#[test]
fn d9_zero_ttl_queued_update_readmits_a_removed_entry() {
    let cache: Cache<u8, u32> = Cache::builder().max_capacity(3).time_to_live(Duration::ZERO).build();
    cache.insert(2, 2);
    cache.insert(2, 0);
    cache.sync();
    cache.sync();
    consistent(&cache, |_| 1);
}

/// D13, family KF-SYNC-1, variant found with records really queued (after the housekeeper's 500 ms start-up window): an admission
/// selects its victims BY KEY; the old node of an invalidated key whose removal record is still queued resolves to the
/// re-inserted, not yet admitted entry of that key and removes it; its own write record then admits nodes and counters for a
/// key that is no longer in the map.
#[test]
fn kf_sync_1_victim_by_key_removes_reinserted_entry() {
    let cache: Cache<u8, u32> = Cache::new(2);
    std::thread::sleep(Duration::from_millis(600));
    cache.insert(1, 0);
    cache.insert(2, 0);
    cache.sync();
    cache.insert(3, 0);
    cache.invalidate(&1);
    assert_eq!(cache.get(&3), Some(0));
    cache.invalidate(&2);
    cache.insert(2, 7);
    cache.sync();
    cache.sync();
    let n = cache.iter().count() as u64;
    assert_eq!(cache.entry_count(), n, "entry_count() vs. what the cache holds");
}
