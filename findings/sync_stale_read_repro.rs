// Public-API replays (real clock) of defect D12 of the concurrent cache: `Inner::apply_reads` stores the time stamp of a queued
// read record unconditionally, so a read recorded BEFORE a later write of the same key moves `last_accessed` backwards when
// maintenance applies it. Both tests FAIL on the tree before the `fix:` commit and pass after it.
use mini_moka::sync::{Cache, ConcurrentCacheExt};
use std::{thread::sleep, time::Duration};

/// C07 / C03: a key re-inserted after invalidate_all() disappears again at the next maintenance run
#[test]
fn d12_reinserted_key_hidden_after_invalidate_all() {
    let cache: Cache<&str, u32> = Cache::new(100);
    cache.insert("k", 1);
    cache.sync();
    assert_eq!(cache.get(&"k"), Some(1)); // read record queued, stamped t0
    sleep(Duration::from_millis(20));
    cache.invalidate_all(); // watermark t1 > t0
    sleep(Duration::from_millis(20));
    cache.insert("k", 2); // t2 > t1: must stay retrievable
    cache.sync(); // applies the read record: last_accessed := t0 < watermark
    assert_eq!(cache.get(&"k"), Some(2), "C07: a key re-inserted after invalidate_all() remains retrievable");
}

/// C03: an entry updated at t = 1 s with time_to_idle = 2 s must be alive at t = 2.3 s
#[test]
fn d12_update_loses_its_idle_time() {
    let cache: Cache<&str, u32> = Cache::builder().time_to_idle(Duration::from_secs(2)).build();
    cache.insert("k", 1);
    cache.sync();
    assert_eq!(cache.get(&"k"), Some(1)); // read record queued, stamped ~0 s
    sleep(Duration::from_millis(1000));
    cache.insert("k", 2); // idle deadline is now ~3 s
    cache.sync(); // applies the read record: last_accessed := ~0 s, deadline ~2 s
    sleep(Duration::from_millis(1300));
    assert_eq!(cache.get(&"k"), Some(2), "C03: a live entry (updated 1.3 s ago, time_to_idle 2 s) is returned");
}
