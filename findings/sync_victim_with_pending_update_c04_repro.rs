
#[cfg(test)]
mod c04_probe_unchanged {
    use super::*;
    use crate::common::time::Clock;
    use std::time::Duration;

    fn resident_weight(cache: &Cache<&'static str, u32>) -> u64 {
        cache.iter().map(|e| *e.value() as u64).sum()
    }

    #[test]
    fn probe() {
        const MAX: u64 = 10;
        let mut cache: Cache<&'static str, u32> = Cache::builder()
            .max_capacity(MAX)
            .weigher(|_k: &&'static str, v: &u32| *v)
            .build();
        cache.reconfigure_for_testing();
        let (clock, mock) = Clock::mock();
        cache.set_expiration_clock(Some(clock));
        let cache = cache;

        cache.insert("a", 5);
        cache.sync();
        cache.insert("b", 5);
        cache.sync();
        // make "c" popular
        assert_eq!(cache.get(&"c"), None);
        assert_eq!(cache.get(&"c"), None);
        cache.sync();
        assert_eq!(cache.weighted_size(), 10);

        mock.increment(Duration::from_secs(1));
        cache.insert("c", 5); // queued; will evict LRU "a"
        cache.insert("a", 9); // queued update of "a": 5 -> 9
        cache.sync();
        eprintln!("after batch: resident={} ledger={} entries={}", resident_weight(&cache), cache.weighted_size(), cache.entry_count());
        for (k, w) in [("d", 4u32), ("e", 1)] {
            cache.insert(k, w);
            cache.sync();
            eprintln!("after {k}: resident={} ledger={} entries={}", resident_weight(&cache), cache.weighted_size(), cache.entry_count());
        }
        cache.sync();
        let keys: Vec<_> = cache.iter().map(|e| (*e.key(), *e.value())).collect();
        eprintln!("{:?}", keys);
        assert!(resident_weight(&cache) <= MAX);
    }
}
