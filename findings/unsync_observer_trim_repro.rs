// Public-API replay of finding KF-C15-1 (property C15 as literally stated) on the single-threaded cache.
// `contains_key` starts with the same housekeeping as every other operation. When an in-place update has grown an entry and
// left the cache over capacity (the documented exception of C04), the surplus is trimmed by the NEXT operation; an extra
// contains_key therefore trims it earlier than the history without the call would have, and a later lookup differs.
// FAILS on the pinned tree (the assertion states C15: the extra observer call changes nothing).
use mini_moka::unsync::Cache;

fn run(extra_observer: bool) -> Option<u32> {
    let mut cache: Cache<&'static str, u32> = Cache::builder().max_capacity(10).weigher(|_k, v: &u32| *v).build();
    cache.insert("b", 3);
    cache.insert("a", 3);
    cache.insert("c", 4);          // 10 of 10
    cache.insert("c", 6);          // in-place update: 12 of 10, surplus 2 is left for the next operation
    if extra_observer {
        let _ = cache.contains_key(&"zzz");   // trims the surplus now: evicts the least recently used entry, "b"
    }
    cache.invalidate_entries_if(|k, _v| *k == "c");   // runs no housekeeping; removes the heavy entry: 6 of 10, nothing to trim
    cache.get(&"b").copied()
}

#[test]
fn kf_c15_1_extra_contains_key_changes_a_later_lookup() {
    assert_eq!(run(false), Some(3));
    assert_eq!(run(true), run(false), "C15: an extra contains_key must not change any later lookup");
}
